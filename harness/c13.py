"""C13 correspondence: per-characteristic read/write outcome mapping vs Model/CharIO.v.

Streams (each: exhaustive core + shape stream + random malformed/mutation stream):
  fcl      aiohomekit.controller.ip.pairing.format_characteristic_list called directly
  ipget    IpPairing.get_characteristics with connection.get stubbed (real get_json/JSON parse)
  ipput    IpPairing.put_characteristics with connection.put stubbed (real put_json: 204 vs 207),
           listener log recorded through dispatcher_connect
  coapread / coapput   CoAPPairing.get/put_characteristics with enc_ctx.post_all stubbed
  bleput   BlePairing.put_characteristics with ble_request stubbed (real raise_for_pdu_status)

For every case: implementation result, model result (extracted OCaml) and an independent oracle
(the property stated directly on the scripted reply).  Descriptions are compared through the
enum member they belong to (member name -> code via harness/ref/hapstatus.py), never as text.
"""
from __future__ import annotations

import asyncio
import collections
import collections
import enum
import itertools
import json
import re
import struct

from common import Coverage, Driver, rng, shrink_list, violation
from ref.hapstatus import (COAP_EXTRA, NAME_TO_CODE, PDU_STATUS, read_descr_token,
                           write_descr_token)

HAP_CODES = list(range(-70401, -70413, -1))
A_FULL = [0] + HAP_CODES + [-c for c in HAP_CODES] + [-1, 1, 5, -70400, -70413, 70413, -99999, 2 ** 31]
A_RED = [0, -70402, 70410, -1, 12345]
A_RED2 = [0, -70402, 70410]
PDU_ALPHA = [1, 2, 3, 4, 5, 6, 256, 257]
RW, WO, RWT, RO, WT = "pr,pw", "pw", "pr,pw,tw", "pr", "pw,tw"
# every subset of the three permissions the write paths look at (paired read / paired write / timed write);
# "ev" stands for "none of the three".  tw WITHOUT pw (writable only through the timed-write procedure) matters.
PERM_CORE = ["pr,pw", "pw", "pr", "pr,pw,tw", "pw,tw", "pr,tw", "tw", "ev"]
PERM_DECOR = ["ev", "hd", "aa", "wr"]         # permissions the write paths must ignore


def any_perms(r):
    """a random subset of {pr, pw, tw, ev, hd, aa, wr} (never empty)"""
    core = [x for x in r.choice(PERM_CORE).split(",") if x != "ev"]
    extra = [d for d in PERM_DECOR if r.random() < 0.3]
    out = core + extra
    r.shuffle(out)
    return ",".join(out or ["ev"])


# ---- the KIND of value written / read.  The model carries values without looking into them (theorems
# *_value_parametric in Props/C13.v), so a non-int JSON value is handed to the implementation as the real object and to
# the model as an integer code; ints (0, negative, > 2**32 included) stand for themselves.
VALS = {901: False, 902: None, 903: "", 904: 0.0, 905: True, 906: "on", 907: 1.5}
_VAL_CODE = {(type(o).__name__, json.dumps(o)): c for c, o in VALS.items()}
SPECIAL_VALUES = [0, 901, 902, 903, 904, 905, 906, 907, -5, 2 ** 40]     # falsy ones first
SPECIAL_U8 = [0, 255]                                                    # CoAP / BLE rigs use a uint8 characteristic


def impl_val(v):
    return VALS.get(v, v) if type(v) is int else v


def val_code(o):
    if type(o) is int:
        return o
    try:
        return _VAL_CODE.get((type(o).__name__, json.dumps(o)), "?" + repr(o)[:20].replace(" ", "_"))
    except (TypeError, ValueError):
        return "?" + type(o).__name__


def val_kind(v):
    if v is None:
        return "absent"
    if v in VALS:
        o = VALS[v]
        return type(o).__name__ + (":falsy" if not o else "")
    return "int:0" if v == 0 else ("int:neg" if v < 0 else ("int:big" if v > 2 ** 32 else "int"))


def pick_value(ctr, default, special=SPECIAL_VALUES, every=3):
    """deterministic: every `every`-th draw is one of the special values, in rotation"""
    return special[(ctr // every) % len(special)] if ctr % every == 0 else default


# the kind of container the caller hands to get_/put_characteristics (the APIs are annotated Iterable)
CONTAINERS = ["list", "tuple", "gen", "iter", "map", "view", "set"]
ONE_SHOT = ("gen", "iter", "map")


# CoAP writes: on the current tree only list / tuple reach the judged path (see container_calls_not_judged), so they dominate
COAP_PUT_CONTAINERS = ["list", "tuple", "gen", "list", "tuple", "iter", "list", "view", "tuple", "map", "list", "tuple"]


def pick_container(idx, items, ordered, kinds=None):
    """deterministic rotation; dict views / sets only when they keep every item (no repeats), sets only when order is irrelevant"""
    kinds = kinds or CONTAINERS
    kind = kinds[idx % len(kinds)]
    distinct = len({tuple(x) for x in items}) == len(items)
    if kind == "view" and not distinct:
        kind = "tuple"
    if kind == "set" and (ordered or not distinct):
        kind = "gen"
    return kind


def wrap(items, case):
    kind = case.get("container", "list")
    items = [tuple(x[:2]) + (impl_val(x[2]),) if len(x) == 3 else tuple(x) for x in items]
    if kind in ("view", "set") and len(set(items)) != len(items):
        kind = "tuple"                   # False == 0, True == 1: a hashed container would drop an item
    if kind == "tuple":
        return tuple(items)
    if kind == "gen":
        return (x for x in items)
    if kind == "iter":
        return iter(items)
    if kind == "map":
        return map(tuple, items)
    if kind == "view":
        return dict.fromkeys(items).keys()
    if kind == "set":
        return set(items)
    return items


# ---- the caller changes its own argument WHILE the call is suspended (the request is in flight): the request
# set is what was handed over at call time, so results / listeners must still be about exactly that
INFLIGHT = ["clear", "append", "replace", "setval"]
EXTRA_VALUE = 251


def extra_id(ids):
    for k in POOL:
        if k not in ids:
            return k
    return None


BLE_POOL = [(1, 10), (1, 11), (1, 12), (1, 13)]


def mutated(items, mode, write, pool=None):
    """(mode actually applied, content of the caller's LIST after the in-flight change)"""
    items = [tuple(x) for x in items]
    ids = [x[:2] for x in items]
    if pool is BLE_POOL:          # BLE looks characteristics up by iid only: an iid no item uses
        used = {k[1] for k in ids}
        ex = next((k for k in pool if k[1] not in used), None)
    else:
        ex = extra_id(ids)
    if ex is None or not ids or mode == "clear":
        return "clear", []
    if mode == "append":
        return mode, items + [ex + (EXTRA_VALUE,) if write else ex]
    if mode == "replace":
        return mode, [ex + (EXTRA_VALUE,), ids[0] + (EXTRA_VALUE + 1,)] if write else [ex]
    return mode, [ids[0] + (EXTRA_VALUE + 2,) if write else ex] + items[1:]


def mutate_inflight(arg, mode, write, pool=None):
    """arg: the very list / set object the caller passed.  Returns what was done (for the histogram)."""
    if isinstance(arg, list):
        mode, arg[:] = mutated(arg, mode, write, pool)
        return "list:" + mode
    ids = [tuple(x[:2]) for x in arg]
    ex = extra_id(ids)
    if ex is None or not ids:
        mode = "clear"
    if isinstance(arg, set):
        if mode == "clear":
            arg.clear()
        elif mode == "append":
            arg.add(ex)
        elif mode == "replace":
            arg.clear()
            arg.add(ex)
        else:
            arg.discard(sorted(arg)[0])
            arg.add(ex)
        return "set:" + mode
    if mode == "clear":
        arg.clear()
    elif mode == "append":
        arg.append(ex + (EXTRA_VALUE,) if write else ex)
    elif mode == "replace":
        arg[:] = [ex + (EXTRA_VALUE,), ids[0] + (EXTRA_VALUE + 1,)] if write else [ex]
    else:
        arg[0] = ids[0] + (EXTRA_VALUE + 2,) if write else ex
    return "list:" + mode


def inflight_copies(cases, key, kinds, every):
    """every `every`-th case again, handed over as a mutable container that changes while the request is in flight"""
    out = []
    for idx, c in enumerate(cases):
        if idx % every or not c.get(key):
            continue
        j = idx // every
        kind = kinds[j % len(kinds)]
        if kind == "set" and len({tuple(x) for x in c[key]}) != len(c[key]):
            kind = "list"
        out.append(dict(c, container=kind, inflight=INFLIGHT[(j // len(kinds)) % len(INFLIGHT)]))
    return out


def perm_class(p):
    pl = p.split(",")
    return "+".join(x for x in ("pr", "pw", "tw") if x in pl) or "none"
LAYOUTS = {
    1: [[(1, 10)], [(2, 10)]],
    2: [[(1, 10), (1, 11)], [(1, 10), (2, 10)]],
    3: [[(1, 10), (1, 11), (1, 12)], [(1, 10), (2, 10), (1, 11)]],
    4: [[(1, 10), (1, 11), (1, 12), (1, 13)], [(1, 10), (2, 10), (1, 11), (2, 14)]],
}
POOL = [(1, 10), (1, 11), (1, 12), (1, 13), (2, 10), (2, 14)]
CRASHES = (KeyError, IndexError, TypeError, AttributeError, ValueError)


def ks(k):
    return f"{k[0]}.{k[1]}"


def oz(x):
    return "-" if x is None else str(x)


# ---------------------------------------------------------------- reply construction
def malformed_json(variant, a, i):
    return [True, None, 7, "x", [a, i], {"iid": i, "status": 0}, {"aid": a, "value": 1}, {},
            {"aid": a, "status": -70402}][variant % 9]


def entry_json(e, with_status_key=True):
    if e[0] == "M":
        return malformed_json(e[1], e[2], e[3])
    _, a, i, st, val = e
    d = {"aid": a, "iid": i}
    if st is not None:
        d["status"] = st
    if val is not None:
        d["value"] = impl_val(val)
    return d


def entry_tok(e):
    if e[0] == "M":
        return "M"
    return f"E:{e[1]}:{e[2]}:{oz(e[3])}:{oz(e[4])}"


def read_data(case):
    data = {}
    if case["g"] is not None:
        data["status"] = case["g"]
    if not case.get("nochars"):
        data["characteristics"] = [entry_json(e) for e in case["entries"]]
    return data


# ---------------------------------------------------------------- description tokens (impl side)
_DESCR = {}


def descr_maps():
    if not _DESCR:
        from aiohomekit.controller.coap.pdu import PDUStatus as CoapStatus
        from aiohomekit.protocol.statuscodes import HapStatusCode
        hap = {}
        for m in HapStatusCode:
            hap[m.description] = "c%d" % NAME_TO_CODE[m.name] if m.name in NAME_TO_CODE else "c?" + m.name
        pdu_names = {v: k for k, v in {**PDU_STATUS, **COAP_EXTRA}.items()}
        pdu = {}
        for m in CoapStatus:
            pdu[m.description] = "p%d" % pdu_names[m.name] if m.name in pdu_names else "p?" + m.name
        _DESCR["hap"], _DESCR["pdu"] = hap, pdu
    return _DESCR


def descr_tok(text, table="hap"):
    if text is None:
        return "-"
    if not isinstance(text, str):
        return "?nonstr"
    m = re.fullmatch(r"Unknown error code: (-?\d+)", text)
    if m:
        return "u" + m.group(1)
    return descr_maps()[table].get(text, "?text")


def status_val(s):
    if isinstance(s, enum.Enum):          # BLE reports the enum member itself; compare its value
        return s.value
    return s


def canon_read_result(res, table="hap"):
    """result dict -> {(a,i): (status, descr token, value)} or raises on unexpected shapes."""
    out = {}
    for k, v in res.items():
        if not (isinstance(k, tuple) and len(k) == 2 and isinstance(v, dict)):
            out[(-1, -1)] = ("?shape", "-", None)
            continue
        extra = sorted(set(v) - {"status", "description", "value"})
        val = v.get("value")
        if isinstance(val, (bytes, bytearray)):
            val = "b" + bytes(val).hex()
        elif "value" in v:
            val = val_code(val)
        st = status_val(v.get("status"))
        out[k] = (st, descr_tok(v.get("description"), table) + ("+" + ",".join(extra) if extra else ""), val)
    return out


def canon_write_result(res, table="hap"):
    out = {}
    for k, v in res.items():
        if not (isinstance(k, tuple) and len(k) == 2 and isinstance(v, dict)):
            out[(-1, -1)] = ("?shape", "-")
            continue
        d = v.get("description", v.get("descripton"))   # CoAP spells the key 'descripton' (noted, not judged)
        extra = sorted(set(v) - {"status", "description", "descripton"})
        out[k] = (status_val(v.get("status")), descr_tok(d, table) + ("+" + ",".join(extra) if extra else ""))
    return out


class Deliveries(dict):
    """id -> last value told to listeners (what the older oracles look at), plus the call log itself:
    .deliv = every (id, value) delivered, in call order (ids sorted inside one call),
    .calls = listener calls made, .empty = calls made with an empty dict."""
    deliv = ()
    calls = 0
    empty = 0


def merge_log(log):
    out = Deliveries()
    out.deliv = []
    for ev in log:
        out.calls += 1
        if not ev:
            out.empty += 1
        for k, v in sorted(ev.items()):
            val = val_code(v["value"]) if isinstance(v, dict) and "value" in v else "?"
            out[k] = val
            out.deliv.append((k, val))
    return out


def fmt_read(r):
    if isinstance(r, str):
        return r
    return " ".join(["ok"] + [f"{ks(k)}:{oz(v[0])}:{v[1]}:{oz(v[2])}" for k, v in sorted(r.items())])


def fmt_write(r):
    if isinstance(r, str):
        return r
    R, L = r
    return " ".join(["ok", "R"] + [f"{ks(k)}:{oz(v[0])}:{v[1]}" for k, v in sorted(R.items())]
                    + ["L"] + [f"{ks(k)}={v}" for k, v in sorted(getattr(L, "deliv", None) or L.items())]
                    + ([f"E{L.empty}"] if getattr(L, "empty", 0) else []))


def exc_class(e):
    return "crash" if isinstance(e, CRASHES) else "other:" + type(e).__name__


# model answers -> same canonical strings (sort the tokens)
def _key_of(tok):
    a, i = re.split(r"[:=]", tok)[0].split(".")
    return (int(a), int(i))


def canon_model_read(ans):
    t = ans.split()
    if not t or t[0] != "ok":
        return ans
    return " ".join(["ok"] + sorted(t[1:], key=_key_of))


def canon_model_write(ans):
    t = ans.split()
    if not t or t[0] != "ok":
        return ans
    li = t.index("L")
    return " ".join(["ok", "R"] + sorted(t[2:li], key=_key_of) + ["L"] + sorted(t[li + 1:], key=_key_of))


def canon_model_ble(ans):
    n, _, o = ans.partition(" ; ")
    if n.strip() == "N":
        n = "N"
    return n.strip() + " ; " + canon_model_read(o.strip())


# ---------------------------------------------------------------- implementation rigs
def accessories_for(perms):
    from aiohomekit.model import Accessories
    by_aid = {}
    for (a, i), p in perms.items():
        by_aid.setdefault(a, []).append((i, p))
    lst = []
    for a, chars in sorted(by_aid.items()):
        lst.append({"aid": a, "services": [{"iid": 1, "type": "43", "characteristics": [
            {"iid": i, "type": "8", "perms": p.split(","), "format": "uint8", "value": 0}
            for i, p in sorted(chars)]}]})
    return Accessories.from_list(lst)


class Resp:
    def __init__(self, code, body):
        self.code, self.body = code, body


class Rig:
    """Shared plumbing: pairing construction with a mock controller, listener log, perms cache."""

    def __init__(self):
        from unittest import mock
        self.ctrl = mock.MagicMock()
        self.ctrl._char_cache.get_map.return_value = None
        self.log = []
        self._acc_cache = {}
        self._cur = None

    async def _noop(self, *a, **k):
        return None

    _armed = None
    inflight_done = None

    inflight_pool = None

    def arm(self, arg, case, write):
        """returns arg; when the case asks for it, the accessory stub changes `arg` when the first request arrives"""
        self.inflight_done = None
        self._armed = (arg, case["inflight"], write) if case.get("inflight") and isinstance(arg, (list, set)) else None
        return arg

    def fire(self):
        if self._armed is not None:
            arg, mode, write = self._armed
            self._armed = None
            self.inflight_done = mutate_inflight(arg, mode, write, self.inflight_pool)

    def set_perms(self, perms):
        from aiohomekit.model import AccessoriesState
        full = {k: RW for k in POOL}
        full.update(perms)
        key = tuple(sorted(full.items()))
        if key != self._cur:
            if key not in self._acc_cache:
                self._acc_cache[key] = accessories_for(full)
            self.pairing._accessories_state = AccessoriesState(self._acc_cache[key], 1)
            self._cur = key
        return full


class IpRig(Rig):
    def __init__(self):
        super().__init__()
        from aiohomekit.controller.ip.pairing import IpPairing
        self.pairing = IpPairing(self.ctrl, {"AccessoryPairingID": "00:00:00:00:00:00", "AccessoryIP": "127.0.0.1",
                                             "AccessoryPort": 1, "Connection": "IP"})
        self.pairing._ensure_connected = self._noop
        self.pairing.dispatcher_connect(lambda ev: self.log.append(dict(ev)))
        self.reply = None          # scripted mode: one fixed reply whatever is asked
        self.table = None          # reactive mode: {(aid, iid): outcome}, answered per request actually sent
        self.sent = []             # reactive mode: ids of each request sent, in order
        self.replied = []          # reactive mode: entries of each 207 reply given, in order
        self.sent_vals = []        # reactive mode: (aid, iid, value code) of every item received

        async def fake_get(target):
            self.fire()
            if self.table is None:
                return self.reply
            # reactive accessory: answer exactly the ids of THIS request
            ids = []
            q = target.split("?", 1)[1] if "?" in target else ""
            for part in q.split("&"):
                if part.startswith("id="):
                    ids = [tuple(int(x) for x in t.split(".")) for t in part[3:].split(",") if t]
            self.sent.append(ids)
            entries, bad = [], False
            for k in ids:
                st, val = self.table.get(k, (-70409, None))
                e = ["E", k[0], k[1], st, val]
                bad = bad or st not in (None, 0)
                entries.append(e)
            self.replied.append(entries)
            return Resp(207 if bad else 200, json.dumps({"characteristics": [entry_json(e) for e in entries]}).encode())

        async def fake_put(target, body, content_type=None):
            self.fire()
            if self.table is None:
                return self.reply
            items = json.loads(bytes(body))["characteristics"]
            ids = [(it["aid"], it["iid"]) for it in items]
            self.sent.append(ids)
            self.sent_vals += [(it["aid"], it["iid"], val_code(it["value"]) if "value" in it else "?missing") for it in items]
            entries = [["E", a, i, self.table.get((a, i), -70409), None] for a, i in ids]
            if all(e[3] == 0 for e in entries):
                return Resp(204, b"")                      # everything in this request accepted
            self.replied.append(entries)
            return Resp(207, json.dumps({"characteristics": [entry_json(e) for e in entries]}).encode())
        self.pairing.connection.get = fake_get
        self.pairing.connection.put = fake_put

    async def get_reactive(self, case):
        self.set_perms({})
        self.table = {tuple(map(int, k.split("."))): tuple(v) for k, v in case["table"].items()}
        self.sent, self.replied = [], []
        try:
            res = await self.pairing.get_characteristics(self.arm(wrap(case["req"], case), case, False))
            res = canon_read_result(res)
        except Exception as e:  # noqa
            res = exc_class(e)
        finally:
            self.table = None
            self._armed = None
        return res

    async def put_reactive(self, case):
        self.set_perms({tuple(map(int, k.split("."))): p for k, p in case["perms"].items()})
        self.table = {tuple(map(int, k.split("."))): v for k, v in case["table"].items()}
        self.sent, self.replied, self.sent_vals = [], [], []
        self.log.clear()
        try:
            res = await self.pairing.put_characteristics(self.arm(wrap(case["reqs"], case), case, True))
            res = (canon_write_result(res), merge_log(self.log))
        except Exception as e:  # noqa
            res = exc_class(e)
        finally:
            self.table = None
            self._armed = None
        return res

    async def get(self, case):
        self.set_perms({})
        self.reply = Resp(207 if case["entries"] else 200, json.dumps(read_data(case)).encode())
        try:
            res = await self.pairing.get_characteristics(self.arm(wrap(case["req"], case), case, False))
        except Exception as e:  # noqa
            return exc_class(e)
        finally:
            self._armed = None
        return canon_read_result(res)

    async def put(self, case):
        self.set_perms({tuple(map(int, k.split("."))): p for k, p in case["perms"].items()})
        code = case["code"]
        if code == "204":
            self.reply = Resp(204, b"")
        elif code == "207empty":
            self.reply = Resp(207, b"{}")
        elif code == "nolist":
            g = case.get("g", -70401)
            self.reply = Resp(207, json.dumps({"status": g} if g is not None else {"vendor": 1}).encode())
        else:
            body = {"characteristics": [entry_json(e) for e in case["entries"]]}
            if case.get("g") is not None:           # a list AND a request-wide status (the code ignores the latter)
                body["status"] = case["g"]
            self.reply = Resp(207, json.dumps(body).encode())
        self.log.clear()
        try:
            res = await self.pairing.put_characteristics(wrap(case["reqs"], case))
        except Exception as e:  # noqa
            return exc_class(e)
        return canon_write_result(res), merge_log(self.log)


class CoapRig(Rig):
    def __init__(self):
        super().__init__()
        from aiohomekit.controller.coap.pairing import CoAPPairing
        from aiohomekit.controller.coap.structs import (Pdu09Accessory, Pdu09AccessoryContainer,
                                                         Pdu09Characteristic, Pdu09CharacteristicContainer,
                                                         Pdu09Database, Pdu09Service, Pdu09ServiceContainer)
        self.pairing = CoAPPairing(self.ctrl, {"AccessoryPairingID": "00:00:00:00:00:00", "AccessoryIP": "::1",
                                               "AccessoryPort": 1, "Connection": "CoAP"})
        self.pairing._ensure_connected = self._noop
        self.pairing.dispatcher_connect(lambda ev: self.log.append(dict(ev)))

        def mkchar(iid):
            return Pdu09Characteristic(type=8, instance_id=iid, properties=0x30,
                                       presentation_format=struct.pack("<BxHxxx", 4, 0x2700), valid_range=None,
                                       step_value=None, valid_values=None, valid_values_range=None, user_descriptor=None)
        by_aid = {}
        for a, i in POOL:
            by_aid.setdefault(a, []).append(i)
        self.pairing.connection.info = Pdu09Database(_accessories=[
            Pdu09AccessoryContainer(accessory=Pdu09Accessory(instance_id=a, _services=[
                Pdu09ServiceContainer(service=Pdu09Service(
                    type=0x43, instance_id=1, properties=0, linked_services=[],
                    _characteristics=[Pdu09CharacteristicContainer(characteristic=mkchar(i)) for i in iids]))]))
            for a, iids in sorted(by_aid.items())])
        rig = self

        class Enc:
            coap_ctx = object()

            async def post_all(self, opcode, iids, data):
                rig.fire()
                rig.calls.append((opcode.value, list(iids)))
                return list(rig.script)
        self.calls = []
        self.script = []
        self.scripted_enc = Enc()
        self.pairing.connection.enc_ctx = self.scripted_enc
        # reactive accessory: a real EncryptionContext whose transport (post_bytes) parses the request
        # PDUs actually sent and answers each one from a per-iid outcome table
        from aiohomekit.controller.coap.connection import EncryptionContext
        self.reactive_enc = EncryptionContext(None, None, None, "coap://x/", object())
        self.table = {}
        self.sent = []
        self.sent_bodies = []

        async def post_bytes(payload, timeout=16.0):
            rig.fire()
            out, off, req = b"", 0, []
            while off < len(payload):
                _ctl, opcode, tid, iid, ln = struct.unpack("<BBBHH", payload[off:off + 7])
                rig.sent_bodies.append((iid, bytes(payload[off + 7:off + 7 + ln]).hex()))
                off += 7 + ln
                req.append((opcode, iid))
                o = rig.table.get(iid, ["S", 4])
                if o[0] == "S":
                    out += struct.pack("<BBBH", 0x02, tid, o[1], 0)
                else:
                    body = bytes([1, 1, o[1] & 0xFF]) if opcode == 3 else b""
                    out += struct.pack("<BBBH", 0x02, tid, 0, len(body)) + body
            rig.sent.append(req)
            return out
        self.reactive_enc.post_bytes = post_bytes

    def _script(self, results, body):
        from aiohomekit.controller.coap.pdu import PDUStatus
        return [PDUStatus(r[1]) if r[0] == "S" else body(r[1]) for r in results]

    async def reactive(self, case, write):
        self.set_perms({tuple(map(int, k.split("."))): p for k, p in case.get("perms", {}).items()})
        self.table = {int(i): o for i, o in case["table"].items()}
        self.sent = []
        self.sent_bodies = []
        self.log.clear()
        self.pairing.connection.enc_ctx = self.reactive_enc
        try:
            if write:
                res = await self.pairing.put_characteristics(self.arm(wrap(case["reqs"], case), case, True))
                return canon_write_result(res, "pdu"), merge_log(self.log)
            res = await self.pairing.get_characteristics(self.arm(wrap(case["ids"], case), case, False))
            return canon_read_result(res, "pdu")
        except Exception as e:  # noqa
            return exc_class(e)
        finally:
            self._armed = None
            self.pairing.connection.enc_ctx = self.scripted_enc

    async def get(self, case):
        self.set_perms({})
        # a CHAR_READ body is a TLV with the value under kTLVHAPParamValue (1)
        self.script = self._script(case["results"], lambda v: bytes([1, 1, v & 0xFF]))
        try:
            res = await self.pairing.get_characteristics(wrap(case["ids"], case))
        except Exception as e:  # noqa
            return exc_class(e)
        return canon_read_result(res, "pdu")

    async def put(self, case):
        self.set_perms({tuple(map(int, k.split("."))): p for k, p in case["perms"].items()})
        self.script = self._script(case["results"], lambda v: b"")
        self.log.clear()
        try:
            res = await self.pairing.put_characteristics(wrap(case["reqs"], case))
        except Exception as e:  # noqa
            return exc_class(e)
        return canon_write_result(res, "pdu"), merge_log(self.log)


class BleRig(Rig):
    def __init__(self):
        super().__init__()
        import aiohomekit.controller.ble.pairing as bp
        self.bp = bp
        self.pairing = bp.BlePairing(self.ctrl, {"AccessoryPairingID": "00:00:00:00:00:00",
                                                 "AccessoryAddress": "00:00:00:00:00:00", "Connection": "BLE"})
        self.pairing._populate_accessories_and_characteristics = self._noop
        self.pairing._close_while_locked = self._noop
        self.pairing.dispatcher_connect(lambda ev: self.log.append(dict(ev)))

        class Client:
            is_connected = True
            address = "00:00"

            async def get_characteristic(self, *a):
                return object()
        self.pairing.client = Client()
        self.queues = {}
        self.calls = []

    async def put(self, case):
        from unittest import mock
        from aiohomekit.pdu import PDUStatus
        perms = {(1, int(i)): p for i, p in case["perms"].items()}
        self.set_perms(perms)
        self.queues = {}
        for (a, i, v, s1, s2) in case["items"]:
            p = case["perms"][str(i)].split(",")
            if "tw" in p:
                self.queues.setdefault((i, 4), []).append(s1)
                self.queues.setdefault((i, 5), []).append(s2)
            elif "pw" in p:
                self.queues.setdefault((i, 2), []).append(s1)
        self.log.clear()
        self.calls = []

        async def fake_ble_request(client, ek, dk, opcode, endpoint, iid, data=None):
            self.fire()
            self.calls.append((opcode.value, iid))
            q = self.queues.get((iid, opcode.value), [])
            return PDUStatus(q.pop(0) if q else 0), b""
        notes = []
        with mock.patch.object(self.bp, "ble_request", fake_ble_request):
            try:
                self.inflight_pool = BLE_POOL
                res = await self.pairing.put_characteristics(
                    self.arm(wrap([(a, i, v) for (a, i, v, _, _) in case["items"]], case), case, True))
                out = fmt_read_ble(canon_write_result(res))
            except self.bp.PDUStatusError as e:
                out = f"err {status_val(e.status)}"
            except Exception as e:  # noqa
                out = exc_class(e)
            finally:
                self._armed = None
        for ev in self.log:
            if len(ev) != 1:                       # BLE announces each accepted item on its own
                notes.append(f"?call-with-{len(ev)}-ids")
            for k, v in ev.items():
                notes.append(f"{ks(k)}={val_code(v.get('value'))}")
        return ("N " + " ".join(notes)).strip() + " ; " + out


def ble_live_case(case):
    """BlePairing.put_characteristics walks the caller's list item by item, one request at a time: when the list changes
    during the FIRST request, what is written afterwards is the changed list from index 1 on.  Both views are faithful
    to the property as long as what is reported / announced is what the accessory was sent and accepted; this builds
    the case 'as actually walked', each item with the statuses the per-(iid, opcode) queues will give it."""
    items3 = [(a, i, v) for (a, i, v, _, _) in case["items"]]
    _, new = mutated(items3, case["inflight"], True, BLE_POOL)
    # the change happens during the first REQUEST, i.e. at the first item that is writable at all
    j = next((n for n, (_, i, _) in enumerate(items3) if {"tw", "pw"} & set(case["perms"][str(i)].split(","))), None)
    if j is None:
        return case
    eff = items3[:j + 1] + new[j + 1:]
    queues = {}
    for (a, i, v, s1, s2) in case["items"]:
        p = case["perms"][str(i)].split(",")
        if "tw" in p:
            queues.setdefault((i, 4), []).append(s1)
            queues.setdefault((i, 5), []).append(s2)
        elif "pw" in p:
            queues.setdefault((i, 2), []).append(s1)
    out, failed = [], False

    def pop(key):
        q = queues.get(key, [])
        return q.pop(0) if q else 0
    for (a, i, v) in eff:
        p = case["perms"][str(i)].split(",")
        s1 = s2 = 0
        if not failed:
            if "tw" in p:
                s1 = pop((i, 4))
                s2 = pop((i, 5)) if not s1 else 0
            elif "pw" in p:
                s1 = pop((i, 2))
            failed = bool(s1 or s2)
        out.append((a, i, v, s1, s2))
    return dict(case, items=out)


def ble_want_calls(c):
    want_calls = []
    for (_a, i, _v, s1, s2) in c["items"]:
        pl = c["perms"][str(i)].split(",")
        if "tw" in pl:
            want_calls += [(4, i)] if s1 else [(4, i), (5, i)]
            if s1 or s2:
                break
        elif "pw" in pl:
            want_calls.append((2, i))
            if s1:
                break
    return want_calls


def fmt_read_ble(R):
    return " ".join(["ok"] + [f"{ks(k)}:{oz(v[0])}:{v[1]}" for k, v in sorted(R.items())])


# ---------------------------------------------------------------- oracles (property stated on the reply)
def render_ref(st, val):
    if st is None or st == 0:
        return (None, "-", val)
    return (st, read_descr_token(st), val)


def oracle_read(case, res, stream):
    if isinstance(res, str):
        return ("raised", f"{stream}: the read raised ({res}) instead of skipping/mapping the reply")
    wf = {}
    for e in case["entries"]:
        if e[0] == "E":
            wf.setdefault((e[1], e[2]), []).append(render_ref(e[3], e[4]))
    if case.get("nochars"):
        wf = {}
    g = case["g"]
    req = {tuple(k) for k in (case["req"] or [])}
    for k in sorted(req):
        if k in wf:
            if k not in res:
                return ("listed-id-missing", f"{stream}: {ks(k)} has a well-formed entry in the reply but is absent from the result")
            if res[k] not in wf[k]:
                if g not in (None, 0) and res[k] == (g, read_descr_token(g), None):
                    return ("global-overrides-entry", f"{stream}: {ks(k)} is listed in the reply but was reported with the global status {g}")
                return ("entry-misreported", f"{stream}: {ks(k)} reported as {res[k]}, reply entries give {wf[k]}")
        elif g not in (None, 0):
            want = (g, read_descr_token(g), None)
            if k not in res:
                return ("global-status-not-applied", f"{stream}: global status {g} not applied to unmentioned requested id {ks(k)}")
            if res[k] != want:
                return ("global-status-misreported", f"{stream}: {ks(k)} reported as {res[k]}, want {want}")
        elif k in res:
            return ("invented", f"{stream}: {ks(k)} is not in the reply and there is no global error, but the result has {res[k]}")
    for k in sorted(res):
        if k in req:
            continue
        if k not in wf:
            return ("invented-unrequested", f"{stream}: result has {ks(k)}={res[k]} which is neither requested nor in the reply")
        if res[k] not in wf[k]:
            return ("entry-misreported", f"{stream}: {ks(k)} reported as {res[k]}, reply entries give {wf[k]}")
    return None


def ipput_in_domain(case):
    if case["code"] == "nolist":
        # a reply that carries a non-zero request-wide status and no per-characteristic list rejects the
        # whole request; without such a status it carries no verdict at all (compared, not judged)
        return case.get("g", -70401) not in (None, 0)
    if case.get("g") not in (None, 0):
        return False        # list + non-zero request-wide status: what it means for unmentioned ids is not fixed by the property
    return not any(e[0] == "E" and e[3] is None for e in case["entries"])


def oracle_request_wide(case, res):
    """The accessory answered with a request-wide error status and no list: every written id is rejected.
    'A write never presents a rejected characteristic as written: each rejected characteristic is reported
    with the accessory's non-zero status (or the call fails)'."""
    if isinstance(res, str):
        return None                                    # the call failed
    g = case.get("g", -70401)
    R, L = res
    for a, i, v in case["reqs"]:
        k = (a, i)
        if k in L:
            return ("request-wide-error-presented-as-written",
                    f"ipput: the reply was the request-wide error {{\"status\": {g}}} without a list, the call returned and "
                    f"listeners were told {ks(k)}={L[k]}")
        if k not in R or R[k][0] == 0:
            return ("request-wide-error-presented-as-written",
                    f"ipput: the reply was the request-wide error {{\"status\": {g}}} without a list, the call returned "
                    f"{'without mentioning ' + ks(k) if k not in R else 'status 0 for ' + ks(k)}")
        if R[k][0] != g:
            return ("request-wide-status-not-as-sent", f"ipput: {ks(k)} reported with status {R[k][0]}, the accessory sent {g}")
    return None


def oracle_write(stream, reqs, readable, sts, res, listed_code, descr_of):
    """sts: {k: [statuses the accessory sent for k]} (non-zero = rejected)."""
    if isinstance(res, str):
        return ("raised", f"{stream}: the write raised ({res})")
    R, L = res
    rejected = {k for k, l in sts.items() if any(s != 0 for s in l)}
    reqvals = {}
    for a, i, v in reqs:
        reqvals.setdefault((a, i), []).append(v)
    for k in sorted(rejected):
        if k in L:
            return ("rejected-notified", f"{stream}: {ks(k)} was rejected with {sts[k]} but listeners were told the new value {L[k]}")
        if k not in R:
            return ("rejection-not-reported", f"{stream}: {ks(k)} was rejected with {sts[k]} but the result does not mention it")
        if all(s != 0 for s in sts[k]) and R[k][0] == 0:
            return ("rejection-hidden", f"{stream}: {ks(k)} was rejected with {sts[k]} but is reported with status 0")
    for k in sorted(R):
        if k not in sts:
            return ("invented-status", f"{stream}: result reports {ks(k)}={R[k]} although the reply has no entry for it")
        if R[k][0] not in sts[k]:
            return ("status-not-as-sent", f"{stream}: {ks(k)} reported with status {R[k][0]}, the accessory sent {sts[k]}")
        if R[k][1] != descr_of(R[k][0]):
            return ("description-not-normalised", f"{stream}: {ks(k)} status {R[k][0]} has description {R[k][1]}, want {descr_of(R[k][0])}")
    expected = {k for k in reqvals if readable(k) and k not in rejected}
    for k in sorted(expected - set(L)):
        if listed_code == "207" and k in sts:
            slug = "listener-accepted-dropped-207"
        elif listed_code == "207":
            slug = "listener-accepted-dropped-unlisted"
        else:
            slug = "listener-accepted-dropped"
        return (slug, f"{stream}: {ks(k)} was accepted ({sts.get(k, 'not listed')}) and is readable, but listeners were not notified")
    for k in sorted(set(L) - expected):
        if k not in reqvals:
            return ("unrequested-notified", f"{stream}: listeners notified for {ks(k)} which was not written")
        if not readable(k):
            return ("write-only-notified", f"{stream}: listeners notified for {ks(k)} which is not readable")
        return ("rejected-notified", f"{stream}: listeners notified for rejected {ks(k)}")
    for k in sorted(L):
        if L[k] not in reqvals[k]:
            return ("listener-wrong-value", f"{stream}: listeners got {L[k]} for {ks(k)}, written {reqvals[k]}")
    # exactly once: one write call tells listeners about an accepted readable id one time
    seen = collections.Counter(k for k, _ in getattr(L, "deliv", ()))
    for k in sorted(seen):
        if seen[k] > 1:
            return ("delivered-twice", f"{stream}: listeners were told a value for {ks(k)} {seen[k]} times by one write "
                                       f"(call log: {[(ks(a), v) for a, v in L.deliv]})")
    return None


def oracle_ipput(case, res):
    if not ipput_in_domain(case):
        return None
    if case["code"] == "nolist":
        return oracle_request_wide(case, res)
    sts = {}
    if case["code"] == "207":
        for e in case["entries"]:
            if e[0] == "E":
                sts.setdefault((e[1], e[2]), []).append(e[3])
    perms = case["perms"]
    return oracle_write("ipput", case["reqs"], lambda k: "pr" in perms[ks(k)].split(","), sts, res,
                        "207" if case["code"] == "207" else case["code"], write_descr_token)


def oracle_coapread(case, res):
    ids = [tuple(k) for k in case["ids"]]
    if len(case["results"]) > len(ids):
        return None
    if isinstance(res, str):
        return ("raised", f"coapread: the read raised ({res})")
    paired = {}
    for k, r in zip(ids, case["results"]):
        paired.setdefault(k, []).append((None, "-", r[1]) if r[0] == "B" else (-r[1], f"p{r[1]}", None))
    for k in sorted(set(ids)):
        if k in paired:
            if k not in res:
                return ("result-missing", f"coapread: {ks(k)} has a result but is absent")
            if res[k] not in paired[k]:
                return ("result-misattributed", f"coapread: {ks(k)} reported as {res[k]}, its positional results are {paired[k]}")
        elif k in res:
            return ("invented", f"coapread: {ks(k)} has no result but is reported as {res[k]}")
    for k in res:
        if k not in paired:
            return ("invented", f"coapread: {ks(k)} reported as {res[k]} without a result")
    return None


def oracle_coapput(case, res):
    reqs = case["reqs"]
    if len(case["results"]) > len(reqs) or any(r == ["S", 0] for r in case["results"]):
        return None
    sts = {}
    for (a, i, v), r in zip(reqs, case["results"]):
        if r[0] == "S":
            sts.setdefault((a, i), []).append(-r[1])
    perms = case["perms"]
    return oracle_write("coapput", reqs, lambda k: "pr" in perms[ks(k)].split(","), sts, res, "coap",
                        lambda s: f"p{-s}")


def oracle_bleput(case, res):
    notes, _, out = res.partition(" ; ")
    got_n = notes.split()[1:]
    want_n, ro, rej = [], {}, None
    for (a, i, v, s1, s2) in case["items"]:
        p = case["perms"][str(i)].split(",")
        if "tw" in p:
            st = s1 if s1 else s2
        elif "pw" in p:
            st = s1
        else:
            ro[(a, i)] = True
            continue
        if st:
            rej = st
            break
        if "pr" in p:
            want_n.append(f"{a}.{i}={v}")
    # markers (?call-with-N-ids: how deliveries were batched into calls) are compared with the model, not judged:
    # the property is about WHAT is announced - every accepted readable item, once, in request order
    got = [x for x in got_n if not x.startswith("?")]
    if got != want_n:
        extra = [x for x in got if x not in want_n]
        missing = [x for x in want_n if x not in got]
        slug = "listener-set-wrong"
        if extra:
            iid = extra[0].split("=")[0].split(".")[1]
            p = case["perms"][iid].split(",")
            slug = "write-only-notified" if "pr" not in p else ("read-only-notified" if "pw" not in p and "tw" not in p else "rejected-or-unattempted-notified")
        elif missing:
            # sent, accepted by the accessory, readable - and listeners never heard of it
            slug = "accepted-not-announced-after-later-failure" if rej is not None else "accepted-not-announced"
        elif sorted(got) == sorted(want_n):
            slug = "listener-order-wrong"
        why = (f"; the call then failed with PDU status {rej} on a later item, but the earlier writes had been accepted by the accessory"
               if rej is not None and missing and not extra else "")
        return (slug, f"bleput: listener calls {got}, want {want_n} (accepted and readable, before the first rejection){why}")
    if rej is not None:
        if out.startswith("ok"):
            return ("rejection-hidden", f"bleput: an attempted write was rejected with PDU status {rej} but the call returned {out}")
        if out != f"err {rej}":
            return ("rejection-status-wrong", f"bleput: rejected with PDU status {rej}, call outcome {out}")
        return None
    want = " ".join(["ok"] + [f"{ks(k)}:-70404:c-70404" for k in sorted(ro)])
    if out != want:
        slug = "raised" if not out.startswith("ok") else "result-wrong"
        return (slug, f"bleput: outcome {out}, want {want}")
    return None


# ---------------------------------------------------------------- model request lines
def line_read(cmd, case):
    req = case["req"] or []
    es = [] if case.get("nochars") else case["entries"]
    return " ".join([cmd, oz(case["g"]), ",".join(ks(k) for k in req) or "-"] + [entry_tok(e) for e in es])


def reqs_tok(reqs):
    return ",".join(f"{a}.{i}={v}" for a, i, v in reqs) or "-"


def rd_tok(perms):
    return ",".join(k for k, p in sorted(perms.items()) if "pr" in p.split(",")) or "-"


def line_ipput(case, mode="f"):
    code = case["code"]
    es = case["entries"] if code == "207" else []
    return " ".join(["ipput", mode, reqs_tok(case["reqs"]), rd_tok(case["perms"]),
                     {"207empty": "204"}.get(code, code)] + [entry_tok(e) for e in es])


def res_tok(r):
    return f"{r[0]}{r[1]}"


def line_coapread(case):
    return " ".join(["coapread", ",".join(ks(k) for k in case["ids"]) or "-"] + [res_tok(r) for r in case["results"]])


def line_coapput(case):
    return " ".join(["coapput", reqs_tok(case["reqs"]), rd_tok(case["perms"])] + [res_tok(r) for r in case["results"]])


def line_bleput(case):
    items = ",".join(f"{a}.{i}={v}/{s1}/{s2}" for a, i, v, s1, s2 in case["items"]) or "-"
    ps = []
    for i, p in sorted(case["perms"].items()):
        pl = p.split(",")
        ps.append(f"{i}:{'t' if 'tw' in pl else ('w' if 'pw' in pl else 'r')}:{1 if 'pr' in pl else 0}")
    return f"bleput {items} {','.join(ps) or '-'}"


# ---------------------------------------------------------------- generators
def all_perms(reqs, choice):
    return {ks((a, i)): choice[(a, i)] for a, i, _ in reqs}


def gen_ipput(tier, r):
    nmax, nfull = (3, 2) if tier == "quick" else (4, 3)
    cases = []
    ctr = 0
    # W1: every status vector, all ids listed in request order
    for n in range(1, nmax + 1):
        alpha = A_FULL if n <= nfull else A_RED
        pm = list(itertools.product([RW, WO, RWT], repeat=n))
        for layout in LAYOUTS[n]:
            for vec in itertools.product(alpha, repeat=n):
                reqs = [(a, i, pick_value(ctr + j, 20 + j)) for j, (a, i) in enumerate(layout)]
                perms = {ks(k): p for k, p in zip(layout, pm[ctr % len(pm)])}
                ctr += 1
                cases.append(dict(kind="ipput", src="vec", reqs=reqs, perms=perms, code="207",
                                  entries=[["E", a, i, s, None] for (a, i), s in zip(layout, vec)]))
    # W2: shapes - listed subsets x permission mixes x order, 204
    for n in range(1, nmax + 1):
        for layout in LAYOUTS[n]:
            for pmix in itertools.product([RW, WO], repeat=n):
                ctr += 1
                reqs = [(a, i, pick_value(ctr + j, 30 + j, every=2)) for j, (a, i) in enumerate(layout)]
                perms = {ks(k): p for k, p in zip(layout, pmix)}
                cases.append(dict(kind="ipput", src="shape", reqs=reqs, perms=perms, code="204", entries=[]))
                for g in (-70407, 70403, -1, 12345, 0, None):      # request-wide status, no list
                    cases.append(dict(kind="ipput", src="shape", reqs=reqs, perms=perms, code="nolist", g=g, entries=[]))
                for mask in range(1 << n):
                    listed = [k for j, k in enumerate(layout) if mask >> j & 1]
                    for vec in itertools.product(A_RED2, repeat=len(listed)):
                        es = [["E", a, i, s, None] for (a, i), s in zip(listed, vec)]
                        cases.append(dict(kind="ipput", src="shape", reqs=reqs, perms=perms, code="207", entries=es))
                        if len(es) > 1 and n <= 3:
                            cases.append(dict(kind="ipput", src="shape", reqs=reqs, perms=perms, code="207", entries=es[::-1]))
    # W3: random malformed / duplicates / unrequested / out-of-domain shapes
    for _ in range(3000 if tier == "quick" else 40000):
        n = r.choice([1, 2, 2, 3, 3, 4])
        ids = r.sample(POOL, n)
        if r.random() < 0.15:
            ids.append(r.choice(ids))
        reqs = [(a, i, r.choice(SPECIAL_VALUES) if r.random() < 0.3 else r.randrange(1, 200)) for a, i in ids]
        perms = {ks(k): (r.choice([RW, RW, WO, RWT, RO, WT]) if r.random() < 0.5 else any_perms(r)) for k in ids}
        code = r.choices(["207", "204", "207empty", "nolist"], [85, 9, 3, 3])[0]
        es = []
        if code == "207":
            for a, i in ids:
                if r.random() < 0.8:
                    st = 0 if r.random() < 0.5 else r.choice(A_FULL)
                    if r.random() < 0.03:
                        st = None
                    es.append(["E", a, i, st, r.choice([None, None, None, 9])])
                    if r.random() < 0.2:
                        es.append(["E", a, i, st if r.random() < 0.5 else r.choice([0, -70402, -70410]), None])
            if r.random() < 0.15:
                a, i = r.choice([k for k in POOL if k not in ids] or POOL)
                es.append(["E", a, i, r.choice([0, -70409]), None])
            r.shuffle(es)
            for _ in range(r.choice([0, 0, 1, 1, 2, 3])):
                a, i = r.choice(ids)
                es.insert(r.randrange(len(es) + 1), ["M", r.randrange(9), a, i])
        c = dict(kind="ipput", src="random", reqs=reqs, perms=perms, code=code, entries=es)
        if code == "nolist":
            c["g"] = r.choice([None, 0] + A_FULL)
        elif code == "207" and r.random() < 0.08:
            c["g"] = r.choice([0, -70407, 70403, 99])
        cases.append(c)
    return cases


def gen_read(tier, r):
    nmax, nfull = (3, 2) if tier == "quick" else (4, 3)
    cases = []
    ctr = 0
    # R1: every status vector (None = no status key), all listed
    for n in range(1, nmax + 1):
        alpha = [None] + (A_FULL if n <= nfull else A_RED)
        for layout in LAYOUTS[n]:
            for vec in itertools.product(alpha, repeat=n):
                es = []
                for (a, i), s in zip(layout, vec):
                    ctr += 1
                    val = pick_value(ctr, 40 + ctr % 7, every=4) if (s in (None, 0) or ctr % 5 == 0) else None
                    es.append(["E", a, i, s, val])
                cases.append(dict(kind="read", src="vec", g=None, req=[list(k) for k in layout], entries=es))
    # R2: global status x listed subsets x requested-set variants
    for n in range(1, min(nmax, 3) + 1):
        for layout in LAYOUTS[n]:
            for g in [None, 0, -70402, 70410, -1, 12345]:
                for mask in range(1 << n):
                    listed = [k for j, k in enumerate(layout) if mask >> j & 1]
                    for vec in itertools.product([None] + A_RED2, repeat=len(listed)):
                        ctr += 1
                        es = [["E", a, i, s, pick_value(ctr + j, 50 + j, every=4) if s in (None, 0) else None]
                              for j, ((a, i), s) in enumerate(zip(listed, vec))]
                        for req in ([list(k) for k in layout], None, [list(k) for k in layout] + [[1, 13]]):
                            cases.append(dict(kind="read", src="shape", g=g, req=req, entries=es))
                        if not es:
                            cases.append(dict(kind="read", src="shape", g=g, req=[list(k) for k in layout], entries=[], nochars=True))
    # R3: random malformed / duplicates / unrequested
    for _ in range(3000 if tier == "quick" else 40000):
        n = r.choice([1, 2, 2, 3, 3, 4])
        ids = r.sample(POOL, n)
        req = [list(k) for k in ids]
        if r.random() < 0.15:
            req.append(list(r.choice(ids)))
        g = r.choice([None, None, None, 0, -70402, 70407, -1, 77])
        es = []
        for a, i in ids:
            if r.random() < 0.75:
                st = r.choice([None, None, 0, r.choice(A_FULL)])
                es.append(["E", a, i, st, r.choice([None, r.randrange(100), r.randrange(100), r.choice(SPECIAL_VALUES)])])
                if r.random() < 0.2:
                    es.append(["E", a, i, r.choice([None, 0, -70402]), r.choice([None, 3])])
        if r.random() < 0.15:
            a, i = r.choice([k for k in POOL if k not in ids] or POOL)
            es.append(["E", a, i, r.choice([None, -70409]), 8])
        r.shuffle(es)
        for _ in range(r.choice([0, 0, 1, 1, 2, 3])):
            a, i = r.choice(ids)
            es.insert(r.randrange(len(es) + 1), ["M", r.randrange(9), a, i])
        if r.random() < 0.1:
            req = None
        cases.append(dict(kind="read", src="random", g=g, req=req, entries=es))
    return cases


def gen_coap(tier, r):
    nmax = 3 if tier == "quick" else 4
    reads, puts = [], []
    alpha = [["B", 5]] + [["S", n] for n in PDU_ALPHA]
    ctr = 0
    for n in range(1, nmax + 1):
        pm = list(itertools.product([RW, WO, RWT], repeat=n))
        for layout in LAYOUTS[n]:
            for vec in itertools.product(alpha, repeat=n):
                ctr += 1
                res = [[x[0], (60 + ctr + j) % 250 + 1] if x[0] == "B" else x for j, x in enumerate(vec)]
                reads.append(dict(kind="coapread", src="vec", ids=[list(k) for k in layout], results=res))
                reqs = [(a, i, pick_value(ctr + j, 70 + j, SPECIAL_U8)) for j, (a, i) in enumerate(layout)]
                perms = {ks(k): p for k, p in zip(layout, pm[ctr % len(pm)])}
                puts.append(dict(kind="coapput", src="vec", reqs=reqs, perms=perms, results=res))
    for n in range(1, 4):
        for layout in LAYOUTS[n]:
            reqs = [(a, i, 80 + j) for j, (a, i) in enumerate(layout)]
            for pmix in itertools.product([RW, WO], repeat=n):
                perms = {ks(k): p for k, p in zip(layout, pmix)}
                for vec in itertools.product([["B", 1], ["S", 6]], repeat=n):
                    puts.append(dict(kind="coapput", src="shape", reqs=reqs, perms=perms, results=list(vec)))
    for _ in range(1500 if tier == "quick" else 15000):
        n = r.choice([1, 2, 3, 3, 4])
        ids = r.sample(POOL, n)
        if r.random() < 0.2:
            ids.append(r.choice(ids))
        m = r.choice([len(ids)] * 6 + [len(ids) - 1, 0, len(ids) + 1])
        res = []
        for _ in range(max(m, 0)):
            res.append(["B", r.choice([0, 255, r.randrange(1, 250), r.randrange(1, 250)])] if r.random() < 0.5 else ["S", r.choice(PDU_ALPHA + ([0] if r.random() < 0.1 else []))])
        reads.append(dict(kind="coapread", src="random", ids=[list(k) for k in ids], results=res))
        reqs = [(a, i, r.choice(SPECIAL_U8) if r.random() < 0.3 else r.randrange(1, 200)) for a, i in ids]
        perms = {ks(k): (r.choice([RW, RW, WO, RWT, RO]) if r.random() < 0.5 else any_perms(r)) for k in ids}
        puts.append(dict(kind="coapput", src="random", reqs=reqs, perms=perms, results=res))
    return reads, puts


def gen_ble(tier, r):
    cases = []
    kinds = PERM_CORE
    opts = [(p, s1, s2) for p in kinds for s1 in (0, 3, 6) for s2 in ((0, 6) if "tw" in p else (0,))]
    iids = [10, 11, 12, 13]
    bctr = 0
    for n in (1, 2):
        for combo in itertools.product(opts, repeat=n):
            bctr += 1
            items = [(1, iids[j], pick_value(bctr + j, 90 + j, SPECIAL_U8), s1, s2) for j, (p, s1, s2) in enumerate(combo)]
            perms = {str(iids[j]): p for j, (p, _, _) in enumerate(combo)}
            cases.append(dict(kind="bleput", src="vec", items=items, perms=perms))
    for _ in range(2500 if tier == "quick" else 30000):
        n = r.choice([2, 3, 3, 4, 4])
        perms = {str(i): any_perms(r) for i in iids}
        items = []
        for _ in range(n):
            i = r.choice(iids)
            items.append((r.choice([1, 1, 1, 2]), i, r.choice(SPECIAL_U8) if r.random() < 0.3 else r.randrange(1, 200),
                          0 if r.random() < 0.75 else r.randrange(1, 7), 0 if r.random() < 0.85 else r.randrange(1, 7)))
        cases.append(dict(kind="bleput", src="random", items=items, perms=perms))
    return cases


# ---------------------------------------------------------------- reactive-accessory streams
# The accessory answers every request actually sent, for exactly the ids in THAT request, from a
# per-id outcome table (204 / 200 when everything in the request succeeded, 207 otherwise), so the
# verdict does not depend on how the controller batches its requests.
R_LAYOUTS = {
    1: [[(1, 10)], [(2, 10)]],
    2: [[(1, 10), (1, 11)], [(1, 10), (2, 10)], [(2, 10), (1, 10)]],
    3: [[(1, 10), (1, 11), (1, 12)], [(1, 10), (2, 10), (1, 11)], [(1, 10), (1, 11), (2, 10)], [(2, 14), (1, 10), (2, 10)]],
    4: [[(1, 10), (1, 11), (1, 12), (1, 13)], [(1, 10), (2, 10), (1, 11), (2, 14)], [(1, 10), (1, 11), (2, 10), (2, 14)],
        [(2, 10), (1, 10), (1, 11), (2, 14)]],
}
A_MID = A_RED + [-70401, 70412, 1, -70413]


def gen_reactive(tier, r):
    nmax = 3 if tier == "quick" else 4
    puts, gets, cputs, creads = [], [], [], []
    ctr = 0
    for n in range(1, nmax + 1):
        alpha = A_FULL if n <= 2 else (A_MID if (n == 3 and tier != "quick") else A_RED)
        pm = list(itertools.product([RW, WO, RWT], repeat=n))
        for layout in R_LAYOUTS[n]:
            for vec in itertools.product(alpha, repeat=n):
                ctr += 1
                reqs = [(a, i, pick_value(ctr + j, 20 + j)) for j, (a, i) in enumerate(layout)]
                perms = {ks(k): p for k, p in zip(layout, pm[ctr % len(pm)])}
                puts.append(dict(kind="ipput-r", src="vec", reqs=reqs, perms=perms,
                                 table={ks(k): s for k, s in zip(layout, vec)}))
            for vec in itertools.product([None] + alpha, repeat=n):
                ctr += 1
                gets.append(dict(kind="ipget-r", src="vec", req=[list(k) for k in layout],
                                 table={ks(k): [s, pick_value(ctr + j, 40 + (ctr + j) % 9, every=4) if s in (None, 0) else None]
                                        for j, (k, s) in enumerate(zip(layout, vec))}))
            calpha = [["B", 0]] + [["S", m] for m in range(1, 7)]
            for vec in itertools.product(calpha if n <= 3 else calpha[:3], repeat=n):
                ctr += 1
                table = {}
                for j, ((a, i), o) in enumerate(zip(layout, vec)):
                    table.setdefault(str(i), [o[0], (60 + ctr + j) % 250 + 1] if o[0] == "B" else o)
                reqs = [(a, i, pick_value(ctr + j, 70 + j, SPECIAL_U8)) for j, (a, i) in enumerate(layout)]
                perms = {ks(k): p for k, p in zip(layout, pm[ctr % len(pm)])}
                cputs.append(dict(kind="coapput-r", src="vec", reqs=reqs, perms=perms, table=table))
                creads.append(dict(kind="coapread-r", src="vec", ids=[list(k) for k in layout], table=table))
    # random: longer requests, repeated ids, more permission kinds
    for _ in range(1500 if tier == "quick" else 20000):
        n = r.choice([2, 3, 4, 4, 5, 6])
        ids = [r.choice(POOL) for _ in range(n)] if r.random() < 0.3 else r.sample(POOL, min(n, len(POOL)))
        table = {ks(k): (0 if r.random() < 0.5 else r.choice(A_FULL)) for k in set(ids)}
        puts.append(dict(kind="ipput-r", src="random",
                         reqs=[(a, i, r.choice(SPECIAL_VALUES) if r.random() < 0.3 else r.randrange(1, 200)) for a, i in ids],
                         perms={ks(k): (r.choice([RW, RW, WO, RWT, RO, WT]) if r.random() < 0.5 else any_perms(r))
                                for k in set(ids)}, table=table))
        gets.append(dict(kind="ipget-r", src="random", req=[list(k) for k in ids],
                         table={k: [s if r.random() < 0.7 else None, r.choice([5, 5] + SPECIAL_VALUES)] if s == 0 else [s, None]
                                for k, s in table.items()}))
    return puts, gets, cputs, creads


def coverage_verdict(stream, want, sent, as_set=False):
    """Every requested id is sent, exactly once, and nothing else is."""
    flat = [k for req in sent for k in req]
    w = sorted(set(want)) if as_set else sorted(want)
    if sorted(flat) != w:
        return ("request-coverage", f"{stream}: requested {w}, but the requests actually sent carried {sent}")
    return None


def oracle_ipput_reactive(case, res, sent, sent_vals=None):
    reqs = [tuple(q) for q in case["reqs"]]
    perms = case["perms"]
    sts = {(a, i): [case["table"][ks((a, i))]] for a, i, _ in reqs}
    v = oracle_write("ipput-reactive", reqs, lambda k: "pr" in perms[ks(k)].split(","), sts, res, "reactive", write_descr_token)
    v = v or coverage_verdict("ipput-reactive", [(a, i) for a, i, _ in reqs], sent)
    if v is None and sent_vals is not None and sorted(map(str, sent_vals)) != sorted(map(str, reqs)):
        v = ("value-sent-differs", f"ipput-reactive: asked to write {reqs} (value codes: {VALS}), the accessory received {sent_vals}")
    return v


def oracle_ipget_reactive(case, res, sent):
    ids = [tuple(k) for k in case["req"]]
    ref = dict(g=None, req=case["req"], entries=[["E", k[0], k[1]] + list(case["table"][ks(k)]) for k in sorted(set(ids))])
    v = oracle_read(ref, res, "ipget-reactive")
    return v or coverage_verdict("ipget-reactive", ids, sent, as_set=True)


def coap_positional(case):
    """the per-iid table laid out positionally for the (unchanged) model and the CoAP oracles"""
    if "reqs" in case:
        return dict(reqs=case["reqs"], perms=case["perms"], results=[case["table"][str(i)] for _, i, _ in case["reqs"]])
    return dict(ids=case["ids"], results=[case["table"][str(k[1])] for k in case["ids"]])


# ---------------------------------------------------------------- extraction cross-check (vm_compute)
# A small deterministic sample of the (request line, raw driver answer) pairs of this run is re-evaluated
# inside Coq with vm_compute on the SAME Model/CharIO.v functions the driver calls (ocaml/drv_c13.ml), and
# the full structured results are compared.  Takes extraction + ocaml/drv*.ml out of the single point of trust.
class XSampler:
    """Keeps, per (request kind, answer class), the `per` requests with the smallest crc32 of the line."""

    def __init__(self, per=2):
        self.per, self.groups = per, {}

    @staticmethod
    def group_of(line, ans):
        t = line.split(" ")
        kind = t[0] + ("-" + t[1] + "-" + t[4] if t[0] == "ipput" and len(t) > 4 else "")
        cls = (ans.partition(";")[2] if t[0] == "bleput" else ans).split()
        return kind, ("num" if t[0] == "tsc" else (cls[0] if cls else ""))

    def feed(self, lines, answers):
        import zlib
        for line, ans in zip(lines, answers):
            g = self.groups.setdefault(self.group_of(line, ans), [])
            h = (zlib.crc32(line.encode()), line, ans)
            if len(g) < self.per or h < g[-1]:
                if h not in g:
                    g.append(h)
                    g.sort()
                    del g[self.per:]

    def sample(self, cap=30):
        out, depth = [], 0
        while len(out) < cap and depth < self.per:          # round-robin over the groups: every kind first
            for key in sorted(self.groups):
                if depth < len(self.groups[key]) and len(out) < cap:
                    out.append(self.groups[key][depth][1:])
            depth += 1
        return out


def _gz(s):
    return f"({int(s)})%Z"


def _gn(s):
    n = int(s)
    if n < 0:
        raise ValueError("negative N")
    return f"{n}%N"


def _goz(s):
    return "None" if s == "-" else f"(Some {_gz(s)})"


def _gcid(s):
    a, i = s.split(".")
    return f"({_gn(a)}, {_gn(i)})"


def _glist(items):
    return "[" + "; ".join(items) + "]"


def _gcids(s):
    return "([] : list cid)" if s == "-" else _glist(_gcid(x) for x in s.split(","))


def _greqs(s):
    if s == "-":
        return "([] : list (cid * Z))"
    return _glist("({}, {})".format(_gcid(k), _gz(v)) for k, v in (x.split("=") for x in s.split(",")))


def _gentry(s):
    if s == "M":
        return "Malformed"
    tag, a, i, st, v = s.split(":")
    if tag != "E":
        raise ValueError("entry")
    return f"(Entry {_gn(a)} {_gn(i)} {_goz(st)} {_goz(v)})"


def _gentries(es):
    return "([] : list entry)" if not es else _glist(_gentry(e) for e in es)


def _gpdures(rs):
    if not rs:
        return "([] : list pdures)"
    return _glist(f"(PBytes {_gz(r[1:])})" if r[0] == "B" else f"(PStatus {_gn(r[1:])})" for r in rs)


def _grd(s):
    return f"(fun k : cid => existsb (cid_eqb k) {_gcids(s)})"


def gallina_of_request(line):
    """request line -> (Gallina term of type list Z, answer shape); mirrors `handle` in ocaml/drv_c13.ml."""
    t = line.split(" ")
    if t[0] == "tsc" and len(t) == 2:
        return f"[to_status_code {_gz(t[1])}]", "tsc"
    if t[0] == "fcl" and len(t) >= 3:
        return f"x_read (Ok (format_characteristic_list {_goz(t[1])} {_gentries(t[3:])} {_gcids(t[2])}))", "read"
    if t[0] == "ipget" and len(t) >= 3:
        return f"x_read (Ok (ip_get {_gcids(t[2])} {_goz(t[1])} {_gentries(t[3:])}))", "read"
    if t[0] == "ipput" and len(t) >= 5:
        reply = {"204": "W204", "nolist": "WNoList"}.get(t[4]) or (f"(W207 {_gentries(t[5:])})" if t[4] == "207" else None)
        if reply is None:
            raise ValueError("code")
        f = "ip_put_unrepaired" if t[1] == "u" else "ip_put"
        return f"x_write ({f} {_grd(t[3])} {_greqs(t[2])} {reply})", "write"
    if t[0] == "coapread" and len(t) >= 2:
        return f"x_read (coap_read {_gcids(t[1])} {_gpdures(t[2:])})", "read"
    if t[0] == "coapput" and len(t) >= 3:
        return f"x_write (coap_put {_grd(t[2])} {_greqs(t[1])} {_gpdures(t[3:])})", "write"
    if t[0] == "bleput" and len(t) == 3:
        ps = []
        if t[2] != "-":
            for x in t[2].split(","):
                i, p, rd = x.split(":")
                perm = {"t": "BTimed", "w": "BWrite"}.get(p, "BReadOnly")
                ps.append("({}, ({}, {}))".format(_gn(i), perm, "true" if rd == "1" else "false"))
        its = []
        if t[1] != "-":
            for x in t[1].split(","):
                kv, s1, s2 = x.split("/")
                k, v = kv.split("=")
                its.append(f"(mk_bitem {_gcid(k)} {_gz(v)} {_gn(s1)} {_gn(s2)})")
        gps = "([] : list (N * (bperm * bool)))" if not ps else _glist(ps)
        gits = "([] : list bitem)" if not its else _glist(its)
        return f"x_ble (ble_put (x_perm {gps}) (x_rd {gps}) {gits})", "ble"
    raise ValueError("unsupported request")


X_PRELUDE = """From Coq Require Import List NArith ZArith Bool.
From AHK Require Import Lib.Res Model.CharIO.
Import ListNotations.
Definition x_oz (o : option Z) : list Z := match o with None => [0%Z; 0%Z] | Some z => [1%Z; z] end.
Definition x_d (d : descr) : list Z :=
  match d with DCode c => [1%Z; c] | DUnknownWith s => [2%Z; s] | DPdu n => [3%Z; Z.of_N n] end.
Definition x_od (o : option descr) : list Z := match o with None => [0%Z; 0%Z] | Some d => x_d d end.
Definition x_k (k : cid) : list Z := [Z.of_N (fst k); Z.of_N (snd k)].
Definition x_rr (p : cid * rres) : list Z :=
  x_k (fst p) ++ x_oz (rr_status (snd p)) ++ x_od (rr_descr (snd p)) ++ x_oz (rr_value (snd p)).
Definition x_wr (p : cid * wres) : list Z := x_k (fst p) ++ [fst (snd p)] ++ x_d (snd (snd p)).
Definition x_lu (p : cid * Z) : list Z := x_k (fst p) ++ [snd p].
Definition x_res {A} (f : A -> list Z) (r : res cerr A) : list Z :=
  match r with Ok a => 0%Z :: f a | Err (PduStatusError n) => [1%Z; Z.of_N n] | Crash => [2%Z] | OutOfFuel => [3%Z] end.
Definition x_wrs (rs : dict wres) : list Z := Z.of_nat (length rs) :: flat_map x_wr rs.
Definition x_lus (l : list (cid * Z)) : list Z := Z.of_nat (length l) :: flat_map x_lu l.
Definition x_read (r : res cerr (dict rres)) : list Z :=
  x_res (fun d => Z.of_nat (length d) :: flat_map x_rr d) r.
Definition x_write (r : res cerr (dict wres * dict Z)) : list Z :=
  x_res (fun p => x_wrs (fst p) ++ x_lus (snd p)) r.
Definition x_ble (p : list (cid * Z) * res cerr (dict wres)) : list Z := x_lus (fst p) ++ x_res x_wrs (snd p).
Definition x_perm (ps : list (N * (bperm * bool))) (i : N) : bperm :=
  match find (fun p => (fst p =? i)%N) ps with Some p => fst (snd p) | None => BReadOnly end.
Definition x_rd (ps : list (N * (bperm * bool))) (i : N) : bool :=
  match find (fun p => (fst p =? i)%N) ps with Some p => snd (snd p) | None => false end.
"""


def _xd(tok):
    if tok == "-":
        return [0, 0]
    return [{"c": 1, "u": 2, "p": 3}[tok[0]], int(tok[1:])]


def _xoz(tok):
    return [0, 0] if tok == "-" else [1, int(tok)]


def _xk(tok):
    a, i = tok.split(".")
    return [int(a), int(i)]


def _xwrs(toks):
    out = [len(toks)]
    for tok in toks:
        k, st, d = tok.split(":")
        out += _xk(k) + [int(st)] + _xd(d)
    return out


def _xlus(toks):
    out = [len(toks)]
    for tok in toks:
        k, v = tok.split("=")
        out += _xk(k) + [int(v)]
    return out


def _xres(toks, ok):
    """driver outcome tokens -> expected list; None marks 'any number' (error code not printed)."""
    if not toks:
        raise ValueError("empty outcome")
    if toks[0] == "ok":
        return [0] + ok(toks[1:])
    if toks[0] == "err":
        return [1, int(toks[1]) if len(toks) > 1 else None]
    return [{"crash": 2, "fuel": 3}[toks[0]]]


def expected_of_answer(ans, shape):
    """raw driver answer (order preserved, not canonicalised) -> the list of integers x_* must produce."""
    t = ans.split()
    if shape == "tsc":
        return [int(ans)]
    if shape == "read":
        def ok(toks):
            out = [len(toks)]
            for tok in toks:
                k, st, d, v = tok.split(":")
                out += _xk(k) + _xoz(st) + _xd(d) + _xoz(v)
            return out
        return _xres(t, ok)
    if shape == "write":
        def ok(toks):
            if toks[0] != "R" or "L" not in toks:
                raise ValueError("write answer")
            li = toks.index("L")
            return _xwrs(toks[1:li]) + _xlus(toks[li + 1:])
        return _xres(t, ok)
    if shape == "ble":
        n, sep, o = ans.partition(";")
        nt = n.split()
        if sep != ";" or not nt or nt[0] != "N":
            raise ValueError("ble answer")
        return _xlus(nt[1:]) + _xres(o.split(), _xwrs)
    raise ValueError(shape)


def vm_crosscheck(ctx, sample):
    """sample: [(request line, raw driver answer)].  Returns (requests evaluated, disagreements, details)."""
    from common import coq_eval
    body, shapes = [X_PRELUDE], []
    for line, _ in sample:
        term, shape = gallina_of_request(line)
        shapes.append(shape)
        body.append(f"Eval vm_compute in ({term}).")
    out = coq_eval(ctx["verif"], "C13", "crosscheck", "\n".join(body) + "\n", timeout=600)
    blocks = re.split(r"(?m)^\s*= ", out)[1:]
    bad = []
    if len(blocks) != len(sample):
        bad.append(dict(request="*", why=f"{len(blocks)} vm_compute results for {len(sample)} requests"))
    for blk, (line, ans), shape in zip(blocks, sample, shapes):
        got = [int(x) for x in re.findall(r"-?\d+", blk.rsplit(":", 1)[0])]
        try:
            want = expected_of_answer(ans, shape)
        except (ValueError, KeyError, IndexError) as e:
            bad.append(dict(request=line, driver=ans, vm_compute=got, why=f"unparsable driver answer: {e!r}"))
            continue
        if len(got) != len(want) or any(w is not None and w != g for g, w in zip(got, want)):
            bad.append(dict(request=line, driver=ans, vm_compute=got, expected_from_driver=want))
    return len(blocks), len(bad), bad


# ---------------------------------------------------------------- run
class Reporter:
    def __init__(self):
        self.viols = []
        self.per_key = {}

    def add(self, key, what, found, **payload):
        n = self.per_key.get(key, 0)
        self.per_key[key] = n + 1
        if n < 2:
            self.viols.append(violation(key, what, found, **payload))

    def finish(self):
        for v in self.viols:
            v["payload"]["occurrences_of_this_key"] = self.per_key[v["key"]]
        return self.viols


def shrink_ipput(case, rig, loop):
    """Smaller failing write case for the replay (same oracle verdict slug)."""
    def fails(c):
        res = loop.run_until_complete(rig.put(c))
        return oracle_ipput(c, res)
    base = fails(case)
    if base is None:
        return case
    slug = base[0]
    cur = dict(case)

    def with_entries(es):
        c = dict(cur)
        c["entries"] = es
        return c
    cur["entries"] = shrink_list(cur["entries"], lambda es: (fails(with_entries(es)) or [None])[0] == slug)

    def with_reqs(rq):
        c = dict(cur)
        c["reqs"] = rq
        return c
    cur["reqs"] = shrink_list(cur["reqs"], lambda rq: len(rq) > 0 and (fails(with_reqs(rq)) or [None])[0] == slug)
    return cur


def run(ctx):
    tier, seed = ctx["tier"], ctx["seed"]
    import logging
    logging.getLogger("aiohomekit").setLevel(logging.CRITICAL)     # rejected PDUs are logged as warnings
    drv = Driver(ctx["driver"])
    xs = XSampler()
    _raw_batch = drv.batch

    def _recording_batch(lines):      # every request of the run passes through here; answers are unchanged
        lines = list(lines)
        answers = _raw_batch(lines)
        xs.feed(lines, answers)
        return answers
    drv.batch = _recording_batch
    cov = Coverage("a case counts when it is distinct and exercises the mapping: read = at least one requested id or one "
                   "reply entry; write = at least one written characteristic and (a 207 with >= 1 entry, or a 204); "
                   "CoAP = at least one id and one result; BLE = at least one item")
    rep = Reporter()
    loop = asyncio.new_event_loop()
    async def make_rigs():          # the connection objects capture the running loop
        return IpRig(), CoapRig(), BleRig()
    ip, coap, ble = loop.run_until_complete(make_rigs())
    descr_maps()
    bad_names = [v for t in _DESCR.values() for v in t.values() if "?" in v]
    if bad_names:
        rep.add("enum-members-unknown", f"status enums contain members the reference tables do not know: {bad_names}", False)

    def judge(stream, case, impl_s, model_s, orc, model_file="Model/CharIO.v"):
        if orc is not None:
            rep.add(f"{stream}:{orc[0]}", orc[1], True, stream=stream, case=case, impl=impl_s, model=model_s)
        elif impl_s != model_s:
            rep.add(f"{stream}:model-mismatch", f"{stream}: implementation `{impl_s[:140]}` != model `{model_s[:140]}`", False,
                    stream=stream, case=case, impl=impl_s, model=model_s, broken=f"correspondence {model_file} <-> aiohomekit")

    replay = None
    if ctx.get("replay"):
        replay = json.load(open(ctx["replay"]))

    # ---- to_status_code over the whole alphabet and a dense range around the defined codes
    from aiohomekit.protocol.statuscodes import to_status_code
    svals = sorted(set(A_FULL + list(range(-70420, -70395)) + list(range(70395, 70420)) + list(range(-10, 11))))
    for s, m in zip(svals, drv.batch([f"tsc {s}" for s in svals])):
        impl = NAME_TO_CODE.get(to_status_code(s).name, "?")
        want = -abs(s) if -abs(s) in HAP_CODES or s == 0 else -1
        if impl != want:
            rep.add("tsc:wrong-member", f"to_status_code({s}) is the member for {impl}, want {want}", True, status=s, impl=impl)
        elif str(impl) != m:
            rep.add("tsc:model-mismatch", f"to_status_code({s}): impl {impl} model {m}", False, status=s)
        cov.case(f"t{s}", True, tsc="defined" if want != -1 else "unknown")

    # ---- reads (fcl direct + IpPairing.get_characteristics)
    from aiohomekit.controller.ip.pairing import format_characteristic_list
    rcases = gen_read(tier, rng(seed, "c13read"))
    if replay:
        rcases = [replay["case"]] if replay.get("stream") in ("fcl", "ipget") else []
    else:
        for idx, c in enumerate(rcases):
            if c["req"] is not None:
                c["container"] = pick_container(idx + 6, c["req"], ordered=False)
    m_fcl = [canon_model_read(a) for a in drv.batch([line_read("fcl", c) for c in rcases])]
    m_get = [canon_model_read(a) for a in drv.batch([line_read("ipget", c) if c["req"] is not None else "tsc 0" for c in rcases])]
    for idx, (c, mf, mg) in enumerate(zip(rcases, m_fcl, m_get)):
        req = None if c["req"] is None else {tuple(k) for k in c["req"]}
        try:
            res = canon_read_result(format_characteristic_list(read_data(c), req))
        except Exception as e:  # noqa
            res = exc_class(e)
        judge("fcl", c, fmt_read(res), mf, oracle_read(c, res, "fcl"))
        kinds = "+".join(sorted({("M" if e[0] == "M" else ("ok" if e[3] in (None, 0) else "err")) for e in c["entries"]})) or "none"
        cov.case("r" + json.dumps(c, sort_keys=True), bool(c["req"]) or bool(c["entries"]),
                 sample=dict(stream="fcl", case=c, impl=fmt_read(res)) if idx % 4001 == 17 else None,
                 read_src=c["src"], read_entries=min(len(c["entries"]), 6), read_entry_kinds=kinds,
                 read_value_kinds="|".join(sorted({val_kind(e[4]) for e in c["entries"] if e[0] == "E"})) or "-",
                 read_global="none" if c["g"] is None else ("zero" if c["g"] == 0 else "error"),
                 read_result=fmt_read(res).split(" ")[0])
        if c["req"] is not None:
            res2 = loop.run_until_complete(ip.get(c))
            judge("ipget", c, fmt_read(res2), mg, oracle_read(c, res2, "ipget"))
            cov.case("g" + json.dumps(c, sort_keys=True), bool(c["req"]) or bool(c["entries"]), ipget_result=fmt_read(res2).split(" ")[0])

    # ---- scripted IP reads again, the caller's own list / set changing while the GET is in flight (request-wide
    #      statuses must still be applied to exactly the ids that were asked for)
    icases = [] if replay else inflight_copies([c for c in rcases if c["req"] is not None], "req", ["set", "list"], 5)
    if replay and replay.get("stream") == "ipget-inflight":
        icases = [replay["case"]]
    for idx, (c, mg) in enumerate(zip(icases, [canon_model_read(a) for a in drv.batch([line_read("ipget", c) for c in icases])])):
        res2 = loop.run_until_complete(ip.get(c))
        judge("ipget-inflight", c, fmt_read(res2), mg, oracle_read(c, res2, "ipget-inflight"))
        cov.case("gi" + json.dumps(c, sort_keys=True), bool(c["req"]),
                 sample=dict(stream="ipget-inflight", case=c, impl=fmt_read(res2)) if idx % 701 == 3 else None,
                 ipget_inflight=ip.inflight_done or "not-fired",
                 ipget_inflight_global="none" if c["g"] is None else ("zero" if c["g"] == 0 else "error"))

    # ---- IP writes
    wcases = gen_ipput(tier, rng(seed, "c13put"))
    if replay:
        wcases = [replay["case"]] if replay.get("stream") == "ipput" else []
    else:
        for idx, c in enumerate(wcases):
            c["container"] = pick_container(idx + 5, c["reqs"], ordered=True)
    m_put = [canon_model_write(a) for a in drv.batch([line_ipput(c) for c in wcases])]
    first_drop = None
    for idx, (c, m) in enumerate(zip(wcases, m_put)):
        res = loop.run_until_complete(ip.put(c))
        orc = oracle_ipput(c, res)
        if orc is not None and orc[0] == "listener-accepted-dropped-207" and first_drop is None:
            first_drop = c
        judge("ipput", c, fmt_write(res), m, orc)
        sts = [e[3] for e in c["entries"] if e[0] == "E"]
        mix = "none" if not sts else ("all-accepted" if all(s == 0 for s in sts) else ("all-rejected" if all(s not in (0, None) for s in sts) else "mixed"))
        cov.case("w" + json.dumps(c, sort_keys=True), bool(c["reqs"]) and (c["code"] == "204" or bool(sts)),
                 sample=dict(stream="ipput", case=c, impl=fmt_write(res)) if idx % 3001 == 29 else None,
                 put_src=c["src"], put_code=c["code"], put_reqs=len(c["reqs"]), put_status_mix=mix,
                 put_value_kinds="|".join(sorted({val_kind(q[2]) for q in c["reqs"]})),
                 put_malformed=sum(1 for e in c["entries"] if e[0] == "M"), put_in_domain=ipput_in_domain(c),
                 put_perm_mix="+".join(sorted(set(c["perms"].values()))), put_result=fmt_write(res).split(" ")[0],
                 put_listener_calls=res[1].calls if not isinstance(res, str) else "-",
                 put_nolist_status=("-" if c["code"] != "nolist" else
                                    ("none" if c.get("g", 1) is None else ("zero" if c.get("g", 1) == 0 else "error"))))
    if first_drop is not None:
        small = shrink_ipput(first_drop, ip, loop)
        sres = loop.run_until_complete(ip.put(small))
        for v in rep.viols:
            if v["key"] == "ipput:listener-accepted-dropped-207":
                v["payload"]["shrunk_case"] = small
                v["payload"]["shrunk_impl"] = fmt_write(sres)
                v["payload"]["shrunk_model_repaired"] = canon_model_write(drv.batch([line_ipput(small)])[0])
                v["payload"]["shrunk_model_unrepaired"] = canon_model_write(drv.batch([line_ipput(small, "u")])[0])
                break

    # ---- reactive accessory: IP writes / reads, CoAP writes / reads
    rputs, rgets, rcputs, rcreads = gen_reactive(tier, rng(seed, "c13reactive"))
    if replay:
        st = replay.get("stream")
        rputs = [replay["case"]] if st == "ipput-reactive" else []
        rgets = [replay["case"]] if st == "ipget-reactive" else []
        rcputs = [replay["case"]] if st == "coapput-reactive" else []
        rcreads = [replay["case"]] if st == "coapread-reactive" else []
    for idx, c in enumerate(rputs):
        c["container"] = pick_container(idx, c["reqs"], ordered=True)
    for idx, c in enumerate(rgets):
        c["container"] = pick_container(idx + 1, c["req"], ordered=False)
    for idx, c in enumerate(rcputs):
        c["container"] = pick_container(idx + 2, c["reqs"], ordered=True, kinds=COAP_PUT_CONTAINERS)
    for idx, c in enumerate(rcreads):
        c["container"] = pick_container(idx + 3, c["ids"], ordered=False)
    if replay:
        for c in rputs + rgets + rcputs + rcreads:
            c["container"] = replay["case"].get("container", "list")
    if not replay:
        # the same cases again, the argument changing while the request is in flight (snapshot semantics expected)
        rputs = rputs + inflight_copies(rputs, "reqs", ["list"], 4)
        rgets = rgets + inflight_copies(rgets, "req", ["list", "set"], 4)
        rcputs = rcputs + inflight_copies(rcputs, "reqs", ["list"], 3)
        rcreads = rcreads + inflight_copies(rcreads, "ids", ["list", "set"], 3)
    failed_unsent = collections.Counter()
    pend = []
    for c in rputs:
        res = loop.run_until_complete(ip.put_reactive(c))
        sent, replied = [list(x) for x in ip.sent], [e for rr in ip.replied for e in rr]
        derived = dict(reqs=c["reqs"], perms=c["perms"], code="207" if ip.replied else "204", entries=replied)
        pend.append((c, res, oracle_ipput_reactive(c, res, sent, list(ip.sent_vals)), line_ipput(derived), sent))
    for idx, ((c, res, orc, _, sent), m) in enumerate(zip(pend, drv.batch([p[3] for p in pend]))):
        judge("ipput-reactive", dict(c, requests_sent=[[list(k) for k in q] for q in sent]), fmt_write(res), canon_model_write(m), orc)
        vals = list(c["table"].values())
        cov.case("rw" + json.dumps(c, sort_keys=True), bool(c["reqs"]),
                 sample=dict(stream="ipput-reactive", case=c, requests_sent=sent, impl=fmt_write(res)) if idx % 2503 == 5 else None,
                 rput_src=c["src"], rput_requests=len(sent), rput_aids=len({a for a, _, _ in c["reqs"]}),
                 rput_value_kinds="|".join(sorted({val_kind(q[2]) for q in c["reqs"]})),
                 rput_container=c.get("container", "list"), rput_inflight=c.get("inflight") or "-",
                 rput_listener_calls=res[1].calls if not isinstance(res, str) else "-",
                 rput_mix="all-accepted" if all(v == 0 for v in vals) else ("all-rejected" if all(v != 0 for v in vals) else "mixed"),
                 rput_rejecting_aids=len({int(k.split(".")[0]) for k, v in c["table"].items() if v != 0}))
    pend = []
    for c in rgets:
        res = loop.run_until_complete(ip.get_reactive(c))
        sent, replied = [list(x) for x in ip.sent], [e for rr in ip.replied for e in rr]
        pend.append((c, res, oracle_ipget_reactive(c, res, sent), line_read("ipget", dict(g=None, req=c["req"], entries=replied)), sent))
    for idx, ((c, res, orc, _, sent), m) in enumerate(zip(pend, drv.batch([p[3] for p in pend]))):
        judge("ipget-reactive", dict(c, requests_sent=[[list(k) for k in q] for q in sent]), fmt_read(res), canon_model_read(m), orc)
        cov.case("rg" + json.dumps(c, sort_keys=True), bool(c["req"]),
                 sample=dict(stream="ipget-reactive", case=c, requests_sent=sent, impl=fmt_read(res)) if idx % 2503 == 9 else None,
                 rget_requests=len(sent), rget_aids=len({k[0] for k in c["req"]}), rget_container=c.get("container", "list"),
                 rget_inflight=(c.get("container", "") + ":" + c["inflight"]) if c.get("inflight") else "-")
    for cases, write, name, oracle, line, canon, fmt in (
            (rcputs, True, "coapput-reactive", oracle_coapput, line_coapput, canon_model_write, fmt_write),
            (rcreads, False, "coapread-reactive", oracle_coapread, line_coapread, canon_model_read, fmt_read)):
        models = drv.batch([line(coap_positional(c)) for c in cases])
        for idx, (c, m) in enumerate(zip(cases, models)):
            res = loop.run_until_complete(coap.reactive(c, write))
            sent = [list(x) for x in coap.sent]
            if isinstance(res, str) and c.get("container") in ONE_SHOT and not any(sent):
                # the call failed before a single PDU reached the accessory (a one-shot iterable walked twice):
                # nothing was asked of the accessory, so the property has nothing to say; counted, not judged
                failed_unsent[f"{name}:{c['container']}:{res}"] += 1
                cov.case(name + json.dumps(c, sort_keys=True), False, **{name.replace("-", "_") + "_container": c["container"] + ":failed-unsent"})
                continue
            if isinstance(res, str) and write and c.get("container") in ("view", "set") and any(sent):
                # a re-iterable but not subscriptable container: the PDUs went out, then the result mapping raised
                if any(c["table"][str(i)][0] == "S" for _, i, _ in c["reqs"]):
                    failed_unsent[f"{name}:{c['container']}:raised-after-a-rejection"] += 1     # "(or the call fails)"
                    cov.case(name + json.dumps(c, sort_keys=True), True, **{name.replace("-", "_") + "_container": c["container"] + ":raised"})
                    continue
                judge(name, dict(c, pdus_sent=sent), res, canon(m),
                      ("written-then-raised-unsubscriptable-container",
                       f"{name}: put_characteristics({c['container']} of {c['reqs']}) sent the writes {sent}, the accessory accepted every "
                       f"one, then the call raised ({res}) and listeners were never told the new values"))
                cov.case(name + json.dumps(c, sort_keys=True), True, **{name.replace("-", "_") + "_container": c["container"] + ":raised"})
                continue
            orc = oracle(coap_positional(c), res)
            if orc is None:
                want = [i for _, i, _ in c["reqs"]] if write else [k[1] for k in c["ids"]]
                if sorted(i for q in sent for _, i in q) != sorted(want) or any(op != (2 if write else 3) for q in sent for op, _ in q):
                    orc = ("request-coverage", f"{name}: requested iids {want}, PDUs actually sent (opcode, iid) {sent}")
                elif write:
                    want_b = [(i, bytes([1, 1, int(impl_val(v)) & 0xFF]).hex()) for _, i, v in c["reqs"]]
                    if sorted(coap.sent_bodies) != sorted(want_b):
                        orc = ("value-sent-differs", f"{name}: asked to write {c['reqs']}, CHAR_WRITE bodies received (iid, TLV hex) {coap.sent_bodies}")
            judge(name, dict(c, pdus_sent=sent), fmt(res), canon(m), orc)
            cov.case(name + json.dumps(c, sort_keys=True), True,
                     sample=dict(stream=name, case=c, pdus_sent=sent, impl=fmt(res)) if idx % 1201 == 13 else None,
                     **{name.replace("-", "_") + "_requests": len(sent),
                        name.replace("-", "_") + "_container": c.get("container", "list"),
                        name.replace("-", "_") + "_inflight": (c.get("container", "") + ":" + c["inflight"]) if c.get("inflight") else "-"})
    cov.extra["container_calls_not_judged"] = dict(failed_unsent)

    # ---- CoAP
    creads, cputs = gen_coap(tier, rng(seed, "c13coap"))
    if replay:
        creads = [replay["case"]] if replay.get("stream") == "coapread" else []
        cputs = [replay["case"]] if replay.get("stream") == "coapput" else []
    for idx, (c, m) in enumerate(zip(creads, [canon_model_read(a) for a in drv.batch([line_coapread(x) for x in creads])])):
        res = loop.run_until_complete(coap.get(c))
        judge("coapread", c, fmt_read(res), m, oracle_coapread(c, res))
        cov.case("cr" + json.dumps(c, sort_keys=True), bool(c["ids"]) and bool(c["results"]),
                 sample=dict(stream="coapread", case=c, impl=fmt_read(res)) if idx % 2003 == 7 else None,
                 coap_src=c["src"], coap_len_delta=len(c["results"]) - len(c["ids"]), coapread_result=fmt_read(res).split(" ")[0])
    for idx, (c, m) in enumerate(zip(cputs, [canon_model_write(a) for a in drv.batch([line_coapput(x) for x in cputs])])):
        res = loop.run_until_complete(coap.put(c))
        judge("coapput", c, fmt_write(res), m, oracle_coapput(c, res))
        cov.case("cw" + json.dumps(c, sort_keys=True), bool(c["reqs"]) and bool(c["results"]),
                 sample=dict(stream="coapput", case=c, impl=fmt_write(res)) if idx % 2003 == 11 else None,
                 coapput_result=fmt_write(res).split(" ")[0],
                 coapput_value_kinds="|".join(sorted({val_kind(q[2]) for q in c["reqs"]})),
                 coapput_listener_calls=res[1].calls if not isinstance(res, str) else "-",
                 coapput_mix="+".join(sorted({x[0] for x in c["results"]})) or "none")

    # ---- BLE
    bcases = gen_ble(tier, rng(seed, "c13ble"))
    if replay:
        bcases = [replay["case"]] if replay.get("stream") == "bleput" else []
    else:
        for idx, c in enumerate(bcases):
            c["container"] = pick_container(idx + 4, [(a, i, v) for (a, i, v, _, _) in c["items"]], ordered=True)
        extra = inflight_copies(bcases, "items", ["list"], 4)
        for c in extra:
            c["perms"] = {**{str(i): RW for _, i in BLE_POOL}, **c["perms"]}
        bcases = bcases + extra
    live = [ble_live_case(c) if c.get("inflight") else c for c in bcases]
    m_live = [canon_model_ble(a) for a in drv.batch([line_bleput(x) for x in live])]
    ble_sem = collections.Counter()
    for idx, (c0, m0) in enumerate(zip(bcases, [canon_model_ble(a) for a in drv.batch([line_bleput(x) for x in bcases])])):
        res = loop.run_until_complete(ble.put(c0))
        c, m = c0, m0
        if c0.get("inflight"):
            # the argument changed during the first request: snapshot semantics (what was handed over) and live
            # iteration (what the loop walked) are both faithful reports of what the accessory was sent
            sem = "neither"
            for name, cc, mm in (("snapshot", c0, m0), ("live", live[idx], m_live[idx])):
                if res == mm and ble.calls == ble_want_calls(cc):
                    sem, c, m = name, cc, mm
                    break
            ble_sem[sem] += 1
        orc = oracle_bleput(c, res)
        if orc is None:
            want_calls = []
            for (_a, i, _v, s1, s2) in c["items"]:
                pl = c["perms"][str(i)].split(",")
                if "tw" in pl:
                    want_calls += [(4, i)] if s1 else [(4, i), (5, i)]
                    if s1 or s2:
                        break
                elif "pw" in pl:
                    want_calls.append((2, i))
                    if s1:
                        break
            if ble.calls != want_calls:
                orc = ("request-sequence", f"bleput: requests sent (opcode, iid) {ble.calls}, want {want_calls}")
        judge("bleput", dict(c0, requests_sent=[list(x) for x in ble.calls]), res, m, orc)
        cov.case("b" + json.dumps(c0, sort_keys=True), bool(c["items"]),
                 sample=dict(stream="bleput", case=c, impl=res) if idx % 1501 == 3 else None,
                 ble_value_kinds="|".join(sorted({val_kind(it[2]) for it in c["items"]})),
                 ble_inflight=c0.get("inflight") or "-",
                 ble_src=c["src"], ble_items=len(c["items"]), ble_container=c.get("container", "list"), ble_result=res.partition(" ; ")[2].split(" ")[0],
                 ble_perm_classes="|".join(sorted({perm_class(c["perms"][str(it[1])]) for it in c["items"]})),
                 ble_has_decor=any(d in c["perms"][str(it[1])].split(",") for it in c["items"] for d in PERM_DECOR[1:]))
    loop.close()
    cov.extra["ble_inflight_semantics_seen"] = dict(ble_sem)

    # ---- extraction cross-check: a sample of the requests above, re-evaluated with vm_compute inside Coq
    if not replay:
        import time
        t0 = time.time()
        sample = xs.sample(26)
        # ip_put_unrepaired is only requested when a listener drop is being shrunk: ask the driver for the
        # unrepaired variant of sampled ipput requests so that this request kind is always covered
        ulines = [" ".join(["ipput", "u"] + l.split(" ")[2:]) for l, _ in sample if l.startswith("ipput f ")][:4]
        sample = [s for s in sample if s[0] not in ulines] + list(zip(ulines, _raw_batch(ulines)))
        try:
            n_x, k_x, bad_x = vm_crosscheck(ctx, sample)
        except Exception as e:  # noqa  (coqc failure, unrenderable request): a failed cross-check, not a silent skip
            n_x, k_x, bad_x = 0, 1, [dict(request="*", why=f"cross-check could not be evaluated: {e!r}"[:1500])]
        kinds = collections.Counter(XSampler.group_of(l, a)[0] for l, a in sample)
        cov.extra["vm_compute_crosscheck"] = {"requests": n_x, "disagreements": k_x, "by_request_kind": dict(sorted(kinds.items())),
                                              "wall_s": round(time.time() - t0, 2)}
        if k_x:
            rep.add("extraction-vs-vm_compute", f"{k_x} of {n_x} sampled driver answers differ from vm_compute of the same "
                    f"Model/CharIO.v call (first: {str(bad_x[0])[:300]})", False, disagreements=bad_x[:5],
                    broken="extraction / ocaml/drv_c13.ml <-> Coq kernel evaluation")

    cov.extra["exhaustive"] = True
    nm = 3 if tier == "quick" else 4
    cov.extra["exhaustive_part"] = (
        f"ipput/fcl/ipget: every status vector over the {len(A_FULL)}-value alphabet (0, the 12 defined codes, their positive-signed "
        f"forms, 8 unknown codes; reads add 'no status') for n <= {2 if tier == 'quick' else 3} characteristics and over the reduced "
        f"alphabet {A_RED} for n <= {nm}, two aid layouts each; every listed-subset x readable/write-only mix x {A_RED2} vector for "
        f"n <= {nm} (reads: x 6 global statuses x 3 requested-set variants, n <= 3); CoAP: every result vector over value/8 PDU statuses, "
        f"n <= {nm}; BLE: every (permission kind, s1, s2) combination for n <= 2 items")
    cov.extra["domain_exclusions"] = [
        "ipput oracle: replies whose well-formed entries lack 'status', and non-empty reply dicts without 'characteristics' that carry "
        "no (or a zero) request-wide status, are outside the quantifier (the code raises KeyError; modelled as Crash and compared, "
        "not judged). A reply with a NON-ZERO request-wide status and no list IS judged: every written id counts as rejected, so the "
        "call must fail or report each id with that status and notify nobody (oracle_request_wide)",
        "ipput replies that carry a list AND a non-zero request-wide status are compared with the model (the code ignores the "
        "top-level status of a write reply) but not judged",
        "listener call log: every (id, value) delivered is kept (a second delivery of one id by one IP/CoAP write is judged as "
        "delivered-twice; calls with an empty dict are compared with the model, which never makes one); how the deliveries are "
        "batched into calls is recorded in the histograms (put_listener_calls) but not compared",
        "ipput with contradictory duplicate entries for one id: judged only on the unconditional parts (rejected => not notified and "
        "reported; reported status is one the accessory sent)",
        "coap: more results than ids (IndexError, modelled as Crash) and PDUStatus.SUCCESS objects in the result list (cannot come out "
        "of decode_pdu) are compared, not judged",
        "BLE reads (failed characteristics are skipped, not reported) are outside the property's anchors",
    ]
    cov.extra["observations"] = [
        "CoAP write results carry the key 'descripton' (sic); BLE reports status as the HapStatusCode member, not an int - both canonicalised",
    ]
    cov.extra["violation_counts_by_key"] = dict(rep.per_key)
    return dict(coverage=cov.to_dict(), violations=rep.finish())
