"""C19 correspondence: device waiters and advertisement parsing vs Model/Find.v.

Implementation side: the REAL controllers (IpController = the mDNS based ZeroconfController,
BleController, the aggregate Controller) on the virtual-time loop.  zeroconf is replaced by a stub
object carrying a real DNSCache and a browser stub (signal interface), bleak's scanner by a fake
class that only remembers the detection callback; advertisements are real AsyncServiceInfo /
BLEDevice+AdvertisementData objects built by the harness.  No source hooks.

Streams
  sched     all schedules (to the tier's depth) over {waiter k starts, advertisement processed
            (valid/invalid), waiter cancelled (with/without letting the loop run), time advances} for
            the three controllers; observable = every waiter's outcome and completion tick, whether a
            callback raised, the final discoveries.
  parse     HomeKitService.from_service_info / HomeKitAdvertisement / HomeKitEncryptedNotification
            .from_manufacturer_data on rendered-valid inputs, every truncation of them, case variants,
            address lists, int() literals, random bytes.
  callback  the registered callbacks (browser state-change handler -> resolve timer -> record handling,
            scanner detection callback) with no pairing / pairing with cached state / pairing without
            cached state for the advertised id.
Model side: extracted OCaml driver build/drv_c19.  Oracle: harness/ref/findref.py (written from the
property statement).
"""
from __future__ import annotations

import asyncio
import hashlib
import ipaddress
import itertools
import multiprocessing
import os
import socket
import struct
import time

import vloop
from common import Coverage, Driver, coq_eval, hx, rng, unhx, violation
from ref import findref

HAP_TCP = "_hap._tcp.local."
HAP_UDP = "_hap._udp.local."
TAU = {"S": 8, "L": 16}      # waiter timeouts (ticks); never congruent to 0 mod DELTA, so an event
DELTA = 5                    # never coincides with a deadline
FLUSH = 64
IDS = ["aa:bb:cc:00:00:01", "aa:bb:cc:00:00:02"]
DEVS = [bytes.fromhex("aabbcc000001"), bytes.fromhex("aabbcc000002")]
WORKERS = max(2, min(14, (os.cpu_count() or 4) - 2))


# ================================================================ advertisement catalogue
def txt_of(pairs):
    out = b""
    for k, v in pairs:
        rec = k if v is None else k + b"=" + v
        out += bytes([len(rec)]) + rec
    return out


# What the g-th catalogue advertisement of a transport ADVERTISES.  The numbers are deliberately NOT monotone in g
# (a schedule uses g = position): the configuration number is 8 bit and the BLE state number 16 bit, both wrap
# (65535 -> 1) and restart after a factory reset (sf becomes 1), so every direction of change of (c#, s#) between
# two advertisements of one id occurs: c# same / s# wraps down, both down, c# down / s# up, c# up / s# down ...
# s# (and the pair) stays unique per g and across the two transports, so "completed with THAT discovery" is observable.
M_NUMS = dict(cn=[5, 2, 2, 9, 1, 1, 7, 3], sn=[3, 6, 1, 7, 2, 5, 0, 4], sf=[0, 1, 1, 0, 0, 1, 0, 1], ci=[5, 5, 7, 2, 17, 17, 1, 5])
B_NUMS = dict(cn=[4, 4, 4, 255, 8, 8, 6, 0], sn=[65534, 65535, 1, 256, 255, 2, 40000, 0], sf=[0, 0, 0, 1, 1, 0, 1, 1],
              ci=[5, 5, 7, 7, 65535, 1, 256, 5])


def nums(tr, g):
    """-> dict cn, sn, sf, ci advertised by catalogue index g of transport tr ('m' | 'b')"""
    t = M_NUMS if tr == "m" else B_NUMS
    if g < 8:
        return {k: v[g] for k, v in t.items()}
    return dict(cn=g + 1, sn=g, sf=0, ci=5)


def svc_args(idx, sn, variant, ty=None):
    """-> (name, type, [packed addrs], port, txt) for id index idx; sn = catalogue index g (selects the spelling
    variants; the advertised numbers are nums('m', g)).
    variant: v | noid | linklocal | badint, and the forms that share the TXT rdata of v<sn>: n | l | p"""
    ty = ty or HAP_TCP
    nm = nums("m", sn)
    idtxt = IDS[idx].upper().encode() if sn % 2 == 0 else IDS[idx].encode()
    pairs = [(b"c#", b"%d" % nm["cn"]), (b"id" if (sn % 3 or variant == "linklocal") else b"ID", idtxt), (b"md", b"unit"), (b"s#", b"%d" % nm["sn"]),
             (b"ci", b"%d" % nm["ci"]), (b"sf", b"%d" % nm["sf"])]
    if sn % 4 == 2:
        # bytes that are not UTF-8 in fields validity does not depend on: a Latin-1 model name, an unknown binary attribute
        pairs[2] = (b"md", b"Caf\xe9 Lamp")
        pairs += [(b"n\xf6te", b"\xff\xfe\x00")]
    elif sn % 4 == 0:
        pairs[2] = (b"md", "Lampe \u00e9".encode()[:-1])      # a UTF-8 value cut in the middle of a character
    if sn % 2 == 1:
        # valueless DNS-SD attributes (bare key, no '='): they count as absent, the record stays valid
        pairs += [(b"ff", None), (b"sh", None)] + ([(b"pv", None)] if sn % 4 == 3 else [(b"md2", None)])
    addrs = [socket.inet_aton("169.254.7.7"), socket.inet_aton("10.0.0.%d" % (idx + 1)),
             socket.inet_pton(socket.AF_INET6, "fe80::1")]
    port = 5000 + idx
    if variant == "noid":
        pairs = [p for p in pairs if p[0].lower() != b"id"]
    elif variant == "n":            # same TXT as the valid record, address records not known yet
        addrs = []
    elif variant == "p":            # same TXT as the valid record, the accessory moved (new address and port)
        addrs = [socket.inet_aton("10.0.1.%d" % (idx + 1))]
        port = 6000 + idx
    elif variant in ("linklocal", "l"):
        addrs = [socket.inet_aton("169.254.7.7"), socket.inet_pton(socket.AF_INET6, "fe80::1")]
    elif variant == "badint":
        pairs[3] = (b"s#", b"1x")
    # instance names as real accessories announce them: mixed case, with spaces
    return ("Dev%d Living Room Lamp.%s" % (idx, ty)).encode(), ty.encode(), addrs, port, txt_of(pairs)


def mfr_of(idx, sn, variant):
    """manufacturer data (or None) for id index idx.  variant: v | short | type | noapple | empty"""
    nb = nums("b", sn)
    data = bytes([0x06, 0x31, nb["sf"]]) + DEVS[idx] + struct.pack("<HHBB", nb["ci"], nb["sn"], nb["cn"] & 0xFF, 2) + b"\x10\x20\x30\x40"
    if variant == "short":
        return data[:14]
    if variant == "type":
        return b"\x07" + data[1:]
    if variant == "noapple":
        return None
    if variant == "empty":
        return b""
    return data


MDNS_BAD = ["noid", "linklocal", "badint"]
BLE_BAD = ["short", "type", "noapple", "empty"]


def addr_tok(p):
    return ("4:" if len(p) == 4 else "6:") + p.hex()


def svc_line(args):
    name, ty, addrs, port, txt = args
    return f"{hx(name)} {hx(ty)} {','.join(addr_tok(a) for a in addrs) if addrs else '-'} {port} {hx(txt)}"


def catalogue():
    """symbols -> definitions for the schedule streams.  m<idx>v<sn>, m<idx>i<j>, b<idx>v<sn>, b<idx>i<j>, and
    m<idx>{p|n|l}<sn>: records of the SAME service with the SAME TXT rdata as m<idx>v<sn> (moved / no address
    yet / link-local only), so that one service name has a history"""
    cat = {}
    for idx in (0, 1):
        for sn in range(8):
            nm, nb = nums("m", sn), nums("b", sn)
            mk = dict(cn=nm["cn"], sn=nm["sn"], sf=nm["sf"], ci=nm["ci"])
            cat[f"m{idx}v{sn}"] = dict(tr="m", args=svc_args(idx, sn, "v"), valid=True, id=IDS[idx], **mk)
            cat[f"b{idx}v{sn}"] = dict(tr="b", md=mfr_of(idx, sn, "v"), valid=True, id=IDS[idx], cn=nb["cn"] & 0xFF, sn=nb["sn"],
                                       sf=nb["sf"], ci=nb["ci"], idx=idx)
            # one service name, same TXT rdata, different completeness / endpoint
            cat[f"m{idx}p{sn}"] = dict(tr="m", args=svc_args(idx, sn, "p"), valid=True, id=IDS[idx], **mk)
            cat[f"m{idx}n{sn}"] = dict(tr="m", args=svc_args(idx, sn, "n"), valid=False, id=IDS[idx], cn=0, sn=0)
            cat[f"m{idx}l{sn}"] = dict(tr="m", args=svc_args(idx, sn, "l"), valid=False, id=IDS[idx], cn=0, sn=0)
            # the same records announced on _hap._udp (what a CoAPController processes)
            cat[f"u{idx}v{sn}"] = dict(tr="m", args=svc_args(idx, sn, "v", HAP_UDP), valid=True, id=IDS[idx], **mk)
        for j, var in enumerate(MDNS_BAD):
            cat[f"m{idx}i{j}"] = dict(tr="m", args=svc_args(idx, 9, var), valid=False, id=IDS[idx], cn=0, sn=0)
            cat[f"u{idx}i{j}"] = dict(tr="m", args=svc_args(idx, 9, var, HAP_UDP), valid=False, id=IDS[idx], cn=0, sn=0)
        for j, var in enumerate(BLE_BAD):
            cat[f"b{idx}i{j}"] = dict(tr="b", md=mfr_of(idx, 9, var), valid=False, id=IDS[idx], cn=0, sn=0, idx=idx)
    return cat


CAT = catalogue()


def cat_defs():
    lines = []
    for sym, c in CAT.items():
        if c["tr"] == "m":
            lines.append(f"defm {sym} {svc_line(c['args'])}")
        else:
            lines.append(f"defb {sym} {'none' if c['md'] is None else hx(c['md'])}")
    return lines


# ================================================================ implementation side
class _BrowserStub:
    types = [HAP_TCP, "_hap._udp.local."]

    def __init__(self):
        from zeroconf import SignalRegistrationInterface
        self._handlers = []
        self.service_state_changed = SignalRegistrationInterface(self._handlers)


class _FakeZeroconf:
    def __init__(self):
        from zeroconf import DNSCache
        self.cache = DNSCache()
        self.listeners = [_BrowserStub()]


class _FakeAsyncZeroconf:
    def __init__(self):
        self.zeroconf = _FakeZeroconf()


class _FakeScanner:
    """Stands for bleak.BleakScanner: remembers the detection callback, never touches a radio."""

    def __init__(self, detection_callback=None, **kw):
        self.cb = detection_callback
        self.discovered_devices_and_advertisement_data = {}

    async def start(self):
        pass

    async def stop(self):
        pass


_impl_cache = {}


def impl_objects():
    """real advertisement objects for the catalogue (built once per process)"""
    if _impl_cache:
        return _impl_cache
    from bleak.backends.device import BLEDevice
    from bleak.backends.scanner import AdvertisementData
    for sym, c in CAT.items():
        if c["tr"] == "m":
            _impl_cache[sym] = make_scripted(c["args"])     # browser path: the record counts as resolved
        else:
            dev = BLEDevice(address="00:11:22:33:44:%02X" % c["idx"], name="Dev%d" % c["idx"], details=None)
            md = {} if c["md"] is None else {76: c["md"]}
            ad = AdvertisementData(local_name="Dev", manufacturer_data=md, service_data={}, service_uuids=[],
                                   rssi=-60, platform_data=((),), tx_power=-127)
            _impl_cache[sym] = (dev, ad)
    return _impl_cache


def make_info(args):
    from zeroconf.asyncio import AsyncServiceInfo
    name, ty, addrs, port, txt = args
    return AsyncServiceInfo(ty.decode(), name.decode(), addresses=list(addrs), port=port, properties=bytes(txt))



_scripted = {}    # full service name -> prebuilt service info, for the browser path


def scripted_info_factory(service_type, name):
    """stands for AsyncServiceInfo(type, name) inside ZeroconfController._handle_service"""
    return _scripted[name]


def make_scripted(args):
    """a real AsyncServiceInfo whose cache lookup succeeds (the record is 'already resolved')"""
    from zeroconf.asyncio import AsyncServiceInfo

    class ScriptedInfo(AsyncServiceInfo):
        def load_from_cache(self, zc, now=None):
            return True
    name, ty, addrs, port, txt = args
    return ScriptedInfo(ty.decode(), name.decode(), addresses=list(addrs), port=port, properties=bytes(txt))


class Patches:
    """monkey patches that keep the controllers away from the radio / the network"""

    def __enter__(self):
        import aiohappyeyeballs
        import aiohomekit.controller.ble.controller as bc
        import aiohomekit.controller.ble.pairing as bp
        import aiohomekit.controller.ip.pairing as ipp
        import aiohomekit.zeroconf as azc
        self.saved = [(bc, "BleakScanner", bc.BleakScanner),
                      (azc, "AsyncServiceBrowser", azc.AsyncServiceBrowser),
                      (azc, "AsyncServiceInfo", azc.AsyncServiceInfo),
                      (aiohappyeyeballs, "start_connection", aiohappyeyeballs.start_connection),
                      (bp.BlePairing, "_process_config_changed", bp.BlePairing._process_config_changed),
                      (bp.BlePairing, "_async_process_disconnected_events", bp.BlePairing._async_process_disconnected_events),
                      (ipp.IpPairing, "_process_config_changed", ipp.IpPairing._process_config_changed)]
        bc.BleakScanner = _FakeScanner
        azc.AsyncServiceBrowser = _BrowserStub
        azc.AsyncServiceInfo = scripted_info_factory

        async def _noop(self, *a, **k):
            return None

        async def _refused(*a, **k):
            await asyncio.sleep(0)
            raise OSError(111, "Connect call failed")
        bp.BlePairing._process_config_changed = _noop
        bp.BlePairing._async_process_disconnected_events = _noop
        ipp.IpPairing._process_config_changed = _noop
        aiohappyeyeballs.start_connection = _refused
        return self

    def __exit__(self, *a):
        for obj, name, val in self.saved:
            setattr(obj, name, val)


class Rig:
    """one controller under test"""

    def __init__(self, kind):
        self.kind = kind
        self.loaded = []
        self.by_id = {}

    async def start(self, cache_for=None):
        from aiohomekit.characteristic_cache import CharacteristicCacheMemory
        cache = CharacteristicCacheMemory()
        for pid in cache_for or ():
            cache.async_create_or_update_map(pid, 1, [], None, 1)
        self.cache = cache
        if self.kind == "mdns":
            from aiohomekit.controller.ip.controller import IpController
            self.azc = _FakeAsyncZeroconf()
            self.ip = self.ctrl = IpController(char_cache=cache, zeroconf_instance=self.azc)
            await self.ctrl.async_start()
        elif self.kind == "ble":
            from aiohomekit.controller.ble.controller import BleController
            self.ble = self.ctrl = BleController(cache)
            await self.ctrl.async_start()
        else:
            from aiohomekit.controller.ble.controller import BleController
            from aiohomekit.controller.controller import Controller
            from aiohomekit.controller.ip.controller import IpController
            self.azc = _FakeAsyncZeroconf()
            self.ctrl = Controller(async_zeroconf_instance=self.azc, char_cache=cache)
            self.ip = IpController(char_cache=cache, zeroconf_instance=self.azc)
            self.ble = BleController(cache)
            await self.ctrl._async_register_backend(self.ip)
            await self.ctrl._async_register_backend(self.ble)

    def adv_m(self, info):
        """the record-handling callback, called the way _async_resolve_later calls it"""
        self.ip._async_handle_loaded_service_info(info)

    def adv_m_browser(self, info):
        """through the handler registered with the browser's service_state_changed signal"""
        from zeroconf import ServiceStateChange
        _scripted[info.name] = info
        for h in list(self.azc.zeroconf.listeners[0]._handlers):
            h(zeroconf=self.azc.zeroconf, service_type=info.type, name=info.name, state_change=ServiceStateChange.Added)

    def removed_browser(self, info):
        from zeroconf import ServiceStateChange
        for h in list(self.azc.zeroconf.listeners[0]._handlers):
            h(zeroconf=self.azc.zeroconf, service_type=info.type, name=info.name, state_change=ServiceStateChange.Removed)

    def adv_b(self, dev_ad):
        """through the detection callback registered with the scanner"""
        self.ble._scanner.cb(*dev_ad)

    def load(self, pid, alias="p"):
        if self.kind == "ble":
            p = self.ble.load_pairing(alias, {"AccessoryPairingID": pid, "AccessoryAddress": "00:11:22:33:44:00",
                                              "Connection": "BLE"})
        else:
            import ipsim
            data = ipsim.pairing_data(["10.9.9.9"])
            data["AccessoryPairingID"] = pid
            p = self.ip.load_pairing(alias, data)
        self.loaded.append(p)
        self.by_id[pid] = p
        return p

    def discoveries(self):
        out = []
        for c in ([self.ctrl] if self.kind != "agg" else [self.ip, self.ble]):
            out.append(",".join(sorted(f"{hx(str(k).encode())}:{_ti(getattr(v.description, 'config_num', None), 'cn')}"
                                       f":{_ti(getattr(v.description, 'state_num', None), 'sn')}"
                                       for k, v in c.discoveries.items())) or "-")
        return " / ".join(out)

    def endpoints(self):
        """what controller.discoveries reports per id.  mDNS: id:address:port:c#:s#:sf:ci (what a connection would be
        made to); BLE: id:c#:s#:sf:ci.  Aggregate: 'ip-part / ble-part'."""
        parts = []
        if self.kind != "ble":
            parts.append(_mdns_contents(self.ip))
        if self.kind != "mdns":
            parts.append(_ble_contents(self.ble))
        return " / ".join(parts)

    async def stop(self):
        for p in self.loaded:
            try:
                await p.shutdown()
            except Exception:  # noqa
                pass
        try:
            await self.ctrl.async_stop()
        except Exception:  # noqa
            pass


def _mdns_contents(ctrl):
    out = []
    for k, v in ctrl.discoveries.items():
        d = v.description
        try:
            adr = ipaddress.ip_address(str(d.address).split('%')[0]).packed.hex()
        except Exception:  # noqa
            adr = "other:addr:" + type(getattr(d, "address", None)).__name__
        out.append(f"{hx(str(k).encode())}:{adr}:{_ti(getattr(d, 'port', None), 'port')}:{_ti(getattr(d, 'config_num', None), 'cn')}"
                   f":{_ti(getattr(d, 'state_num', None), 'sn')}:{_ti(getattr(d, 'status_flags', None), 'sf')}"
                   f":{_ti(getattr(d, 'category', None), 'ci')}")
    return ",".join(sorted(out)) or "-"


def _ble_contents(ctrl):
    out = []
    for k, v in ctrl.discoveries.items():
        d = v.description
        out.append(f"{hx(str(k).encode())}:{_ti(getattr(d, 'config_num', None), 'cn')}:{_ti(getattr(d, 'state_num', None), 'sn')}"
                   f":{_ti(getattr(d, 'status_flags', None), 'sf')}:{_ti(getattr(d, 'category', None), 'ci')}")
    return ",".join(sorted(out)) or "-"


def _busy(loop):
    if loop._ready:
        return True
    now = loop.time()
    return any((not h._cancelled) and h._when <= now for h in loop._scheduled[:4])


async def settle(loop):
    """let the loop run until nothing is ready or due any more (the clock does not move)"""
    await asyncio.sleep(0)
    n = 0
    while _busy(loop) and n < 200:
        await asyncio.sleep(0)
        n += 1


async def exec_schedule(loop, kind, events, objs):
    """events: tuples  ("F",k,id,tau) ("A",sym) ("Ab",sym) ("C",k) ("Cq",k) ("T",delta) ("L",id,has_state) ("S",id).
    Returns the canonical result string."""
    from aiohomekit.exceptions import AccessoryNotFoundError
    rig = Rig(kind)
    await rig.start(cache_for=[ev[1] for ev in events if ev[0] == "L" and ev[2]])
    t0 = loop.ticks
    res, tasks, raised = {}, {}, []
    ticks = vloop.TICKS

    async def waiter(k, wid, tau):
        try:
            d = await rig.ctrl.async_find(wid, tau / ticks)
            desc = d.description
            res[k] = "found:%s:%s:%s:%d" % (hx(str(desc.id).encode()), _ti(desc.config_num, "cn"), _ti(desc.state_num, "sn"), loop.ticks - t0)
        except AccessoryNotFoundError:
            res[k] = "notfound:%d" % (loop.ticks - t0)
        except asyncio.CancelledError:
            res[k] = "cancelled:%d" % (loop.ticks - t0)
        except BaseException as e:  # noqa
            res[k] = "other-%s:%d" % (type(e).__name__, loop.ticks - t0)

    for idx, ev in enumerate(events):
        op = ev[0]
        nerr = len(loop.errors)
        if op == "F":
            tasks[ev[1]] = loop.create_task(waiter(ev[1], ev[2], ev[3]))
            await settle(loop)
        elif op == "A" or op == "Ab":
            try:
                if op == "Ab":
                    rig.adv_m_browser(objs[ev[1]])
                elif ev[1][0] == "m":
                    rig.adv_m(objs[ev[1]])
                else:
                    rig.adv_b(objs[ev[1]])
            except Exception as e:  # noqa
                raised.append("%d:%s" % (idx, type(e).__name__))
            if op == "Ab":
                await vloop.sleep_ticks(2048)      # the 0.5 s resolve-later timer
            await settle(loop)
        elif op == "C":
            if ev[1] in tasks:
                tasks[ev[1]].cancel()
            await settle(loop)
        elif op == "Cq":
            if ev[1] in tasks:
                tasks[ev[1]].cancel()
        elif op == "T":
            await vloop.sleep_ticks(ev[1])
            await settle(loop)
        elif op == "L":
            rig.load(ev[1])
            await settle(loop)
        elif op == "Rb":                      # browser: service removed (goodbye); pending resolve timer cancelled
            try:
                rig.removed_browser(objs[ev[1]])
            except Exception as e:  # noqa
                raised.append("%d:%s" % (idx, type(e).__name__))
            await settle(loop)
        elif op == "S":                       # pairing.shutdown(): irreversible, the pairing stays in controller.pairings
            if ev[1] in rig.by_id:
                await rig.by_id[ev[1]].shutdown()
            await settle(loop)
        for ctx in loop.errors[nerr:]:
            raised.append("%d:%s" % (idx, type(ctx.get("exception")).__name__))
    await settle(loop)
    for k, t in tasks.items():
        if not t.done():
            res.setdefault(k, "pending")
            t.cancel()
    discs = rig.discoveries()
    eps = rig.endpoints()
    await rig.stop()
    await settle(loop)
    return canon(res, raised, discs), eps


def canon(res, raised, discs):
    return ";".join(f"{k}={res[k]}" for k in sorted(res)) + "|" + ",".join(raised) + "|" + discs


def strip_exc(c):
    """raised cells carry the exception class on the implementation side only"""
    a, r, d = c.split("|")
    return a + "|" + ",".join(x.split(":")[0] for x in r.split(",") if x) + "|" + d


def run_impl(kind, scheds, objs=None, want_ep=False):
    """[events] -> [canonical result] (and, on request, the mDNS endpoints); one virtual loop per 500 schedules"""
    out, eps = [], []
    with Patches():
        objs = objs or impl_objects()
        for i in range(0, len(scheds), 500):
            part = scheds[i:i + 500]

            async def main(loop, part=part):
                for evs in part:
                    try:
                        c, e = await exec_schedule(loop, kind, evs, objs)
                    except vloop.Stalled:
                        raise
                    except Exception as e2:  # noqa
                        c, e = "harness-error:%s:%s||" % (type(e2).__name__, str(e2)[:80].replace("|", "/")), "?"
                    out.append(c)
                    eps.append(e)
            vloop.run(main)
    return (out, eps) if want_ep else out


def expected_endpoints(kind, events):
    """reference (independent of the model): the discovery of an id shows what the LATEST valid advertisement
    processed for it on that transport advertised - mDNS: first usable address, port, c#, s#, sf, ci; BLE: c#, s#, sf,
    category - however these numbers compare with the ones seen before (they wrap and restart)"""
    ep, bl = {}, {}
    for ev in events:
        if ev[0] in ("A", "Ab") and ev[1] in CAT and CAT[ev[1]]["valid"]:
            c = CAT[ev[1]]
            if c["tr"] == "m":
                _, _, addrs, port, _ = c["args"]
                ep[c["id"]] = (findref.ref_addresses(list(addrs))[0], port, c["cn"], c["sn"], c["sf"], c["ci"])
            else:
                bl[c["id"]] = (c["cn"], c["sn"], c["sf"], c["ci"])
    parts = []
    if kind != "ble":
        parts.append(",".join(sorted(f"{hx(i.encode())}:{a.hex()}:{p}:{cn}:{sn}:{sf}:{ci}" for i, (a, p, cn, sn, sf, ci) in ep.items())) or "-")
    if kind != "mdns":
        parts.append(",".join(sorted(f"{hx(i.encode())}:{cn}:{sn}:{sf}:{ci}" for i, (cn, sn, sf, ci) in bl.items())) or "-")
    return " / ".join(parts)


# ================================================================ model side
_tok_memo = {}


def model_group(kind, ev):
    """one harness event -> one driver group (the model events it stands for, joined by '+')"""
    key = (kind == "agg", ev)
    g = _tok_memo.get(key)
    if g is None:
        op = ev[0]
        if op == "F":
            g = f"F.{ev[1]}.{hx(ev[2].encode())}.{ev[3]}+T.0"
        elif op == "A":
            pre = "A" if kind != "agg" else ("AM" if ev[1][0] == "m" else "AB")
            g = f"{pre}.{ev[1]}+T.0"
        elif op == "Ab":
            g = f"T.2048+A.{ev[1]}+T.0"
        elif op == "C":
            g = f"C.{ev[1]}+T.0"
        elif op == "Cq":
            g = f"C.{ev[1]}"
        elif op == "T":
            g = f"T.{ev[1]}"
        elif op in ("S", "Rb"):
            g = "T.0"
        else:
            g = f"L.{hx(ev[1].encode())}.{1 if ev[2] else 0}"
        _tok_memo[key] = g
    return g


def run_model(drv, kind, scheds, cfgname=None, defs=None):
    """-> canonical results (the driver answers in the canonical shape)"""
    cfgname = cfgname or kind
    defs = cat_defs() if defs is None else defs
    out = []
    head = f"sched {cfgname} "
    for i in range(0, len(scheds), 20000):
        lines = list(defs)
        for evs in scheds[i:i + 20000]:
            lines.append(head + " ".join([model_group(kind, ev) for ev in evs]))
        ans = drv._run(lines)[len(defs):]
        _xc_record_sched(lines[len(defs):], ans, defs)
        out += ans
    return out


# ================================================================ schedule enumeration
def wid_for(kind, k, idx):
    """the id string caller k passes: the mDNS finder gets upper-case ids from odd callers"""
    return IDS[idx].upper() if (kind != "ble" and k % 2 == 1) else IDS[idx]


def _sym_parts(sym):
    """m0v3 -> ('m', 0, 'v', 3)"""
    return sym[0], int(sym[1]), sym[2], int(sym[3:])


BLE_REPEAT = [True]      # set False in the quick tier (the identical BLE advertisement again: thorough + directed only)


def _history_options(tr, idx, pos, last):
    """advertisement symbols offered at position pos for service/device idx of transport tr, given the last
    record processed for that service (None or (form, g)):
      a valid record with fresh content; a record of the SAME service that repeats the previous TXT rdata
      (complete now / moved to a new address+port; BLE: the identical advertisement again); an invalid one
      (mDNS rotating over: no address yet, link-local only - both with fresh TXT that a later repeat shares -
      missing id, bad integer)"""
    opts = [f"{tr}{idx}v{pos}"]
    if last is not None:
        form, g = last
        if tr == "m" and form in "vnl":
            opts.append(f"m{idx}p{g}")
        elif tr == "m" and form == "p":
            opts.append(f"m{idx}v{g}")
        elif tr == "b" and form == "v" and BLE_REPEAT[0]:
            opts.append(f"b{idx}v{g}")
    if tr == "m":
        opts.append([f"m{idx}n{pos}", f"m{idx}l{pos}", f"m{idx}i0", f"m{idx}i2"][pos % 4])
    else:
        opts.append(f"b{idx}i{pos % len(BLE_BAD)}")
    return opts


def expand(kind, prefix, depth):
    """all schedules of exactly `depth` events extending `prefix` (a list of events), each followed by a
    final flush.  Pruning (by the reference bookkeeping below, not by the model): callers start in the
    order 1,2,3; id 2 appears only after id 1 (renaming symmetry); only callers that the reference
    considers still waiting are cancelled.  Advertisements carry a per-service history, see
    _history_options."""
    trs = {"mdns": "m", "ble": "b", "agg": "mb"}[kind]
    cancels = ("C", "Cq") if kind == "ble" else ("C",)
    out = []

    def after_adv(sym, pend, known, last):
        tr, idx, form, g = _sym_parts(sym)
        last2 = dict(last)
        last2[(tr, idx)] = (form, g) if form in "vpnl" else None
        if CAT[sym]["valid"]:
            return {k: v for k, v in pend.items() if v[0] != idx}, known | {(tr, idx)}, last2
        return pend, known, last2

    def replay(evs):
        nextk, seen0, pend, now, known, last = 1, False, {}, 0, frozenset(), {}
        for ev in evs:
            if ev[0] == "F":
                idx = IDS.index(ev[2].lower())
                seen0 = True
                if not any(i == idx for (_, i) in known):
                    pend[ev[1]] = (idx, now + ev[3])
                nextk = ev[1] + 1
            elif ev[0] == "A":
                seen0 = True
                pend, known, last = after_adv(ev[1], pend, known, last)
            elif ev[0] in ("C", "Cq"):
                pend.pop(ev[1], None)
            elif ev[0] == "T":
                now += ev[1]
                pend = {k: v for k, v in pend.items() if v[1] > now}
        return nextk, seen0, pend, now, known, last

    def rec(evs, nextk, seen0, pend, now, known, last):
        pos = len(evs)
        if pos == depth:
            out.append(evs + [("T", FLUSH)])
            return
        if nextk <= 3:
            for idx in (0, 1):
                if idx == 1 and not seen0:
                    continue
                for tau in (TAU["S"], TAU["L"]):
                    p2 = dict(pend)
                    if not any(i == idx for (_, i) in known):
                        p2[nextk] = (idx, now + tau)
                    rec(evs + [("F", nextk, wid_for(kind, nextk, idx), tau)], nextk + 1, True, p2, now, known, last)
        for tr in trs:
            for idx in (0, 1):
                if idx == 1 and not seen0:
                    continue
                for sym in _history_options(tr, idx, pos, last.get((tr, idx))):
                    p2, k2, l2 = after_adv(sym, pend, known, last)
                    rec(evs + [("A", sym)], nextk, True, p2, now, k2, l2)
        for k in sorted(pend):
            for c in cancels:
                rec(evs + [(c, k)], nextk, seen0, {a: b for a, b in pend.items() if a != k}, now, known, last)
        rec(evs + [("T", DELTA)], nextk, seen0, {k: v for k, v in pend.items() if v[1] > now + DELTA}, now + DELTA, known, last)

    rec(list(prefix), *replay(prefix))
    return out


def adv_meta(ev, kind):
    c = CAT[ev[1]]
    tr = {"m": "ip", "b": "ble"}[c["tr"]] if kind == "agg" else "x"
    return dict(valid=c["valid"], id=c["id"], cn=c["cn"], sn=c["sn"], transport=tr)


def oracle_match(kind):
    """mDNS lookups are case-insensitive; the BLE finder takes the (normalised) id as given"""
    def m(tr, wid, aid):
        if kind == "ble" or tr == "ble":
            return wid == aid
        return wid.lower() == aid.lower()
    return m


def oracle_schedule(kind, events):
    """expected outcomes by the reference; returns (dict k -> canonical outcome string, ambiguous callers)"""
    ref_evs = []
    for ev in events:
        if ev[0] in ("A", "Ab"):
            if ev[0] == "Ab":
                ref_evs.append(("T", 2048))
            ref_evs.append(("A", adv_meta(ev, kind)))
        else:
            ref_evs.append(ev)
    transports = ("ip", "ble") if kind == "agg" else ("x",)
    exp, still = findref.expected(ref_evs, oracle_match(kind), transports)
    out = {}
    for k, o in exp.items():
        if o[0] == "found":
            out[k] = "found:%s:%d:%d:%d" % (hx(o[1].encode()), o[2], o[3], o[4])
        else:
            out[k] = "%s:%d" % (o[0], o[1])
    for k in still:
        out[k] = "pending"
    return out


def ambiguous_callers(kind, events):
    """aggregate only: callers that start when BOTH transports already know the device - either
    discovery is a correct answer (asyncio.wait returns a set)"""
    if kind != "agg":
        return set()
    known, amb = set(), set()
    for ev in events:
        if ev[0] == "A" and CAT[ev[1]]["valid"]:
            known.add((CAT[ev[1]]["tr"], CAT[ev[1]]["id"]))
        elif ev[0] == "F" and ("m", ev[2].lower()) in known and ("b", ev[2]) in known:
            amb.add(ev[1])
    return amb


def blur(c, amb):
    """drop cn/sn of ambiguous callers' Found outcome"""
    if not amb:
        return c
    a, r, d = c.split("|")
    cells = []
    for cell in a.split(";"):
        if cell and int(cell.split("=")[0]) in amb and "=found:" in cell:
            p = cell.split(":")
            cell = ":".join(p[:2] + ["*", "*"] + p[4:])
        cells.append(cell)
    return ";".join(cells) + "|" + r + "|" + d


def classify(kind, events, impl, model, ep=None):
    """-> list of (key, what, found_input) for one schedule (empty = fine)"""
    amb = ambiguous_callers(kind, events)
    impl_s, model_b = strip_exc(blur(impl, amb)), blur(model, amb)
    exp = oracle_schedule(kind, events)
    got = dict(cell.split("=", 1) for cell in impl.split("|")[0].split(";") if cell)
    got = {int(k): v for k, v in got.items()}
    probs = []
    raised = impl.split("|")[1]
    if raised:
        exc = raised.split(",")[0].split(":")[-1]
        probs.append((f"sched:{kind}:callback-raised:{exc}",
                      f"{kind}: the advertisement callback raised {exc} (event {raised.split(',')[0].split(':')[0]})", True))
    for k in sorted(exp):
        e, g = exp[k], got.get(k, "missing")
        if k in amb and e.startswith("found") and g.startswith("found"):
            e_p, g_p = e.split(":"), g.split(":")
            if e_p[1] == g_p[1] and e_p[4] == g_p[4]:
                continue
        if e != g:
            ek, gk = e.split(":")[0], g.split(":")[0]
            if ek == "found" and gk in ("notfound", "pending", "missing"):
                probs.append((f"sched:{kind}:lost-wakeup", f"{kind}: caller {k} must complete with {e} but got {g}", True))
            else:
                slug = f"{ek}-vs-{gk}" if ek != gk else f"{ek}-differs"
                probs.append((f"sched:{kind}:wrong-outcome:{slug}", f"{kind}: caller {k} must complete with {e} but got {g}", True))
    for k in got:
        if k not in exp:
            probs.append((f"sched:{kind}:wrong-outcome:unexpected", f"{kind}: unexpected outcome for caller {k}: {got[k]}", True))
    if ep is not None and ep != "?":
        want_ep = expected_endpoints(kind, events)
        if ep != want_ep:
            gp, wp = ep.split(" / "), want_ep.split(" / ")
            names = {"mdns": ["endpoint"], "ble": ["discovery"], "agg": ["endpoint", "discovery"]}[kind]
            for nm, g1, w1 in zip(names, gp + ["?"] * len(wp), wp):
                if g1 != w1:
                    probs.append((f"sched:{kind}:stale-{nm}",
                                  f"{kind}: discoveries must show what the latest valid advertisement of each id advertised "
                                  f"({w1}) but show {g1}", True))
    if not probs and impl_s != model_b:
        probs.append((f"sched:{kind}:model-mismatch", f"{kind}: implementation {impl_s} != model {model_b}", False))
    return probs


def sched_job(job):
    """worker: enumerate, run both sides, compare.  job = (kind, prefix, depth, driver exe)"""
    kind, prefix, depth, exe = job
    scheds = expand(kind, prefix, depth)
    t0 = time.time()
    impl, eps = run_impl(kind, scheds, want_ep=True)
    t1 = time.time()
    xc0 = len(_XC)
    model = run_model(Driver(exe, workers=1), kind, scheds)
    t2 = time.time()
    summary = dict(n=len(scheds), nontrivial=0, hist={}, problems={}, samples=[], t_impl=t1 - t0, t_model=t2 - t1,
                   checked=0)
    hist = summary["hist"]
    for evs, i, m, ep in zip(scheds, impl, model, eps):
        nw = sum(1 for e in evs if e[0] == "F")
        if nw:
            summary["nontrivial"] += 1
        amb = ambiguous_callers(kind, evs)
        fine = strip_exc(blur(i, amb)) == blur(m, amb)
        exp = oracle_schedule(kind, evs)
        got = i.split("|")[0]
        want = ";".join(f"{k}={exp[k]}" for k in sorted(exp))
        if not amb and got != want:
            fine = False
        if ep != expected_endpoints(kind, evs):
            fine = False
        for cell in got.split(";"):
            if cell:
                oc = cell.split("=")[1].split(":")[0]
                hist[oc] = hist.get(oc, 0) + 1
        hist[f"waiters={nw}"] = hist.get(f"waiters={nw}", 0) + 1
        if not fine:
            summary["checked"] += 1
            for key, what, found in classify(kind, evs, i, m, ep):
                old = summary["problems"].get(key)
                if old is None or len(evs) < len(old["events"]) or (len(evs) == len(old["events"]) and str(evs) < str(old["events"])):
                    n = 1 if old is None else old["count"] + 1
                    summary["problems"][key] = dict(what=what, found_input=found, events=evs, impl=i, model=m,
                                                    expected=want, count=n, endpoints=ep)
                else:
                    old["count"] += 1
    if scheds:
        j = (hash(str(prefix)) % len(scheds))
        summary["samples"].append(dict(stream="sched", kind=kind, events=[list(e) for e in scheds[j]], impl=impl[j]))
    summary["xc"] = _XC[xc0:]          # sampled (request, driver answer) pairs for the vm_compute cross-check
    return summary


def run_sched_stream(ctx, cov, viols, timing):
    tier, exe = ctx["tier"], ctx["driver"]
    depths = {"quick": dict(mdns=6, ble=6, agg=5), "thorough": dict(mdns=7, ble=7, agg=6)}[tier]
    BLE_REPEAT[0] = tier != "quick"
    jobs = []
    for kind, depth in depths.items():
        split = 2 if depth <= 5 else 3
        for pre in expand(kind, [], split):
            jobs.append((kind, pre[:-1], depth, exe))        # drop the flush of the prefix
    # biggest subtrees first
    jobs.sort(key=lambda j: (-sum(1 for e in j[1] if e[0] == "F"), str(j[1])))
    t0 = time.time()
    tot = dict(mdns=0, ble=0, agg=0)
    probs = {}
    with multiprocessing.get_context("fork").Pool(WORKERS) as pool:
        for (kind, pre, depth, _), s in zip(jobs, pool.imap(sched_job, jobs, chunksize=1)):
            tot[kind] += s["n"]
            _XC.extend(s.get("xc", ()))
            cov.evaluations += s["n"]
            cov._distinct.update(range(cov.extra.get("_next", 0), cov.extra.get("_next", 0) + s["nontrivial"]))
            cov.extra["_next"] = cov.extra.get("_next", 0) + s["nontrivial"]
            for k, v in s["hist"].items():
                cov.hist["sched_" + kind][k] += v
            for smp in s["samples"]:
                if len(cov.samples) < 6 and smp["events"] and len(smp["events"]) > 3:
                    cov.samples.append(smp)
            timing["sched_impl_cpu"] = timing.get("sched_impl_cpu", 0) + s["t_impl"]
            timing["sched_model_cpu"] = timing.get("sched_model_cpu", 0) + s["t_model"]
            cov.extra["disagreements_checked"] = cov.extra.get("disagreements_checked", 0) + s["checked"]
            for key, p in s["problems"].items():
                old = probs.get(key)
                if old is None:
                    probs[key] = p
                else:
                    cnt = old["count"] + p["count"]
                    if len(p["events"]) < len(old["events"]):
                        probs[key] = p
                    probs[key]["count"] = cnt
    cov.extra.pop("_next", None)
    timing["sched_wall"] = round(time.time() - t0, 1)
    cov.extra["schedules"] = dict(tot, depth=depths)
    for key, p in sorted(probs.items()):
        small = shrink_schedule(p["events"], key.split(":")[1], key, exe)
        what = next((w for k2, w, _ in classify(key.split(":")[1], small["events"], small["impl"], small["model"],
                                                small["endpoints"]) if k2 == key), p["what"])
        viols.append(violation(key, what + f" [{p['count']} schedules]", p["found_input"], stream="sched",
                               kind=key.split(":")[1], events=[list(e) for e in small["events"]], impl=small["impl"],
                               model=small["model"], expected=small["expected"], endpoints=small["endpoints"],
                               expected_endpoints=small["expected_endpoints"],
                               advertisements={e[1]: _adv_repr(e[1]) for e in small["events"] if e[0] in ("A", "Ab")},
                               **({} if p["found_input"] else dict(broken="correspondence Model/Find.v <-> controllers"))))


def _adv_repr(sym):
    c = CAT[sym]
    if c["tr"] == "m":
        name, ty, addrs, port, txt = c["args"]
        return dict(transport="mdns", name=name.decode(), addresses=[str(ipaddress.ip_address(a)) for a in addrs], port=port,
                    txt=hx(txt), valid=c["valid"])
    return dict(transport="ble", manufacturer_data_76=None if c["md"] is None else hx(c["md"]), valid=c["valid"])


def shrink_schedule(events, kind, key, exe):
    """drop events while the same violation key persists"""
    drv = Driver(exe, workers=1)

    def probe(evs):
        ii, ee = run_impl(kind, [evs], want_ep=True)
        m = run_model(drv, kind, [evs])[0]
        return ii[0], m, [k for k, _, _ in classify(kind, evs, ii[0], m, ee[0])], ee[0]
    cur = list(events)
    i = 0
    while i < len(cur) - 1:
        cand = cur[:i] + cur[i + 1:]
        started = set()
        ok = True
        for e in cand:               # keep handles well-formed: cancel only started callers
            if e[0] == "F":
                started.add(e[1])
            elif e[0] in ("C", "Cq") and e[1] not in started:
                ok = False
        if ok and key in probe(cand)[2]:
            cur = cand
        else:
            i += 1
    im, mo, _, ee = probe(cur)
    exp = oracle_schedule(kind, cur)
    return dict(events=cur, impl=im, model=mo, expected=";".join(f"{k}={exp[k]}" for k in sorted(exp)),
                endpoints=ee, expected_endpoints=expected_endpoints(kind, cur))


# ================================================================ case-variant / browser-path / pairing schedules
def pairing_situations(pid):
    """label -> events that bring the controller into that situation for id pid.  A shut-down pairing
    (pairing.shutdown(), e.g. after the pairing was removed) stays in controller.pairings."""
    return [("none", []), ("state", [("L", pid, True)]), ("nostate", [("L", pid, False)]),
            ("state-shutdown", [("L", pid, True), ("S", pid)]), ("nostate-shutdown", [("L", pid, False), ("S", pid)])]


def pairing_label(evs):
    lab = next(("state" if e[2] else "nostate" for e in evs if e[0] == "L"), "none")
    return lab + ("-shutdown" if any(e[0] == "S" for e in evs) else "")


def extra_schedules():
    """directed schedules outside the enumeration alphabet: id case variants on every controller, the
    browser path of the mDNS controller, the three pairing situations"""
    X, Y = IDS
    out = []
    variants = [X, X.upper(), X.title(), "Aa:bB:Cc:00:00:01"]
    for kind in ("mdns", "ble", "agg"):
        advs = {"mdns": ["m0v1", "m0v2"], "ble": ["b0v1"], "agg": ["m0v1", "b0v2"]}[kind]
        for w in variants:
            for a in advs:
                out.append((kind, [("F", 1, w, 8), ("T", 5), ("A", a), ("T", FLUSH)]))
                out.append((kind, [("A", a), ("F", 1, w, 8), ("T", FLUSH)]))
                out.append((kind, [("F", 1, w, 8), ("F", 2, Y, 16), ("A", a), ("T", FLUSH)]))
    for kind, a in (("mdns", "m0v1"), ("ble", "b0v1"), ("agg", "m0v1"), ("agg", "b0v1")):   # zero timeout; long timeouts
        out.append((kind, [("F", 1, X, 0), ("A", a), ("F", 2, X, 0), ("T", FLUSH)]))
        out.append((kind, [("F", 1, X, 0), ("F", 2, X, 1), ("T", 1), ("A", a), ("T", FLUSH)]))
        out.append((kind, [("F", 1, X, 40960), ("F", 2, Y, 122880), ("T", 40959), ("A", a), ("T", 81920), ("T", 2)]))
    # one service name / one BLE address with a history: the later record is judged like a first one
    hist_m = [["m0n1", "m0v1"], ["m0n1", "m0p1"], ["m0l2", "m0v2"], ["m0l2", "m0p2"], ["m0v1", "m0p1"], ["m0v1", "m0p1", "m0v1"],
              ["m0i0", "m0v1"], ["m0i2", "m0v1"], ["m0v1", "m1v2", "m0p1"], ["m0v1", "m1v2", "m0v1"], ["m0n1", "m1n2", "m1v2", "m0v1"],
              ["m0n1", "m0n1", "m0v1"], ["m0v1", "m0n1", "m0p1"], ["m0v1", "m0v3", "m0p3"],
              # configuration / state numbers going DOWN between records of one id (wrap, reset): the latest one counts
              ["m0v0", "m0v1"], ["m0v1", "m0v2"], ["m0v3", "m0v4"], ["m0v5", "m0v6", "m0v7"]]
    hist_b = [["b0i0", "b0v1"], ["b0i1", "b0v1"], ["b0i3", "b0v1"], ["b0v1", "b0v1"], ["b0v1", "b0v2"], ["b0v1", "b1v2", "b0v1"],
              ["b0v1", "b0i0", "b0v1"], ["b0v1", "b0i0", "b0v3"],
              ["b0v0", "b0v1", "b0v2"], ["b0v3", "b0v4"], ["b0v4", "b0v5"], ["b0v6", "b0v7"], ["b0v3", "b0i0", "b0v2"]]
    for kind, hists in (("mdns", hist_m), ("agg", hist_m + hist_b), ("ble", hist_b)):
        for h in hists:
            wid = X.upper() if kind == "mdns" else X
            advs = [("A", a) for a in h]
            out.append((kind, [("F", 1, wid, 16)] + advs[:1] + [("T", 5)] + advs[1:] + [("T", FLUSH)]))
            out.append((kind, advs[:1] + [("F", 1, wid, 16), ("F", 2, Y, 8)] + advs[1:] + [("T", FLUSH)]))
            out.append((kind, advs + [("F", 1, wid, 16), ("T", FLUSH)]))
            out.append((kind, advs[:-1] + [("F", 1, wid, 16), ("T", 5)] + advs[-1:] + [("T", FLUSH)]))
            if kind == "mdns":
                out.append((kind, [("F", 1, wid, 8192)] + [("Ab", a) for a in h] + [("T", 16384)]))
                out.append((kind, [("Ab", a) for a in h[:-1]] + [("F", 1, wid, 8192), ("Ab", h[-1]), ("T", 16384)]))
    # browser path with goodbye packets in between
    for a, b in (("m0n1", "m0v1"), ("m0l2", "m0p2"), ("m0v1", "m0p1"), ("m0v1", "m0v3"), ("m0i0", "m0v1")):
        out.append(("mdns", [("F", 1, X, 16384), ("Ab", a), ("Rb", a), ("Ab", b), ("T", 32768)]))
        out.append(("mdns", [("Ab", a), ("Rb", a), ("F", 1, X.upper(), 16384), ("Ab", b), ("Rb", b), ("T", 32768)]))
        out.append(("mdns", [("F", 1, X, 16384), ("F", 2, Y, 16384), ("Ab", a), ("Ab", "m1v4"), ("Ab", b), ("Ab", "m1p4"), ("T", 32768)]))
    # histories under every pairing situation (incl. a pairing that was shut down and is still listed)
    for kind, hists, w in (("mdns", hist_m[:6], X.upper()), ("ble", hist_b, X)):
        for h in hists:
            for lab, load in pairing_situations(X):
                if lab == "none":
                    continue
                advs = [("A", a) for a in h]
                out.append((kind, load + [("F", 1, w, 16)] + advs + [("T", FLUSH)]))
                out.append((kind, advs[:1] + load + [("F", 1, w, 16), ("F", 2, Y, 8)] + advs[1:] + [("T", FLUSH)]))
                out.append((kind, [("F", 1, w, 16), ("L", X, "state" in lab and "nostate" not in lab)] + advs[:1]
                            + ([("S", X)] if "shutdown" in lab else []) + advs[1:] + [("T", FLUSH)]))
    for sym in ("m0v1", "m0v2", "m1v3", "m0i0", "m0i1", "m0i2"):
        out.append(("mdns", [("F", 1, X, 4096), ("Ab", sym), ("T", 8192)]))
        out.append(("mdns", [("Ab", sym), ("F", 1, X.upper(), 8), ("T", FLUSH)]))
        out.append(("mdns", [("F", 1, X, 1024), ("Ab", sym), ("T", 8192)]))     # expires before the record is resolved
    for kind, syms in (("mdns", [s for s in CAT if s[0] == "m" and s[1] == "0"]), ("ble", [s for s in CAT if s[0] == "b" and s[1] == "0"])):
        for sym in syms:
            for _, load in pairing_situations(X):
                out.append((kind, load + [("A", sym), ("F", 1, X, 8), ("T", FLUSH)]))
                out.append((kind, load + [("F", 1, X, 8), ("A", sym), ("A", sym), ("T", FLUSH)]))
                out.append((kind, [("A", sym)] + load + [("F", 1, X, 8), ("Cq", 1), ("A", sym), ("T", FLUSH)]))
                if kind == "mdns":
                    out.append((kind, load + [("F", 1, X, 4096), ("Ab", sym), ("T", 8192)]))
    return out


def run_extra_stream(ctx, cov, viols):
    drv = Driver(ctx["driver"], workers=1)
    cases = extra_schedules()
    by_kind = {}
    for kind, evs in cases:
        by_kind.setdefault(kind, []).append(evs)
    for kind, scheds in by_kind.items():
        impl, eps = run_impl(kind, scheds, want_ep=True)
        model = run_model(drv, kind, scheds)
        for evs, i, m, ep in zip(scheds, impl, model, eps):
            pairing = pairing_label(evs)
            probs = classify(kind, evs, i, m, ep)
            cov.case("x" + kind + repr(evs), True,
                     sample=dict(stream="extra", kind=kind, events=[list(e) for e in evs], impl=i) if cov.evaluations % 97 == 0 else None,
                     extra_kind=kind, extra_pairing=pairing)
            if probs:
                cov.extra["disagreements_checked"] = cov.extra.get("disagreements_checked", 0) + 1
            for key, what, found in probs:
                if "callback-raised" in key:
                    key = key.replace("sched:", "callback:") + ":pairing-" + pairing
                else:
                    key = key.replace("sched:", "extra:")
                viols.append(violation(key, what + f" (pairing situation: {pairing})", found, stream="extra", kind=kind,
                                       events=[list(e) for e in evs], impl=i, model=m, endpoints=ep,
                                       expected_endpoints=expected_endpoints(kind, evs),
                                       advertisements={e[1]: _adv_repr(e[1]) for e in evs if e[0] in ("A", "Ab")}))


# ================================================================ several controllers alive in ONE process
# The aggregate Controller owns an IpController (_hap._tcp), a CoAPController (_hap._udp) - both ZeroconfController,
# sharing one zeroconf instance - and a BleController; applications also run several controllers of one class.
# Model/FindWorld.v: a world is a list of controllers with their OWN tables; controller j behaves exactly as on
# its own history (controllers_in_one_process_do_not_interfere).  Here: the real controllers of a world live on
# one loop, events are addressed to one of them, every controller is judged on ITS projection of the history by
# the reference, the model and the discovery-contents rule.
WORLDS = {
    "ip+coap": [("ip", 0), ("coap", 0)],               # as the aggregate builds them: one zeroconf instance
    "ip+ip": [("ip", 0), ("ip", 1)],                   # two controllers on their own zeroconf instances
    "ip+ip-shared": [("ip", 0), ("ip", 0)],            # two controllers on one zeroconf instance
    "coap+coap": [("coap", 0), ("coap", 1)],
    "ble+ble": [("ble", None), ("ble", None)],
    "ip+coap+ble": [("ip", 0), ("coap", 0), ("ble", None)],
}
W_PREFIX = {"ip": "m", "coap": "u", "ble": "b"}
W_MODEL = {"ip": "mdns", "coap": "mdns", "ble": "ble"}
W_CLASS = {"ip": "IpDiscovery", "coap": "CoAPDiscovery", "ble": "BleDiscovery"}
W_TYPE = {"m": HAP_TCP, "u": HAP_UDP}


def _discs_of(ctrl):
    return ",".join(sorted(f"{hx(str(k).encode())}:{_ti(getattr(v.description, 'config_num', None), 'cn')}"
                           f":{_ti(getattr(v.description, 'state_num', None), 'sn')}" for k, v in ctrl.discoveries.items())) or "-"


async def exec_world(loop, world, events, objs):
    """events: ("F",c,k,id,tau) ("A",c,sym) ("Ab",c,sym) ("C",k) ("Cq",k) ("T",delta) ("X",c).
    -> [(canonical result, discovery contents)] per controller of the world"""
    from aiohomekit.characteristic_cache import CharacteristicCacheMemory
    from aiohomekit.exceptions import AccessoryNotFoundError
    spec = WORLDS[world]
    zcs, ctls = {}, []
    for ck, z in spec:
        cache = CharacteristicCacheMemory()
        if ck == "ble":
            from aiohomekit.controller.ble.controller import BleController
            ctl = BleController(cache)
        else:
            azc = zcs.setdefault(z, _FakeAsyncZeroconf())
            if ck == "ip":
                from aiohomekit.controller.ip.controller import IpController
                ctl = IpController(char_cache=cache, zeroconf_instance=azc)
            else:
                from aiohomekit.controller.coap.controller import CoAPController
                ctl = CoAPController(char_cache=cache, zeroconf_instance=azc)
        await ctl.async_start()
        ctls.append(ctl)
    n = len(ctls)
    t0 = loop.ticks
    res, raised, tasks, owner = [dict() for _ in range(n)], [[] for _ in range(n)], {}, {}
    ticks = vloop.TICKS

    async def waiter(c, k, wid, tau):
        try:
            d = await ctls[c].async_find(wid, tau / ticks)
            desc = d.description
            own = type(d).__name__ == W_CLASS[spec[c][0]] and getattr(d, "controller", None) is ctls[c]
            res[c][k] = "%s:%s:%s:%s:%d" % ("found" if own else "foundforeign-" + type(d).__name__, hx(str(desc.id).encode()),
                                            _ti(desc.config_num, "cn"), _ti(desc.state_num, "sn"), loop.ticks - t0)
        except AccessoryNotFoundError:
            res[c][k] = "notfound:%d" % (loop.ticks - t0)
        except asyncio.CancelledError:
            res[c][k] = "cancelled:%d" % (loop.ticks - t0)
        except BaseException as e:  # noqa
            res[c][k] = "other-%s:%d" % (type(e).__name__, loop.ticks - t0)

    for idx, ev in enumerate(events):
        op = ev[0]
        nerr = len(loop.errors)
        blame = ev[1] if op in ("F", "A", "Ab", "X") else None
        try:
            if op == "F":
                tasks[ev[2]] = loop.create_task(waiter(ev[1], ev[2], ev[3], ev[4]))
                owner[ev[2]] = ev[1]
            elif op == "A":
                if spec[ev[1]][0] == "ble":
                    ctls[ev[1]]._scanner.cb(*objs[ev[2]])
                else:
                    ctls[ev[1]]._async_handle_loaded_service_info(objs[ev[2]])
            elif op == "Ab":
                from zeroconf import ServiceStateChange
                info = objs[ev[2]]
                _scripted[info.name] = info
                zc = ctls[ev[1]]._async_zeroconf_instance.zeroconf
                for h in list(zc.listeners[0]._handlers):
                    h(zeroconf=zc, service_type=info.type, name=info.name, state_change=ServiceStateChange.Added)
            elif op in ("C", "Cq"):
                if ev[1] in tasks:
                    tasks[ev[1]].cancel()
            elif op == "T":
                await vloop.sleep_ticks(ev[1])
            elif op == "X":
                await ctls[ev[1]].async_stop()
        except vloop.Stalled:
            raise
        except Exception as e:  # noqa
            if blame is not None:
                raised[blame].append("%d:%s" % (idx, type(e).__name__))
        if op == "Ab":
            await vloop.sleep_ticks(2048)
        if op != "Cq":
            await settle(loop)
        for ctx in loop.errors[nerr:]:
            for c in ([blame] if blame is not None else range(n)):
                raised[c].append("%d:%s" % (idx, type(ctx.get("exception")).__name__))
    await settle(loop)
    for k, t in tasks.items():
        if not t.done():
            res[owner[k]].setdefault(k, "pending")
            t.cancel()
    out = []
    for c, ctl in enumerate(ctls):
        cont = _ble_contents(ctl) if spec[c][0] == "ble" else _mdns_contents(ctl)
        out.append((canon(res[c], raised[c], _discs_of(ctl)), cont))
    for ctl in ctls:
        try:
            await ctl.async_stop()
        except Exception:  # noqa
            pass
    await settle(loop)
    return out


def world_proj(world, c, events):
    """the history of controller c alone (same length as the world history: foreign events become 'the loop runs')"""
    spec = WORLDS[world]
    owner, out, stopped = {}, [], set()
    for ev in events:
        op = ev[0]
        if op == "X":
            stopped.add(ev[1])
        if c in stopped and op in ("A", "Ab"):       # a stopped controller has unregistered its browser handler
            out.append(("T", 2048 if op == "Ab" else 0))
        elif op == "F":
            owner[ev[2]] = ev[1]
            out.append(("F", ev[2], ev[3], ev[4]) if ev[1] == c else ("T", 0))
        elif op == "A":
            out.append(("A", ev[2]) if ev[1] == c else ("T", 0))
        elif op == "Ab":
            # every controller registered with that zeroconf instance gets the browser event; it looks at its own type only
            same_zc = spec[c][0] != "ble" and spec[c][1] == spec[ev[1]][1]
            mine = same_zc and W_TYPE[ev[2][0]] == W_TYPE[W_PREFIX[spec[c][0]]]
            out.append(("Ab", ev[2]) if mine else ("T", 2048))
        elif op in ("C", "Cq"):
            out.append((op, ev[1]) if owner.get(ev[1]) == c else ("T", 0))
        elif op == "T":
            out.append(ev)
        else:
            out.append(("T", 0))
    return out


def run_world_impl(world, scheds):
    out = []
    with Patches():
        objs = impl_objects()
        for i in range(0, len(scheds), 300):
            part = scheds[i:i + 300]

            async def main(loop, part=part):
                for evs in part:
                    try:
                        r = await exec_world(loop, world, evs, objs)
                    except vloop.Stalled:
                        raise
                    except Exception as e2:  # noqa
                        r = [("harness-error:%s:%s||" % (type(e2).__name__, str(e2)[:80].replace("|", "/")), "?")] * len(WORLDS[world])
                    out.append(r)
            vloop.run(main)
    return out


def world_classify(world, evs, impl_row, model_row):
    """-> [(key, what, found_input, controller index)]"""
    spec = WORLDS[world]
    probs = []
    for c, (ck, _) in enumerate(spec):
        (i, ep), m = impl_row[c], model_row[c]
        pe = world_proj(world, c, evs)
        # (a discovery of another controller / class handed to a caller shows as outcome 'foundforeign-<class>')
        for key, what, found in classify(W_MODEL[ck], pe, i, m, ep):
            key = key.replace("sched:" + W_MODEL[ck], f"multi:{world}:{ck}{c}")
            probs.append((key, f"world {world}, controller {c} ({ck}): " + what, found, c))
    return probs


def expand_world(world, prefix, depth):
    """all world histories of exactly `depth` events extending prefix, then a flush.  Alphabet per position: a caller
    starts on controller c for id 1 (timeout 8|16); controller c processes a valid advertisement for id 1 / for id 2 /
    an invalid one; a waiting caller is cancelled (BLE: also without letting the loop run); 5 ticks pass."""
    spec = WORLDS[world]
    out = []

    def rec(evs, nextk, pend, now):
        pos = len(evs)
        if pos == depth:
            out.append(evs + [("T", FLUSH)])
            return
        for c, (ck, _) in enumerate(spec):
            if nextk <= 3:
                for tau in (TAU["S"], TAU["L"]):
                    rec(evs + [("F", c, nextk, wid_for(W_MODEL[ck], nextk, 0), tau)], nextk + 1, {**pend, nextk: (c, now + tau)}, now)
            pre = W_PREFIX[ck]
            bad = f"b0i{pos % len(BLE_BAD)}" if ck == "ble" else f"{pre}0i{pos % len(MDNS_BAD)}"
            for sym in (f"{pre}0v{pos}", f"{pre}1v{pos}", bad):
                p2 = {k: v for k, v in pend.items() if v[0] != c} if sym[1:3] == "0v" else pend
                rec(evs + [("A", c, sym)], nextk, p2, now)
        for k in sorted(pend):
            for cop in (("C", "Cq") if spec[pend[k][0]][0] == "ble" else ("C",)):
                rec(evs + [(cop, k)], nextk, {a: b for a, b in pend.items() if a != k}, now)
        rec(evs + [("T", DELTA)], nextk, {k: v for k, v in pend.items() if v[1] > now + DELTA}, now + DELTA)

    nextk, pend, now = 1, {}, 0
    for ev in prefix:
        if ev[0] == "F":
            pend[ev[2]] = (ev[1], now + ev[4])
            nextk = ev[2] + 1
        elif ev[0] == "A" and ev[2][1:3] == "0v":
            pend = {k: v for k, v in pend.items() if v[0] != ev[1]}
        elif ev[0] in ("C", "Cq"):
            pend.pop(ev[1], None)
        elif ev[0] == "T":
            now += ev[1]
            pend = {k: v for k, v in pend.items() if v[1] > now}
    rec(list(prefix), nextk, pend, now)
    return out


def world_directed():
    """directed world histories: the browser path (one browser event reaches every controller registered with that
    zeroconf instance), a controller being stopped while the others go on, numbers going down between advertisements"""
    X = IDS[0]
    out = []
    for world, spec in WORLDS.items():
        n = len(spec)
        for a in range(n):
            for b in range(n):
                if a == b:
                    continue
                pa, pb = W_PREFIX[spec[a][0]], W_PREFIX[spec[b][0]]
                # both wait, only b's transport announces the device
                out.append((world, [("F", a, 1, X, 16), ("F", b, 2, X, 16), ("A", b, pb + "0v1"), ("T", FLUSH)]))
                out.append((world, [("F", a, 1, X, 16), ("A", b, pb + "0v1"), ("F", b, 2, X, 16), ("T", 5), ("A", a, pa + "0v2"), ("T", FLUSH)]))
                out.append((world, [("A", b, pb + "0v1"), ("F", a, 1, X, 8), ("F", b, 2, X, 8), ("T", FLUSH)]))
                # b is stopped; a goes on (waiters, advertisements, browser debounce timers)
                out.append((world, [("F", a, 1, X, 16), ("X", b), ("A", a, pa + "0v1"), ("T", FLUSH)]))
                out.append((world, [("A", a, pa + "0v1"), ("A", a, pa + "0v2"), ("X", b), ("A", a, pa + "0v3"), ("F", a, 1, X, 8), ("T", FLUSH)]))
                if spec[a][0] != "ble":
                    out.append((world, [("F", a, 1, X, 16384), ("F", b, 2, X, 16384), ("Ab", a, pa + "0v1"), ("T", 32768)]))
                    out.append((world, [("F", a, 1, X, 16384), ("X", b), ("Ab", a, pa + "0v1"), ("T", 32768)]))
                    if spec[b][0] != "ble":
                        out.append((world, [("F", a, 1, X, 16384), ("F", b, 2, X, 16384), ("Ab", a, pa + "0v1"), ("Ab", b, pb + "0v2"),
                                            ("Ab", a, pa + "0v3"), ("T", 32768)]))
        # every ordered pair of catalogue indexes on each controller, the other one watching: numbers go up and down
        for c in range(n):
            pc = W_PREFIX[spec[c][0]]
            o = (c + 1) % n
            for g1 in range(8):
                for g2 in range(8):
                    if g1 != g2:
                        out.append((world, [("F", o, 1, X, 16), ("A", c, f"{pc}0v{g1}"), ("A", c, f"{pc}0v{g2}"), ("F", c, 2, X, 8), ("T", FLUSH)]))
    return out


def world_job(job):
    world, prefix, depth, exe = job
    scheds = expand_world(world, prefix, depth) if depth is not None else prefix
    t0 = time.time()
    impl = run_world_impl(world, scheds)
    t1 = time.time()
    drv = Driver(exe, workers=1)
    spec = WORLDS[world]
    models = []
    for c, (ck, _) in enumerate(spec):
        models.append(run_model(drv, W_MODEL[ck], [world_proj(world, c, evs) for evs in scheds]))
    summary = dict(n=len(scheds), hist={}, problems={}, samples=[], checked=0, t_impl=t1 - t0, t_model=time.time() - t1)
    hist = summary["hist"]
    for j, evs in enumerate(scheds):
        row_m = [models[c][j] for c in range(len(spec))]
        fine = True
        for c, (ck, _) in enumerate(spec):
            i, ep = impl[j][c]
            pe = world_proj(world, c, evs)
            exp = oracle_schedule(W_MODEL[ck], pe)
            want = ";".join(f"{k}={exp[k]}" for k in sorted(exp))
            if strip_exc(i) != row_m[c] or i.split("|")[0] != want or ep != expected_endpoints(W_MODEL[ck], pe):
                fine = False
            for cell in i.split("|")[0].split(";"):
                if cell:
                    oc = cell.split("=")[1].split(":")[0]
                    hist[oc] = hist.get(oc, 0) + 1
        nf = sorted(ev[1] for ev in evs if ev[0] == "F")
        na = sorted({ev[1] for ev in evs if ev[0] in ("A", "Ab")})
        tag = "waiters_on=%s adverts_on=%s" % ("".join(map(str, nf)) or "-", "".join(map(str, na)) or "-")
        hist[tag] = hist.get(tag, 0) + 1
        if not fine:
            summary["checked"] += 1
            for key, what, found, c in world_classify(world, evs, impl[j], row_m):
                old = summary["problems"].get(key)
                if old is None or len(evs) < len(old["events"]):
                    summary["problems"][key] = dict(what=what, found_input=found, events=evs, world=world, controller=c,
                                                    count=(1 if old is None else old["count"] + 1))
                else:
                    old["count"] += 1
    if scheds:
        j = hash(str(prefix)) % len(scheds)
        summary["samples"].append(dict(stream="multi", world=world, events=[list(e) for e in scheds[j]], impl=[x[0] for x in impl[j]]))
    return summary


def world_probe(world, evs, exe):
    impl = run_world_impl(world, [evs])[0]
    drv = Driver(exe, workers=1)
    models = [run_model(drv, W_MODEL[ck], [world_proj(world, c, evs)])[0] for c, (ck, _) in enumerate(WORLDS[world])]
    return impl, models, world_classify(world, evs, impl, models)


def shrink_world(world, events, key, exe):
    cur = list(events)
    i = 0
    while i < len(cur) - 1:
        cand = cur[:i] + cur[i + 1:]
        started = set()
        ok = True
        for e in cand:
            if e[0] == "F":
                started.add(e[2])
            elif e[0] in ("C", "Cq") and e[1] not in started:
                ok = False
        if ok and any(k == key for k, _, _, _ in world_probe(world, cand, exe)[2]):
            cur = cand
        else:
            i += 1
    return cur


def run_world_stream(ctx, cov, viols, timing):
    tier, exe = ctx["tier"], ctx["driver"]
    t0 = time.time()
    jobs = []
    for world, spec in WORLDS.items():
        depth = (4 if world == "ip+coap" else 3) + (1 if tier != "quick" else 0)
        for pre in expand_world(world, [], 1):
            jobs.append((world, pre[:-1], depth, exe))
    directed = world_directed()
    by_world = {}
    for world, evs in directed:
        by_world.setdefault(world, []).append(evs)
    for world, lst in by_world.items():
        jobs.append((world, lst, None, exe))
    probs, tot = {}, {}
    with multiprocessing.get_context("fork").Pool(WORKERS) as pool:
        for (world, pre, depth, _), s in zip(jobs, pool.imap(world_job, jobs, chunksize=1)):
            tot[world] = tot.get(world, 0) + s["n"]
            cov.evaluations += s["n"]
            base = cov.extra.get("_nextw", 0)
            cov._distinct.update(("w", x) for x in range(base, base + s["n"]))
            cov.extra["_nextw"] = base + s["n"]
            for k, v in s["hist"].items():
                cov.hist["multi_" + world][k] += v
            for smp in s["samples"]:
                if sum(1 for x in cov.samples if x.get("stream") == "multi") < 3:
                    cov.samples.append(smp)
            timing["multi_impl_cpu"] = timing.get("multi_impl_cpu", 0) + s["t_impl"]
            timing["multi_model_cpu"] = timing.get("multi_model_cpu", 0) + s["t_model"]
            cov.extra["disagreements_checked"] = cov.extra.get("disagreements_checked", 0) + s["checked"]
            for key, p in s["problems"].items():
                old = probs.get(key)
                if old is None:
                    probs[key] = p
                else:
                    cnt = old["count"] + p["count"]
                    if len(p["events"]) < len(old["events"]):
                        probs[key] = p
                    probs[key]["count"] = cnt
    cov.extra.pop("_nextw", None)
    for key, p in sorted(probs.items()):
        small = shrink_world(p["world"], p["events"], key, exe)
        impl, models, cl = world_probe(p["world"], small, exe)
        what = next((w for k2, w, _, _ in cl if k2 == key), p["what"])
        c = p["controller"]
        pe = world_proj(p["world"], c, small)
        exp = oracle_schedule(W_MODEL[WORLDS[p["world"]][c][0]], pe)
        viols.append(violation(key, what + f" [{p['count']} histories]", p["found_input"], stream="multi", world=p["world"],
                               controllers=[ck for ck, _ in WORLDS[p["world"]]], events=[list(e) for e in small],
                               impl=[x[0] for x in impl], discovery_contents=[x[1] for x in impl], model=models,
                               controller=c, projected_history=[list(e) for e in pe],
                               expected=";".join(f"{k}={exp[k]}" for k in sorted(exp)),
                               expected_discovery_contents=expected_endpoints(W_MODEL[WORLDS[p["world"]][c][0]], pe),
                               advertisements={e[2]: _adv_repr(e[2]) for e in small if e[0] in ("A", "Ab")},
                               **({} if p["found_input"] else dict(broken="correspondence Model/FindWorld.v <-> controllers sharing a process"))))
    timing["multi_wall"] = round(time.time() - t0, 1)
    for k in ("multi_impl_cpu", "multi_model_cpu"):
        timing[k] = round(timing.get(k, 0), 1)
    cov.extra["multi_histories"] = tot


# ================================================================ parse streams
def fmt_addr(s):
    ip = ipaddress.ip_address(str(s).split("%")[0])
    return ("4:" if ip.version == 4 else "6:") + ip.packed.hex()


# ---------------------------------------------------------------- total extractors: a check stays standing on broken code
def _tx(x, field="?"):
    """text field -> hex; a value of an unexpected type becomes part of the compared outcome"""
    if isinstance(x, str):
        return hx(x.encode("utf-8", "surrogatepass"))
    if isinstance(x, (bytes, bytearray)):
        return hx(bytes(x))
    return "other:%s:%s" % (field, type(x).__name__)


def _ti(x, field="?"):
    """integer field -> decimal"""
    try:
        return str(int(x))
    except Exception:  # noqa
        return "other:%s:%s" % (field, type(x).__name__)


def _ta(x, field="?"):
    try:
        return fmt_addr(x)
    except Exception:  # noqa
        return "other:%s:%s" % (field, type(x).__name__)


def total(fn):
    """an exception in the harness's own handling of one case is that case's outcome, never a harness exception"""
    def wrapped(*a, **k):
        try:
            return fn(*a, **k)
        except Exception as e:  # noqa
            return "harness-post:%s:%s" % (fn.__name__, type(e).__name__)
    wrapped.__name__ = fn.__name__
    return wrapped


@total
def impl_psvc(args):
    from aiohomekit.zeroconf import HomeKitService
    try:
        info = make_info(args)
    except Exception as e:  # noqa
        return "unbuildable:" + type(e).__name__
    try:
        s = HomeKitService.from_service_info(info)
    except ValueError:
        return "err value"
    except Exception as e:  # noqa
        return "other:" + type(e).__name__
    return ("ok name=%s id=%s md=%s cn=%s sn=%s ff=%s sf=%s ci=%s pv=%s type=%s addr=%s addrs=%s port=%s" % (
        _tx(s.name, "name"), _tx(s.id, "id"), _tx(s.model, "md"), _ti(s.config_num, "cn"), _ti(s.state_num, "sn"),
        _ti(s.feature_flags, "ff"), _ti(s.status_flags, "sf"), _ti(s.category, "ci"), _tx(s.protocol_version, "pv"),
        _tx(s.type, "type"), _ta(s.address, "addr"),
        (",".join(_ta(a, "addrs") for a in s.addresses) or "-") if isinstance(s.addresses, (list, tuple)) else "other:addrs:" + type(s.addresses).__name__,
        _ti(s.port, "port")))


@total
def impl_padv(md):
    from aiohomekit.controller.ble.manufacturer_data import HomeKitAdvertisement
    try:
        a = HomeKitAdvertisement.from_manufacturer_data("Dev", "00:11:22:33:44:55", {} if md is None else {76: md})
    except ValueError:
        return "err value"
    except Exception as e:  # noqa
        return "other:" + type(e).__name__
    return "ok id=%s cat=%s sf=%s cn=%s sn=%s sh=%s" % (_tx(a.id, "id"), _ti(a.category, "cat"), _ti(a.status_flags, "sf"),
                                                        _ti(a.config_num, "cn"), _ti(a.state_num, "sn"), _tx(a.setup_hash, "sh"))


@total
def impl_pnot(md):
    from aiohomekit.controller.ble.manufacturer_data import HomeKitEncryptedNotification
    try:
        a = HomeKitEncryptedNotification.from_manufacturer_data("Dev", "00:11:22:33:44:55", {} if md is None else {76: md})
    except ValueError:
        return "err value"
    except Exception as e:  # noqa
        return "other:" + type(e).__name__
    return "ok id=%s advid=%s payload=%s" % (_tx(a.id, "id"), _tx(a.advertising_identifier, "advid"), _tx(a.encrypted_payload, "payload"))


def blur_neg(model, impl):
    """IntFlag(negative) is folded into the defined bits by the enum machinery; not modelled"""
    if not (model.startswith("ok ") and impl.startswith("ok ")):
        return model, impl
    mf, jf = model.split(" "), impl.split(" ")
    for n, (a, b) in enumerate(zip(mf, jf)):
        if a[:3] in ("ff=", "sf=", "ci=") and a[3:4] == "-":
            mf[n] = jf[n] = a[:3] + "neg"
    return " ".join(mf), " ".join(jf)


POOL = [socket.inet_aton("10.0.0.1"), socket.inet_aton("169.254.1.2"), socket.inet_aton("0.0.0.0"),
        socket.inet_aton("192.168.1.5"), socket.inet_aton("169.253.255.255"),
        socket.inet_pton(socket.AF_INET6, "fe80::1"), socket.inet_pton(socket.AF_INET6, "::"),
        socket.inet_pton(socket.AF_INET6, "2001:db8::1"), socket.inet_pton(socket.AF_INET6, "febf::1"),
        socket.inet_pton(socket.AF_INET6, "fec0::1"), socket.inet_pton(socket.AF_INET6, "::ffff:169.254.1.1")]
GOOD = [POOL[0]]
INT_LITS = [b"", b" ", b"5", b" 5", b"5 ", b"\t5\n", b"\x0b5\x0c", b"\r5", b"+5", b"-5", b"+-5", b"--5", b"+ 5", b"1_0",
            b"_1", b"1_", b"1__0", b"1_0_0", b"0x10", b"1e3", b"5.0", b"007", b"0_7", b"-0", b"+", b"-", b"_", b"5 5",
            b"\x1c5", b"5\x1f", b"5\x00", b"\x005", b"99999999999999999999999", b"-99999999999999999999999", b"4294967296",
            b"65536", b"255", b"256", b"5a", b"a5", b" +1_2 ", "٣".encode(), "５".encode(), b"5\xa0", b"\x85" + b"5",
            b"5=5", b"1" * 200]
NAME = ("foo.%s" % HAP_TCP).encode()
TY = HAP_TCP.encode()
KEYS = [b"c#", b"id", b"md", b"s#", b"ci", b"sf", b"ff", b"pv"]


def case_variants(k, mode):
    if mode == "l":
        return k
    if mode == "u":
        return k.upper()
    return bytes(c - 32 if (97 <= c <= 122 and i % 2 == 0) else c for i, c in enumerate(k))


def gen_psvc(tier, r):
    """-> list of (tag, args, expected-or-None).  expected = dict of fields for the round-trip oracle"""
    cases = []

    def fields(r):
        idb = ":".join(r.choice(["%02x", "%02X"]) % r.randrange(256) for _ in range(6)).encode()
        if r.random() < 0.15:
            idb = bytes(r.choice(b"ABCDEFabcdef0123456789:-_ Zz") for _ in range(r.randrange(0, 20)))
        md = bytes(r.choice(b"abcXYZ 0123-_=.,") for _ in range(r.randrange(0, 12)))
        big = [0, 1, 9, 10, 99, 100, 255, 256, 65535, 65536, 2 ** 32, 10 ** 20]
        return dict(id=idb, md=md, cn=r.choice(big), sn=r.choice(big), ff=r.choice([0, 1, 2, 3, 7, 256]),
                    sf=r.choice([0, 1, 2, 4, 7, 255]), ci=r.choice([0, 1, 2, 5, 17, 40, 255, 65535]),
                    pv=r.choice([b"1.0", b"1.1", b"2", b""]))

    def render(f, mode, order, omit=()):
        vals = {b"c#": b"%d" % f["cn"], b"id": f["id"], b"md": f["md"], b"s#": b"%d" % f["sn"], b"ci": b"%d" % f["ci"],
                b"sf": b"%d" % f["sf"], b"ff": b"%d" % f["ff"], b"pv": f["pv"]}
        return txt_of([(case_variants(k, mode), vals[k]) for k in order if k not in omit])

    def expect(f, addrs, omit=(), port=1234, name=b"foo"):
        good = findref.ref_addresses(addrs)
        d = dict(name=name, id=f["id"].lower(), md=b"" if b"md" in omit else f["md"], cn=0 if b"c#" in omit else f["cn"],
                 sn=0 if b"s#" in omit else f["sn"], ff=0 if b"ff" in omit else f["ff"], sf=0 if b"sf" in omit else f["sf"],
                 ci=1 if b"ci" in omit else f["ci"], pv=b"1.0" if b"pv" in omit else f["pv"], type=TY,
                 addr=good[0], addrs=good, port=port)
        return d
    base = dict(id=b"AA:bb:CC:00:01:0f", md=b"unit=test", cn=3, sn=11, ff=1, sf=1, ci=5, pv=b"1.1")
    # every subset of the optional keys, three key-case modes
    opt = [k for k in KEYS if k != b"id"]
    for n in range(len(opt) + 1):
        for omit in itertools.combinations(opt, n):
            for mode in "lum":
                cases.append(("subset", (NAME, TY, GOOD, 1234, render(base, mode, KEYS, omit)), expect(base, GOOD, omit)))
    # address lists: all ordered selections up to 2 (quick) / 3 (thorough) from the pool
    top = 2 if tier == "quick" else 3
    txt = render(base, "l", KEYS)
    for n in range(0, top + 1):
        for sel in itertools.permutations(POOL, n):
            good = findref.ref_addresses(list(sel))
            cases.append(("addrs", (NAME, TY, list(sel), 1234, txt), expect(base, list(sel)) if good else "err"))
    if tier == "quick":
        for _ in range(300):
            sel = r.sample(POOL, 3)
            good = findref.ref_addresses(sel)
            cases.append(("addrs", (NAME, TY, sel, 1234, txt), expect(base, sel) if good else "err"))
    # random rendered-valid
    for _ in range(1500 if tier == "quick" else 30000):
        f = fields(r)
        order = KEYS[:]
        r.shuffle(order)
        omit = tuple(k for k in opt if r.random() < 0.15)
        sel = r.sample(POOL, r.randrange(1, 4))
        good = findref.ref_addresses(sel)
        port = r.choice([0, 1, 80, 5001, 65535])
        nm = r.choice([b"foo", b"Living Room Lamp", b"x"])
        args = (nm + b"." + TY, TY, sel, port, render(f, r.choice("lum"), order, omit))
        cases.append(("valid", args, expect(f, sel, omit, port, nm) if good else "err"))
    # int literals on each integer key
    for key in (b"c#", b"s#", b"ff", b"sf", b"ci"):
        for lit in INT_LITS:
            pairs = [(b"id", b"aa:bb"), (key, lit)]
            if len(key) + 1 + len(lit) <= 255:
                cases.append(("int", (NAME, TY, GOOD, 1, txt_of(pairs)), None))
    # duplicates, case collisions, missing '=', empty values
    dup = [[(b"id", b"ab"), (b"ID", b"cd")], [(b"ID", b"ab"), (b"id", b"cd")], [(b"id", b"ab"), (b"id", b"cd")],
           [(b"id", None)], [(b"id", b"")], [(b"Id", b"X=Y=Z")], [(b"id", None), (b"ID", b"zz")], [(b"", b"x"), (b"id", b"q")],
           [(b"id", b"ab"), (b"c#", None)], [(b"id", b"ab"), (b"c#", b"")], [(b"c#", b"1"), (b"C#", b"2"), (b"id", b"a")],
           [(b"id", b"ab"), (b"md", None), (b"pv", None)], [(b"i\xc3\xa4", b"x"), (b"id", b"a")], [(b"id", b"\xc4\xb0")]]
    for pairs in dup:
        cases.append(("dup", (NAME, TY, GOOD, 1, txt_of(pairs)), None))
    # every key the parser reads (and sh, which it does not), valueless (bare key) or with an empty value, in three
    # key-case modes, alone and next to the other keys.  A valueless attribute counts as absent (default applies).
    allkeys = KEYS + [b"sh"]
    vals = {b"c#": b"%d" % base["cn"], b"id": base["id"], b"md": base["md"], b"s#": b"%d" % base["sn"], b"ci": b"%d" % base["ci"],
            b"sf": b"%d" % base["sf"], b"ff": b"%d" % base["ff"], b"pv": base["pv"], b"sh": b"aGVsbG8="}
    for k in allkeys:
        for mode in "lum":
            for val, tag in ((None, "bare"), (b"", "empty")):
                full = [(case_variants(x, mode), val if x == k else vals[x]) for x in allkeys]
                if val is None:
                    e = "err" if k == b"id" else expect(base, GOOD, (k,))
                else:
                    e = None        # empty value: '' for strings, ValueError for integers - compared with the model
                cases.append(("valueless-" + tag, (NAME, TY, GOOD, 1234, txt_of(full)), e))
                cases.append(("valueless-" + tag, (NAME, TY, GOOD, 1234, txt_of([(b"id", b"aa:bb"), (case_variants(k, mode), val)])),
                              None))
    # bytes that are not valid UTF-8 in values (and keys) the validity of a record does not depend on: the record is
    # VALID, text fields are shown with U+FFFD for the undecodable bytes (reference: bytes.decode("utf-8", "replace"))
    bad_vals = [b"Caf\xe9 Lamp", b"\xff", b"\xc3", "Lampe \u00e9".encode()[:-1], b"\xe2\x82", b"ok\x80\xbf", b"\xf0\x9f\x98",
                b"\xed\xa0\x80", b"\xc0\xaf", "K\u00fcche \u2713".encode(), b"\xfe\xfe\xff\xff"]
    for bv in bad_vals:
        rep = bv.decode("utf-8", "replace").encode("utf-8")
        for mode in "lu":
            for where in ("md", "pv", "sh", "extra-key", "extra-val", "both"):
                f2 = dict(base)
                extra = []
                if where in ("md", "both"):
                    f2["md"] = bv
                if where in ("pv", "both"):
                    f2["pv"] = bv
                if where == "sh":
                    extra = [(b"sh", bv)]
                elif where == "extra-key":
                    extra = [(b"x" + bv[:6], b"1")]
                elif where == "extra-val":
                    extra = [(b"note", bv)]
                vals2 = {b"c#": b"%d" % f2["cn"], b"id": f2["id"], b"md": f2["md"], b"s#": b"%d" % f2["sn"], b"ci": b"%d" % f2["ci"],
                         b"sf": b"%d" % f2["sf"], b"ff": b"%d" % f2["ff"], b"pv": f2["pv"]}
                txt = txt_of([(case_variants(k, mode), vals2[k]) for k in KEYS] + extra)
                e = expect(f2, GOOD)
                if where in ("md", "both"):
                    e["md"] = rep
                if where in ("pv", "both"):
                    e["pv"] = rep
                cases.append(("nonutf8-" + where, (NAME, TY, GOOD, 1234, txt), e))
    for k1, k2 in itertools.combinations([x for x in allkeys if x != b"id"], 2):
        full = [(x, None if x in (k1, k2) else vals[x]) for x in allkeys]
        cases.append(("valueless-bare", (NAME, TY, GOOD, 1234, txt_of(full)), expect(base, GOOD, (k1, k2))))
    # truncations: every prefix of several valid TXT blobs; every single-byte deletion; every length byte +-1
    blobs = [render(base, "l", KEYS), render(base, "u", list(reversed(KEYS))), render(fields(r), "m", KEYS),
             txt_of([(b"id", b"aa:bb:cc:dd:ee:ff")]), render(base, "l", [b"id", b"c#", b"s#"])]
    if tier != "quick":
        blobs += [render(fields(r), r.choice("lum"), KEYS) for _ in range(20)]
    for b in blobs:
        for n in range(len(b) + 1):
            cases.append(("trunc", (NAME, TY, GOOD, 1, b[:n]), None))
        for n in range(len(b)):
            cases.append(("del", (NAME, TY, GOOD, 1, b[:n] + b[n + 1:]), None))
        pos = 0
        while pos < len(b):
            for dlt in (-1, 1, 200):
                nb = bytearray(b)
                nb[pos] = (nb[pos] + dlt) & 0xFF
                cases.append(("lenbyte", (NAME, TY, GOOD, 1, bytes(nb)), None))
            pos += b[pos] + 1
    # malformed: random bytes, bit flips
    for _ in range(800 if tier == "quick" else 20000):
        if r.random() < 0.5:
            b = bytes(r.choice([r.randrange(256), r.randrange(32, 127), 61, 105, 100, 2, 5]) for _ in range(r.randrange(0, 60)))
        else:
            nb = bytearray(r.choice(blobs))
            for _ in range(r.choice([1, 1, 2, 4])):
                nb[r.randrange(len(nb))] ^= 1 << r.randrange(8)
            b = bytes(nb)
        cases.append(("fuzz", (NAME, TY, r.sample(POOL, r.randrange(0, 3)), 1, b), None))
    return cases


def exp_psvc(e):
    if e == "err":
        return "err value"
    return ("ok name=%s id=%s md=%s cn=%d sn=%d ff=%d sf=%d ci=%d pv=%s type=%s addr=%s addrs=%s port=%d" % (
        hx(e["name"]), hx(e["id"]), hx(e["md"]), e["cn"], e["sn"], e["ff"], e["sf"], e["ci"], hx(e["pv"]), hx(e["type"]),
        addr_tok(e["addr"]), ",".join(addr_tok(a) for a in e["addrs"]), e["port"]))


def gen_padv(tier, r):
    """-> (tag, md-or-None, expected string or None)"""
    cases = []

    def mk(x, sf, dev, cat, sn, cn, cv, sh):
        return bytes([6, x, sf]) + dev + struct.pack("<HHBB", cat, sn, cn, cv) + sh

    def exp(sf, dev, cat, sn, cn, sh):
        return "ok id=%s cat=%d sf=%d cn=%d sn=%d sh=%s" % (hx(findref.ref_ble_id(dev).encode()), cat, sf, cn, sn,
                                                            hx(sh[:4] if len(sh) >= 4 else b""))
    base = mk(0x31, 1, DEVS[0], 5, 513, 2, 2, b"\xde\xad\xbe\xef")
    for _ in range(1500 if tier == "quick" else 30000):
        dev = bytes(r.randrange(256) for _ in range(6))
        sf, cat = r.choice([0, 1, 2, 255]), r.choice([0, 1, 5, 255, 256, 65535, r.randrange(65536)])
        sn, cn = r.choice([0, 1, 255, 256, 65535, r.randrange(65536)]), r.choice([0, 1, 255, r.randrange(256)])
        sh = bytes(r.randrange(256) for _ in range(r.choice([0, 4, 4, 4, 5, 8])))
        cases.append(("valid", mk(r.randrange(256), sf, dev, cat, sn, cn, r.randrange(256), sh), exp(sf, dev, cat, sn, cn, sh)))
    for b in (base, base + b"\x01\x02\x03\x04"):
        for n in range(len(b) + 1):
            cases.append(("trunc", b[:n], None))
        for t in range(256):
            cases.append(("type", bytes([t]) + b[1:], None))
            cases.append(("type-short", bytes([t]) + b[1:9], None))
    cases.append(("none", None, "err value"))
    cases.append(("empty", b"", "err value"))
    for _ in range(800 if tier == "quick" else 20000):
        b = bytes(r.choice([6, 6, 0x11, r.randrange(256)]) if i == 0 else r.randrange(256) for i in range(r.randrange(0, 30)))
        cases.append(("fuzz", b, None))
    return cases


def gen_pnot(tier, r):
    cases = []
    base = b"\x11\x36" + DEVS[1] + bytes(range(12))
    for n in range(len(base) + 1):
        cases.append(("trunc", base[:n], None))
    for _ in range(600 if tier == "quick" else 10000):
        adv, pl = bytes(r.randrange(256) for _ in range(6)), bytes(r.randrange(256) for _ in range(r.randrange(0, 20)))
        cases.append(("valid", bytes([0x11, r.randrange(256)]) + adv + pl,
                      "ok id=%s advid=%s payload=%s" % (hx(findref.ref_ble_id(adv).encode()), hx(adv), hx(pl))))
    for t in range(256):
        cases.append(("type", bytes([t]) + base[1:], None))
    cases.append(("none", None, "err value"))
    cases.append(("empty", b"", "err value"))
    for _ in range(400 if tier == "quick" else 8000):
        cases.append(("fuzz", bytes(0x11 if i == 0 and r.random() < 0.7 else r.randrange(256) for i in range(r.randrange(0, 24))), None))
    return cases


def run_parse_stream(ctx, cov, viols):
    tier, seed = ctx["tier"], ctx["seed"]
    drv = _RecDriver(ctx["driver"])       # a Driver that also keeps a small sample of (request, answer) pairs
    seen = set()

    def report(which, tag, case_repr, impl, model, exp, strict):
        key = None
        if impl.startswith("other:"):
            key, what, found = (f"parse:{which}:exception:{impl[6:]}",
                                f"{which}: input makes the parser raise {impl[6:]} (must be parsed or rejected with ValueError)", True)
        elif exp is not None and impl != exp:
            key, what, found = (f"parse:{which}:roundtrip:{tag}",
                                f"{which}: rendered advertisement does not parse to its fields: got {impl[:160]} want {exp[:160]}", True)
        elif strict and impl != model:
            key, what, found = (f"parse:{which}:model-mismatch", f"{which}: implementation {impl[:140]} != model {model[:140]}", False)
        if key:
            cov.extra["disagreements_checked"] = cov.extra.get("disagreements_checked", 0) + 1
            if key not in seen:
                seen.add(key)
                viols.append(violation(key, what, found, stream="parse", parser=which, tag=tag, case=case_repr, impl=impl,
                                       model=model, expected=exp,
                                       **({} if found else dict(broken="correspondence Model/Find.v <-> parsers"))))

    # ---- from_service_info
    cases = gen_psvc(tier, rng(seed, "c19svc"))
    model = drv.batch(["psvc " + svc_line(a) for _, a, _ in cases])
    for n, ((tag, args, e), m) in enumerate(zip(cases, model)):
        impl = impl_psvc(args)
        if impl.startswith("unbuildable"):
            continue
        exp = None if e is None else exp_psvc(e)
        ascii_only = all(c < 128 for c in args[4])
        m2, i2 = blur_neg(m, impl)
        report("service-info", tag, dict(name=args[0].decode(), addresses=[addr_tok(a) for a in args[2]], port=args[3], txt=hx(args[4])),
               i2, m2, exp, ascii_only)
        cov.case("s" + repr(args), len(args[4]) > 0 or len(args[2]) > 0,
                 sample=dict(stream="parse", parser="service-info", tag=tag, txt=hx(args[4])[:80], impl=impl[:120]) if n % 1499 == 0 else None,
                 svc_tag=tag, svc_result=impl.split(" ")[0] + (" value" if impl == "err value" else ""),
                 svc_txtlen=min(len(args[4]), 200) // 20 * 20)
    # render_txt of the model is a TXT rdata the real stack reads back as the same fields
    r = rng(seed, "c19rtxt")
    rts = []
    for _ in range(200 if tier == "quick" else 3000):
        f = dict(id=":".join(r.choice(["%02x", "%02X"]) % r.randrange(256) for _ in range(6)).encode(),
                 md=bytes(r.choice(b"abcXYZ 01-_=") for _ in range(r.randrange(0, 10))), cn=r.choice([0, 1, 10, 255, 65536, 10 ** 12]),
                 sn=r.choice([0, 9, 100, 65535]), ff=r.randrange(4), sf=r.randrange(8), ci=r.randrange(1, 40), pv=r.choice([b"1.0", b"1.1"]))
        rts.append((r.choice("ul"), f))
    ans = drv.batch([f"rtxt {u} {hx(f['id'])} {hx(f['md'])} {f['cn']} {f['sn']} {f['ff']} {f['sf']} {f['ci']} {hx(f['pv'])}" for u, f in rts])
    for (u, f), a in zip(rts, ans):
        txt = unhx(a)
        impl = impl_psvc((NAME, TY, GOOD, 7, txt))
        exp = exp_psvc(dict(name=b"foo", id=f["id"].lower(), md=f["md"], cn=f["cn"], sn=f["sn"], ff=f["ff"], sf=f["sf"], ci=f["ci"],
                            pv=f["pv"], type=TY, addr=GOOD[0], addrs=GOOD, port=7))
        report("service-info", "render_txt", dict(txt=hx(txt), fields={k: (v if isinstance(v, int) else v.decode()) for k, v in f.items()}),
               impl, exp, exp, True)
        cov.case("rt" + a, True, svc_tag="render_txt", svc_result="ok")
    # ---- BLE advertisement
    cases = gen_padv(tier, rng(seed, "c19adv"))
    model = drv.batch(["padv " + ("none" if b is None else hx(b)) for _, b, _ in cases])
    for n, ((tag, b, e), m) in enumerate(zip(cases, model)):
        impl = impl_padv(b)
        report("ble-advertisement", tag, None if b is None else hx(b), impl, m, e, True)
        cov.case("a" + repr(b), bool(b),
                 sample=dict(stream="parse", parser="ble-advertisement", tag=tag, data=None if b is None else hx(b), impl=impl) if n % 997 == 0 else None,
                 adv_tag=tag, adv_result=impl.split(" ")[0], adv_len=-1 if b is None else len(b))
    # render_adv of the model equals the byte layout the reference builds
    ans = drv.batch([f"radv {x} {sf} {hx(dev)} {cat} {sn} {cn} {cv} {hx(sh)}" for x, sf, dev, cat, sn, cn, cv, sh in
                     [(0x31, 1, DEVS[0], 5, 513, 2, 2, b"\xde\xad\xbe\xef"), (0, 255, DEVS[1], 65535, 65535, 255, 255, b"")]])
    want = [bytes([6, 0x31, 1]) + DEVS[0] + struct.pack("<HHBB", 5, 513, 2, 2) + b"\xde\xad\xbe\xef",
            bytes([6, 0, 255]) + DEVS[1] + struct.pack("<HHBB", 65535, 65535, 255, 255)]
    for a, w in zip(ans, want):
        if unhx(a) != w:
            viols.append(violation("parse:ble-advertisement:render-mismatch", "render_adv differs from the documented layout", False,
                                   model=a, expected=hx(w)))
    # ---- BLE encrypted notification
    cases = gen_pnot(tier, rng(seed, "c19not"))
    model = drv.batch(["pnot " + ("none" if b is None else hx(b)) for _, b, _ in cases])
    for n, ((tag, b, e), m) in enumerate(zip(cases, model)):
        impl = impl_pnot(b)
        report("ble-notification", tag, None if b is None else hx(b), impl, m, e, True)
        cov.case("n" + repr(b), bool(b),
                 sample=dict(stream="parse", parser="ble-notification", tag=tag, data=None if b is None else hx(b), impl=impl) if n % 499 == 0 else None,
                 not_tag=tag, not_result=impl.split(" ")[0], not_len=-1 if b is None else len(b))
    # ---- python int()
    r = rng(seed, "c19int")
    lits = list(INT_LITS)
    for _ in range(2000 if tier == "quick" else 40000):
        lits.append(bytes(r.choice(b"0123456789_+- \t") for _ in range(r.randrange(0, 7))))
    lits = [x for x in lits if all(c < 128 for c in x)]
    ans = drv.batch(["int " + hx(x) for x in lits])
    for x, a in zip(lits, ans):
        try:
            impl = "some %d" % int(x.decode())
        except ValueError:
            impl = "none"
        if impl != a:
            report("python-int", "int", hx(x), impl, a, None, True)
        cov.case("i" + hx(x), len(x) > 0, int_result=impl.split(" ")[0])


# ================================================================ callback stream (raw inputs through the callbacks)
def run_callback_stream(ctx, cov, viols):
    """arbitrary / truncated raw inputs through the registered callbacks, for the three pairing situations.
    Uses a private catalogue (symbols c<n>)."""
    tier, seed = ctx["tier"], ctx["seed"]
    r = rng(seed, "c19cb")
    X = IDS[0]
    drv = Driver(ctx["driver"], workers=1)
    from bleak.backends.device import BLEDevice
    from bleak.backends.scanner import AdvertisementData
    base_b = mfr_of(0, 3, "v")
    base_n = b"\x11\x36" + DEVS[0] + bytes(range(10))
    base_m = svc_args(0, 3, "v")
    raws_b = [base_b[:n] for n in range(len(base_b) + 1)] + [base_n[:n] for n in range(len(base_n) + 1)] + [None]
    raws_b += [bytes([t]) + base_b[1:] for t in (0, 5, 7, 0x10, 0x12, 0xFF)]
    raws_b += [bytes(r.randrange(256) for _ in range(r.randrange(1, 26))) for _ in range(60 if tier == "quick" else 1500)]
    raws_m = [base_m[:4] + (base_m[4][:n],) for n in range(len(base_m[4]) + 1)]
    raws_m += [base_m[:2] + (sel,) + base_m[3:] for sel in ([], [POOL[1]], [POOL[5], POOL[0]], [POOL[6], POOL[2]])]
    raws_m += [base_m[:4] + (txt_of([(b"id", X.encode()), (b"c#", lit)]),) for lit in INT_LITS if len(lit) < 250]
    for k in KEYS + [b"sh"]:        # valueless / empty attributes for every key, through the callbacks
        for val in (None, b""):
            raws_m.append(base_m[:4] + (txt_of([(b"id", X.encode()), (b"c#", b"2"), (b"s#", b"3")] + [(k if k != b"id" else b"ID", val)]),))
            raws_m.append(base_m[:4] + (txt_of([(k, val)] + [(b"id", X.encode()), (b"c#", b"2")]),))
    global CAT
    saved_cat, saved_objs = CAT, dict(_impl_cache)
    try:
        cat = {}
        for n, b in enumerate(raws_b):
            cat[f"b9c{n}"] = dict(tr="b", md=b, valid=None, id=X, cn=0, sn=0, idx=0)
        for n, a in enumerate(raws_m):
            cat[f"m9c{n}"] = dict(tr="m", args=a, valid=None, id=X, cn=0, sn=0)
        CAT = cat
        _impl_cache.clear()
        objs = {}
        for sym, c in cat.items():
            if c["tr"] == "m":
                objs[sym] = make_scripted(c["args"])
            else:
                dev = BLEDevice(address="00:11:22:33:44:00", name="Dev0", details=None)
                ad = AdvertisementData(local_name="Dev", manufacturer_data={} if c["md"] is None else {76: c["md"]},
                                       service_data={}, service_uuids=[], rssi=-60, platform_data=((),), tx_power=-127)
                objs[sym] = (dev, ad)
        defs = cat_defs()
        for kind, tr in (("ble", "b"), ("mdns", "m")):
            scheds, meta = [], []
            for sym in [s for s in cat if s[0] == tr]:
                for ptxt, load in pairing_situations(X):
                    ops = ["A"] if kind == "ble" else ["A", "Ab"]
                    for op in ops:
                        scheds.append(load + [("F", 1, X, 4096), (op, sym), ("T", 8192)])
                        meta.append((sym, ptxt, op))
            impl = run_impl(kind, scheds, objs)
            model = run_model(drv, kind, scheds, defs=defs)
            for evs, (sym, ptxt, op), i, m in zip(scheds, meta, impl, model):
                raised = i.split("|")[1]
                cov.case("cb" + kind + sym + ptxt + op, True,
                         sample=dict(stream="callback", kind=kind, pairing=ptxt, path=op, adv=_adv_repr(sym), impl=i) if cov.evaluations % 211 == 0 else None,
                         cb_kind=kind, cb_pairing=ptxt, cb_raised=bool(raised))
                key = None
                if raised:
                    exc = raised.split(",")[0].split(":")[-1]
                    key, what, found = (f"callback:{kind}:callback-raised:{exc}:pairing-{ptxt}",
                                        f"{kind}: callback raised {exc} on an advertisement (pairing situation: {ptxt})", True)
                elif strip_exc(i) != m and all(c < 128 for c in (cat[sym].get("args") or (0, 0, 0, 0, b""))[4]):
                    # oracle that needs no model: the controller itself lists the device (so it accepted the
                    # advertisement as valid) yet the caller that was waiting for that id was not completed with it
                    accepted = hx(X.encode()) in i.split("|")[2]
                    if accepted and not i.startswith("1=found"):
                        key, what, found = (f"callback:{kind}:lost-wakeup",
                                            f"{kind}: advertisement accepted (device listed) but the waiting caller got {i.split('|')[0]}", True)
                    else:
                        key, what, found = (f"callback:{kind}:model-mismatch", f"{kind}: callback result {i} != model {m}", False)
                if key:
                    cov.extra["disagreements_checked"] = cov.extra.get("disagreements_checked", 0) + 1
                    viols.append(violation(key, what, found, stream="callback", kind=kind, pairing=ptxt, events=[list(e) for e in evs],
                                           advertisement=_adv_repr(sym), impl=i, model=m))
    finally:
        CAT = saved_cat
        _impl_cache.clear()
        _impl_cache.update(saved_objs)


# ================================================================ extraction cross-check (vm_compute)
_XC = []      # (request line, driver answer, {symbol: defm/defb line}) sampled from the run's real request stream


def _xc_class(ans):
    w = ans.split(" ")[0]
    return w if w in ("ok", "err", "crash", "fuel", "some", "none") else "hex"


def _xc_record_parse(lines, answers):
    """per batch: the shortest request of every (request kind, answer class), plus the elements at 1/2 and 3/4"""
    best = {}
    for n, (l, a) in enumerate(zip(lines, answers)):
        key = (l.split(" ", 1)[0], _xc_class(a))
        if key not in best or len(l) < len(lines[best[key]]):
            best[key] = n
    n = len(lines)
    for j in sorted(set(best.values()) | ({n // 2, 3 * n // 4} if n else set())):
        if len(lines[j]) < 3000:
            _XC.append((lines[j], answers[j], {}))


def _xc_record_sched(lines, answers, defs):
    """per driver call: the first, middle and last schedule, with the catalogue lines of the symbols they use"""
    n = len(lines)
    if not n:
        return
    dmap = {d.split(" ", 2)[1]: d for d in defs}
    for j in sorted({0, n // 2, n - 1}):
        syms = {t.split(".")[1] for g in lines[j].split(" ")[2:] for t in g.split("+") if t[0] == "A"}
        if len(lines[j]) < 3000 and all(y in dmap for y in syms):
            _XC.append((lines[j], answers[j], {y: dmap[y] for y in syms}))


class _RecDriver(Driver):
    def batch(self, lines):
        lines = list(lines)
        ans = Driver.batch(self, lines)
        _xc_record_parse(lines, ans)
        return ans


def xc_sample(recorded, quota=None):
    """deterministic choice of <= 30 recorded pairs: per parse request kind a few with different answer classes,
    and schedules chosen greedily so that every (configuration, token kind / outcome kind / raised / private
    catalogue) combination that was recorded is covered"""
    quota = quota or dict(psvc=4, padv=3, pnot=3, int=4, rtxt=2, radv=2, sched=12)
    uniq = sorted({(r, a): (r, a, d) for r, a, d in recorded}.values(), key=lambda x: (len(x[0]), x[0], x[1]))
    out = []
    for kind in ("psvc", "padv", "pnot", "int", "rtxt", "radv"):
        cands = [x for x in uniq if x[0].split(" ", 1)[0] == kind]
        chosen, classes = [], set()
        for x in cands:                                   # one per answer class first (shortest) ...
            if _xc_class(x[1]) not in classes and len(chosen) < quota[kind]:
                classes.add(_xc_class(x[1]))
                chosen.append(x)
        rest = [x for x in cands if x not in chosen]
        while rest and len(chosen) < quota[kind]:         # ... then spread over the remaining ones
            chosen.append(rest.pop((len(rest) * 2) // 3))
        out += chosen
    cands = [x for x in uniq if x[0].startswith("sched ")]

    def feats(x):
        req, ans, _ = x
        cfg = req.split(" ")[1]
        f = {(cfg, t.split(".")[0]) for g in req.split(" ")[2:] for t in g.split("+")}
        f |= {(cfg, "o:" + c.split("=")[1].split(":")[0].split("(")[0]) for c in ans.split("|")[0].split(";") if c}
        if ans.split("|")[1]:
            f.add((cfg, "raised"))
        if "9c" in req:
            f.add((cfg, "private-catalogue"))
        if "T.2048+A." in req:
            f.add((cfg, "browser-path"))
        return f
    fs = [feats(x) for x in cands]
    covered, chosen = set(), []
    while len(chosen) < quota["sched"] and cands:
        gain = [len(f - covered) for f in fs]
        j = max(range(len(cands)), key=lambda i: (gain[i], -i))
        if gain[j] == 0 and chosen:
            # everything covered: fill up with the longest remaining schedules, one per configuration in turn
            cfgs = [c[0].split(" ")[1] for c in chosen]
            order = sorted(range(len(cands)), key=lambda i: (cfgs.count(cands[i][0].split(" ")[1]), -len(cands[i][0]), cands[i][0]))
            j = order[0]
        covered |= fs[j]
        chosen.append(cands.pop(j))
        fs.pop(j)
    return [(r, a, d) for r, a, d in out + chosen]


_XC_PRELUDE = r"""From Coq Require Import List NArith ZArith.
From AHK Require Import Lib.Res Lib.ByteStr Model.Find.
Import ListNotations.
Open Scope Z_scope.
Definition zb (b : list N) : list Z := Z.of_nat (length b) :: map Z.of_N b.
Definition za (a : addr) : list Z := match a with V4 b => 4 :: zb b | V6 b => 6 :: zb b end.
Definition zres {A : Type} (f : A -> list Z) (r : res perr A) : list Z :=
  match r with Ok x => 0 :: f x | Err ValueError => [1] | Crash => [2] | OutOfFuel => [3] end.
Definition show_svc (h : hksvc) : list Z :=
  zb (hs_name h) ++ zb (hs_id h) ++ zb (hs_model h) ++ [hs_cn h; hs_sn h; hs_ff h; hs_sf h; hs_ci h]
  ++ zb (hs_pv h) ++ zb (hs_type h) ++ za (hs_address h)
  ++ Z.of_nat (length (hs_addresses h)) :: flat_map za (hs_addresses h) ++ [Z.of_N (hs_port h)].
Definition show_adv (a : hkadv) : list Z :=
  zb (ha_id a) ++ [Z.of_N (ha_cat a); Z.of_N (ha_sf a); Z.of_N (ha_cn a); Z.of_N (ha_sn a)] ++ zb (ha_sh a).
Definition show_not (n : hknotif) : list Z := zb (hn_id n) ++ zb (hn_advid n) ++ zb (hn_payload n).
Definition show_int (o : option Z) : list Z := match o with Some z => [1; z] | None => [0] end.
Inductive tok :=
| TF (k : nat) (i : list N) (tau : N) | TAm (si : svcinfo) | TAb (md : option (list N))
| TAM (si : svcinfo) | TAB (md : option (list N)) | TC (k : nat) | TT (d : N) | TL (i : list N) (b : bool).
Definition tstep (c : cfg) (s : st) (t : tok) : st * list out :=
  match t with
  | TF k i tau => step c s (Find k i tau)
  | TAm si => mdns_callback c s si
  | TAb md => ble_callback c s md
  | TC k => step c s (Cancel k)
  | TT d => step c s (Advance d)
  | TL i b => step c s (Load i b)
  | _ => (s, [])
  end.
Definition atstep (a : agg) (t : tok) : agg * list out :=
  match t with
  | TF k i tau => astep a (AFind k i tau)
  | TAM si => astep a (AAdvM (match from_service_info si with Ok h => Some (svc_descr h) | _ => None end))
  | TAB md => astep a (AAdvB (match md with
                              | Some (b :: _) => if (b =? 6)%N
                                                 then match adv_parse md with Ok x => Some (adv_descr x) | _ => None end
                                                 else None
                              | _ => None end))
  | TC k => astep a (ACancel k)
  | TT d => astep a (AAdvance d)
  | _ => (a, [])
  end.
Definition show_out (gi : Z) (o : out) : list Z :=
  match o with
  | Raised => [gi; 3]
  | Done k (Found d) t => [gi; 0; Z.of_nat k; Z.of_N t; d_cn d; d_sn d] ++ zb (d_id d)
  | Done k NotFound t => [gi; 1; Z.of_nat k; Z.of_N t]
  | Done k Cancelled t => [gi; 2; Z.of_nat k; Z.of_N t]
  end.
Fixpoint tfold {X : Type} (f : X -> tok -> X * list out) (s : X) (gi : Z) (g : list tok) : X * list Z :=
  match g with
  | [] => (s, [])
  | t :: r => let '(s1, o1) := f s t in let '(s2, o2) := tfold f s1 gi r in (s2, flat_map (show_out gi) o1 ++ o2)
  end.
Fixpoint gfold {X : Type} (f : X -> tok -> X * list out) (s : X) (gi : Z) (gs : list (list tok)) : X * list Z :=
  match gs with
  | [] => (s, [])
  | g :: r => let '(s1, o1) := tfold f s gi g in let '(s2, o2) := gfold f s1 (gi + 1) r in (s2, o1 ++ o2)
  end.
Definition zdiscs (l : list (id * descr)) : list Z :=
  Z.of_nat (length l) :: flat_map (fun kd => zb (fst kd) ++ [d_cn (snd kd); d_sn (snd kd)]) l.
Definition show_single (c : cfg) (gs : list (list tok)) : list Z :=
  let '(s, o) := gfold (tstep c) st0 0 gs in o ++ [-1] ++ zdiscs (discs s).
Definition show_agg (gs : list (list tok)) : list Z :=
  let '(a, o) := gfold atstep agg0 0 gs in o ++ [-1] ++ zdiscs (discs (a_ip a)) ++ zdiscs (discs (a_ble a)).
"""


def _gq_bytes(b):
    return "(@nil N)" if not b else "[" + "; ".join(str(x) for x in bytes(b)) + "]%N"


def _gq_hex(h):
    return _gq_bytes(unhx(h))


def _gq_addrs(s):
    if s == "-":
        return "(@nil addr)"
    return "[" + "; ".join(("V4 " if t.split(":")[0] == "4" else "V6 ") + _gq_hex(t.split(":")[1] or "-") for t in s.split(",")) + "]"


def _gq_svc(name, ty, addrs, port, txt):
    return (f"{{| si_name := {_gq_hex(name)}; si_type := {_gq_hex(ty)}; si_addrs := {_gq_addrs(addrs)}; "
            f"si_port := {int(port)}%N; si_text := {_gq_hex(txt)} |}}")


def _gq_md(h):
    return "(@None (list N))" if h == "none" else f"(Some {_gq_hex(h)})"


def xc_term(n, req, defs):
    """request line -> (definitions needed, Gallina term of type list Z) calling what ocaml/drv_c19.ml calls"""
    w = req.split(" ")
    if w[0] == "psvc":
        return [], f"zres show_svc (from_service_info {_gq_svc(*w[1:6])})"
    if w[0] == "padv":
        return [], f"zres show_adv (adv_parse {_gq_md(w[1])})"
    if w[0] == "pnot":
        return [], f"zres show_not (notif_parse {_gq_md(w[1])})"
    if w[0] == "int":
        return [], f"show_int (py_int {_gq_hex(w[1])})"
    if w[0] == "rtxt":
        u, i, md, cn, sn, ff, sf, ci, pv = w[1:]
        return [], (f"zb (render_txt {'upper' if u == 'u' else '(fun x => x)'} {{| f_id := {_gq_hex(i)}; f_md := {_gq_hex(md)}; "
                    f"f_cn := {int(cn)}%N; f_sn := {int(sn)}%N; f_ff := {int(ff)}%N; f_sf := {int(sf)}%N; f_ci := {int(ci)}%N; "
                    f"f_pv := {_gq_hex(pv)} |}})")
    if w[0] == "radv":
        x, sf, dev, cat, sn, cn, cv, sh = w[1:]
        return [], (f"zb (render_adv {{| af_x := {int(x)}%N; af_sf := {int(sf)}%N; af_dev := {_gq_hex(dev)}; af_cat := {int(cat)}%N; "
                    f"af_sn := {int(sn)}%N; af_cn := {int(cn)}%N; af_cv := {int(cv)}%N; af_sh := {_gq_hex(sh)} |}})")
    assert w[0] == "sched", req
    cfg = w[1]
    dls = []
    for sym in sorted(defs):
        d = defs[sym].split(" ")
        if d[0] == "defm":
            dls.append(f"Definition x{n}_{sym} : svcinfo := {_gq_svc(*d[2:7])}.")
        else:
            dls.append(f"Definition x{n}_{sym} : option (list N) := {_gq_md(d[2])}.")
    groups = []
    for g in w[2:]:
        toks = []
        for t in g.split("+"):
            p = t.split(".")
            if p[0] == "F":
                toks.append(f"TF {int(p[1])}%nat {_gq_hex(p[2])} {int(p[3])}%N")
            elif p[0] == "A":          # the driver looks the symbol up in the table that belongs to the configuration's kind
                is_m = defs[p[1]].startswith("defm")
                assert is_m == (cfg == "mdns"), req
                toks.append(f"{'TAm' if is_m else 'TAb'} x{n}_{p[1]}")
            elif p[0] in ("AM", "AB"):
                assert defs[p[1]].startswith("defm") == (p[0] == "AM") and cfg == "agg", req
                toks.append(f"T{p[0]} x{n}_{p[1]}")
            elif p[0] == "C":
                toks.append(f"TC {int(p[1])}%nat")
            elif p[0] == "T":
                toks.append(f"TT {int(p[1])}%N")
            elif p[0] == "L" and cfg != "agg":
                toks.append(f"TL {_gq_hex(p[1])} {'true' if p[2] == '1' else 'false'}")
            else:
                raise AssertionError(req)
        groups.append("[" + "; ".join(toks) + "]")
    gl = "[" + "; ".join(groups) + "]"
    if cfg == "agg":
        return dls, f"show_agg {gl}"
    return dls, f"show_single {dict(mdns='mdns_cfg', ble='ble_cfg', bleorig='ble_orig_cfg', blenoguard='ble_noguard_cfg')[cfg]} {gl}"


class _XcReader:
    def __init__(self, nums):
        self.n, self.i = nums, 0

    def int(self):
        self.i += 1
        return self.n[self.i - 1]

    def hex(self):
        k = self.int()
        b = bytes(self.n[self.i:self.i + k])
        assert len(b) == k
        self.i += k
        return hx(b)

    def addr(self):
        return "%d:" % self.int() + self.hex()

    def res(self):
        c = self.int()
        return None if c == 0 else {1: "err value", 2: "crash", 3: "fuel"}[c]

    def discs(self):
        cells = []
        for _ in range(self.int()):
            k = self.hex()
            cells.append("%s:%d:%d" % (k, self.int(), self.int()))
        return ",".join(sorted(cells)) or "-"


def xc_render(req, nums):
    """the list of numbers Coq computed -> the answer line the driver must have printed (mirrors the printing
    code of ocaml/drv_c19.ml)"""
    r = _XcReader(nums)
    kind = req.split(" ", 1)[0]
    if kind == "psvc":
        s = r.res()
        if s is None:
            s = "ok name=%s id=%s md=%s" % (r.hex(), r.hex(), r.hex())
            s += " cn=%d sn=%d ff=%d sf=%d ci=%d" % (r.int(), r.int(), r.int(), r.int(), r.int())
            s += " pv=%s type=%s addr=%s" % (r.hex(), r.hex(), r.addr())
            s += " addrs=%s" % (",".join([r.addr() for _ in range(r.int())]) or "-")
            s += " port=%d" % r.int()
    elif kind == "padv":
        s = r.res()
        if s is None:
            s = "ok id=%s" % r.hex() + " cat=%d sf=%d cn=%d sn=%d" % (r.int(), r.int(), r.int(), r.int()) + " sh=%s" % r.hex()
    elif kind == "pnot":
        s = r.res()
        if s is None:
            s = "ok id=%s advid=%s payload=%s" % (r.hex(), r.hex(), r.hex())
    elif kind == "int":
        s = "some %d" % r.int() if r.int() == 1 else "none"
    elif kind in ("rtxt", "radv"):
        s = r.hex()
    else:
        cells, raised = {}, []
        while True:
            gi = r.int()
            if gi < 0:
                break
            code = r.int()
            if code == 3:
                if gi not in raised:
                    raised.append(gi)
                continue
            k, t = r.int(), r.int()
            if code == 0:
                cn, sn = r.int(), r.int()
                c = "found:%s:%d:%d:%d" % (r.hex(), cn, sn, t)
            else:
                c = "%s:%d" % ({1: "notfound", 2: "cancelled"}[code], t)
            cells[k] = "twice(%s,%s)" % (cells[k], c) if k in cells else c
        d = r.discs()
        if req.split(" ")[1] == "agg":
            d += " / " + r.discs()
        s = ";".join("%d=%s" % (k, cells[k]) for k in sorted(cells)) + "|" + ",".join(str(g) for g in raised) + "|" + d
    assert r.i == len(nums), "trailing numbers"
    return s


def vm_crosscheck(ctx, sample):
    """Evaluate the sampled requests with vm_compute inside Coq (calling the Gallina functions that
    ocaml/drv_c19.ml calls on the extracted code) and compare with the answers of the extracted driver:
    takes extraction + the OCaml glue out of the single-point-of-trust position.
    sample: [(request line, driver answer, {symbol: defm/defb line})].  -> (requests, [(request, driver, coq)])"""
    import re
    body = [_XC_PRELUDE]
    for n, (req, _, defs) in enumerate(sample):
        dls, term = xc_term(n, req, defs)
        body += dls
        body.append(f"Eval vm_compute in ({term}).")
    out = coq_eval(ctx["verif"], "C19", "crosscheck", "\n".join(body) + "\n", timeout=300)
    blocks = re.split(r"(?m)^\s*= ", out)[1:]
    bad = []
    if len(blocks) != len(sample):
        return len(sample), [(req, ans, "coqc printed %d values for %d requests" % (len(blocks), len(sample))) for req, ans, _ in sample]
    for (req, ans, _), blk in zip(sample, blocks):
        val = re.split(r"\n\s*: ", blk)[0]
        try:
            got = xc_render(req, [int(x) for x in re.findall(r"-?\d+", val)])
        except Exception as e:  # noqa
            got = "undecodable (%s): %s" % (type(e).__name__, " ".join(val.split())[:200])
        if got != ans:
            bad.append((req, ans, got))
    return len(sample), bad



# ================================================================ encrypted notifications through the scanner callback
# BleController._device_detected hands manufacturer data of type 0x11 to BlePairing._async_notification with
# no exception guard.  World: one live BleController with five loaded pairings (and one id without pairing);
# notifications are sealed with `cryptography` (ref/bcast_ref.py, shares no AEAD code with aiohomekit).
N_DEVS = [bytes.fromhex("aabbcc0000%02x" % i) for i in range(1, 7)]
N_KEYS = {i: hashlib.sha256(b"c19-bcast-%d" % i).digest() for i in (1, 2, 4, 9)}
N_DB = [(9, "bool"), (10, "uint8"), (11, "uint16"), (12, "uint32"), (13, "uint64"), (14, "int"), (15, "float"),
        (16, "string"), (17, "tlv8"), (18, "data")]
N_FMT = {"bool": "bool", "uint8": "u8", "uint16": "u16", "uint32": "u32", "uint64": "u64", "int": "int", "float": "float",
         "string": "string", "tlv8": "other", "data": "other"}
# name -> (device index, key id or None, initial state number or None, "full" | "noaid" | None)
N_WORLD = [("P1", 0, 1, 5, "full"),      # usable pairing
           ("P2", 1, 2, 5, "noaid"),     # key and description, but the cached accessory list has no aid 1
           ("P3", 2, None, 5, "full"),   # no broadcast key
           ("P4", 3, 4, None, "full"),   # key, but never seen an advertisement: no description
           ("P5", 4, None, None, None)]  # loaded without any cache


def n_idstr(dev):
    return ":".join("%02x" % b for b in dev)


def n_accessories(kind):
    if kind == "noaid":        # a cached database whose only accessory is not aid 1
        return [dict(aid=2, services=[dict(iid=1, type="0000003E-0000-1000-8000-0026BB765291", characteristics=[
            dict(iid=2, type="00000023-0000-1000-8000-0026BB765291", perms=["pr"], format="string")])])]
    chars = [dict(iid=i, type="00000025-0000-1000-8000-0026BB765291", perms=["pr", "ev"], format=f) for i, f in N_DB]
    return [dict(aid=1, services=[
        dict(iid=1, type="0000003E-0000-1000-8000-0026BB765291", characteristics=[
            dict(iid=2, type="00000023-0000-1000-8000-0026BB765291", perms=["pr"], format="string")]),
        dict(iid=8, type="00000043-0000-1000-8000-0026BB765291", characteristics=chars)])]


def n_model_pairs():
    out = []
    for _, d, key, sn, db in N_WORLD:
        dbs = "none" if db in (None, "noaid") else ",".join(f"{i}={N_FMT[f]}" for i, f in [(2, "string")] + N_DB)
        out.append(f"{hx(n_idstr(N_DEVS[d]).encode())}:{1 if key else 0}:{'none' if sn is None else sn}:{dbs}")
    return ";".join(out)


def n_realise(ev, ref_sn):
    """event -> (manufacturer data or None, opens for the model, class label).  ref_sn: reference state numbers
    (only used to place relative state numbers; updated by n_ref_step)"""
    from ref import bcast_ref as R
    if ev[0] == "P":                       # plain type-0x06 advertisement for device d with state number sn
        _, d, sn = ev
        return (bytes([0x06, 0x31, 0x00]) + N_DEVS[d] + (5).to_bytes(2, "little") + (sn & 0xFFFF).to_bytes(2, "little")
                + bytes([1, 2]) + b"\x01\x02\x03\x04"), [], "plain"
    if ev[0] == "R":
        return ev[1], [], "raw"
    _, d, key, rel, inner_rel, iid, value, mod, label = ev
    base = ref_sn.get(d)
    base = 5 if base is None else base
    n = base + rel
    inner = n if inner_rel is None else base + inner_rel
    pt = R.plaintext(inner, iid, value)
    payload = bytearray(R.seal(N_KEYS[key], n, N_DEVS[d], pt))
    intact = True
    if mod == "flip":
        payload[len(payload) // 2] ^= 0x10
        intact = False
    elif mod == "trunc":
        payload = payload[:-3]
        intact = False
    owner_key = next((k for _, dd, k, _, _ in N_WORLD if dd == d), None)
    opens = [(n, pt)] if (intact and owner_key == key) else []
    return bytes([0x11, 0x36]) + N_DEVS[d] + bytes(payload), opens, label


def n_ref_step(ev, opens, ref_sn):
    """reference bookkeeping of description.state_num (to place the next relative state numbers)"""
    if ev[0] == "P":
        if any(dd == ev[1] for _, dd, _, _, _ in N_WORLD):
            ref_sn[ev[1]] = ev[2] & 0xFFFF
    elif ev[0] == "N" and opens:
        d = ev[1]
        cur = ref_sn.get(d)
        n, pt = opens[0]
        if cur is not None and cur < n < cur + 100 and int.from_bytes(pt[0:2], "little") == n:
            ref_sn[d] = n


async def n_exec(loop, history):
    """one live controller, the whole history through the registered detection callback"""
    from aiohomekit.characteristic_cache import CharacteristicCacheMemory
    from aiohomekit.controller.ble.controller import BleController
    from bleak.backends.device import BLEDevice
    from bleak.backends.scanner import AdvertisementData
    cache = CharacteristicCacheMemory()
    for _, d, key, sn, db in N_WORLD:
        if db is not None:
            cache.async_create_or_update_map(n_idstr(N_DEVS[d]), 1, n_accessories(db), N_KEYS[key].hex() if key else None, sn)
    ctl = BleController(cache)
    await ctl.async_start()
    calls, fallbacks, pairings = [], [0], []
    for name, d, _, _, _ in N_WORLD:
        p = ctl.load_pairing(name, {"AccessoryPairingID": n_idstr(N_DEVS[d]), "AccessoryAddress": n_idstr(N_DEVS[d]).upper(),
                                    "Connection": "BLE"})
        p.dispatcher_connect(lambda e, name=name: calls.append((name, e)))
        orig = p._process_disconnected_events

        def spy(orig=orig):
            fallbacks[0] += 1
            return orig()
        p._process_disconnected_events = spy
        pairings.append(p)
    ref_sn = {d: sn for _, d, _, sn, _ in N_WORLD}
    out, models = [], []
    for ev in history:
        data, opens, label = n_realise(ev, ref_sn)
        dev = BLEDevice(address="00:11:22:33:44:99", name="acc", details=None)
        ad = AdvertisementData(local_name="acc", manufacturer_data={} if data is None else {76: data}, service_data={},
                               service_uuids=[], rssi=-60, platform_data=((),), tx_power=-127)
        c0, f0, nerr = len(calls), fallbacks[0], len(loop.errors)
        raised = ""
        try:
            ctl._scanner.cb(dev, ad)
        except Exception as e:  # noqa
            raised = type(e).__name__
        await settle(loop)
        for ctx in loop.errors[nerr:]:
            raised = raised or "loop-" + type(ctx.get("exception")).__name__
        iids = ",".join(str(k[1]) for _, e in calls[c0:] for k in e) or "-"
        sns = ",".join("none" if p.description is None else str(int(p.description.state_num)) for p in pairings)
        models.append(("none" if data is None else hx(data)) + "~" + (",".join(f"{n}={hx(pt)}" for n, pt in opens) or "."))
        n_ref_step(ev, opens, ref_sn)
        refs = ",".join("none" if ref_sn.get(d) is None else str(ref_sn[d]) for _, d, _, _, _ in N_WORLD)
        out.append(f"{iids}/{1 if fallbacks[0] > f0 else 0}/{raised or '-'}/{sns}/{refs}")
    for p in pairings:
        try:
            await p.shutdown()
        except Exception:  # noqa
            pass
    await ctl.async_stop()
    await settle(loop)
    return out, models


def n_model_canon(cell):
    """driver cell  <result>/<raised>/<sns>  ->  <listener iids>/<fallback>/<raised>/<sns>"""
    r, ra, sns = cell.split("/")
    iid = r.split(":")[1] if r.startswith("deliv:") else "-"
    fb = 1 if (r in ("nokey", "undec") or r.startswith("poll:")) else 0
    return f"{iid}/{fb}/{'raised' if ra == '1' else '-'}/{sns}", r


V8 = b"\x01\x02\x00\x00\x00\x00\x00\x00"


def n_templates():
    """event templates, state numbers relative to the target's current one"""
    T = []
    N = lambda d, key, rel, inner, iid, value, mod, label: ("N", d, key, rel, inner, iid, value, mod, label)   # noqa
    T += [N(0, 1, 1, None, 11, V8, None, "authentic-decodable"),
          N(0, 1, 1, None, 99, V8, None, "authentic-unknown-iid"),
          N(0, 1, 2, None, 13, b"\x01\x02", None, "authentic-short-value"),
          N(0, 1, 1, None, 16, b"\xff\xfe" + bytes(6), None, "authentic-bad-utf8"),
          N(0, 1, 1, None, 16, "héllo".encode() + b"!!", None, "authentic-string"),
          N(0, 1, 0, None, 11, V8, None, "stale"),
          N(0, 1, 3, 1, 11, V8, None, "inner-mismatch"),
          N(0, 1, 99, None, 12, V8, None, "window-edge"),
          N(0, 1, 100, None, 12, V8, None, "out-of-window"),
          N(0, 2, 1, None, 11, V8, None, "wrong-key"),
          N(0, 1, 1, None, 11, V8, "flip", "bit-flip"),
          N(0, 1, 1, None, 11, V8, "trunc", "truncated"),
          N(1, 2, 1, None, 11, V8, None, "authentic-no-accessory"),
          N(2, 1, 1, None, 11, V8, None, "pairing-without-key"),
          N(3, 4, 1, None, 11, V8, None, "pairing-without-description"),
          N(4, 1, 1, None, 11, V8, None, "pairing-without-cache"),
          N(5, 1, 1, None, 11, V8, None, "no-pairing"),
          ("P", 0, 40), ("P", 3, 7), ("P", 1, 2), ("R", b"\x11\x36" + N_DEVS[0][:3]), ("R", b"\x11"), ("R", None)]
    return T


def gen_notif(tier, r):
    T = n_templates()
    hist = [[t] for t in T]
    cheap = [t for t in T if t[0] != "N" or t[-1] in ("authentic-decodable", "authentic-unknown-iid", "authentic-short-value",
                                                    "authentic-bad-utf8", "authentic-string", "stale", "window-edge",
                                                    "authentic-no-accessory", "pairing-without-key", "pairing-without-description")]
    for a in cheap:
        for b in T:
            hist.append([a, b])
    if tier != "quick":
        for a in cheap:
            for b in cheap:
                for c in T:
                    hist.append([a, b, c])
    # every format x every value length 0..8, valid and invalid strings
    for iid, f in N_DB:
        for ln in range(0, 9):
            hist.append([("N", 0, 1, 1, None, iid, bytes(range(65, 65 + ln)), None, f"format-{f}-len{ln}")])
    samples = [b"\xc3\xa9", b"\xe2\x82\xac", b"\xf0\x9f\x98\x80", b"\xc3", b"\xe2\x82", b"\xed\xa0\x80", b"\xc0\x80", b"\xf4\x90\x80\x80",
               b"\x80", b"ab\xffcd", b"\xe0\x9f\x80", b"\xf0\x8f\x80\x80", b"\x00\x00", b"\x7f"]
    for _ in range(60 if tier == "quick" else 1500):
        samples.append(bytes(r.choice([r.randrange(256), r.randrange(0x80, 0xC0), r.randrange(0xC0, 0xF8), 0x41])
                             for _ in range(r.randrange(0, 9))))
    for v in samples:
        hist.append([("N", 0, 1, 1, None, 16, v[:8], None, "string-sample")])
    # longer random histories on the one live controller
    for _ in range(40 if tier == "quick" else 1500):
        hist.append([r.choice(cheap if r.random() < 0.8 else T) for _ in range(r.randrange(3, 9))])
    return hist


def n_job(job):
    hists, exe = job
    res = []
    import logging
    logging.disable(logging.CRITICAL)
    with Patches():
        for i in range(0, len(hists), 100):
            part = hists[i:i + 100]

            async def main(loop, part=part):
                for h in part:
                    res.append(await n_exec(loop, h))
            vloop.run(main)
    drv = Driver(exe, workers=1)
    pairs = n_model_pairs()
    ans = drv._run([f"nseq 1 {pairs} " + " ".join(m) for _, m in res])
    return [(o, m, a) for (o, m), a in zip(res, ans)]


def utf8_cases(tier, r):
    cases = [bytes([a]) for a in range(256)] + [bytes([a, b]) for a in range(256) for b in range(256)]
    edge = [0x00, 0x7F, 0x80, 0x8F, 0x90, 0x9F, 0xA0, 0xBF, 0xC0, 0xC1, 0xC2, 0xDF, 0xE0, 0xE1, 0xEC, 0xED, 0xEE, 0xEF, 0xF0, 0xF1,
            0xF3, 0xF4, 0xF5, 0xFF]
    for t in itertools.product(edge, repeat=3):
        cases.append(bytes(t))
    lead4 = [0xF0, 0xF1, 0xF4, 0xF5, 0xE0, 0xED]
    for a in lead4:
        for t in itertools.product([0x7F, 0x80, 0x8F, 0x90, 0x9F, 0xA0, 0xBF, 0xC0], repeat=3):
            cases.append(bytes((a,) + t))
    for _ in range(3000 if tier == "quick" else 100000):
        cases.append(bytes(r.choice([r.randrange(256), r.randrange(0x80, 0xC0), r.randrange(0xC2, 0xF5), 0x41])
                           for _ in range(r.randrange(3, 9))))
    return cases


def run_notif_stream(ctx, cov, viols, timing):
    tier, seed, exe = ctx["tier"], ctx["seed"], ctx["driver"]
    t0 = time.time()
    # the model's UTF-8 validity test against CPython's strict decoder
    drv = Driver(exe)
    cases = utf8_cases(tier, rng(seed, "c19utf8"))
    ans = drv.batch(["utf8 " + hx(c) for c in cases])
    bad = 0
    for c, a in zip(cases, ans):
        try:
            c.decode("utf-8")
            want = "1"
        except UnicodeDecodeError:
            want = "0"
        if a != want:
            bad += 1
            if bad == 1:
                viols.append(violation("notif:utf8-model-mismatch", f"utf8_ok({hx(c)}) = {a}, CPython says {want}", False,
                                       stream="notif", case=hx(c), broken="Model/Find.v utf8_ok <-> bytes.decode('utf-8')"))
    cov.evaluations += len(cases)
    cov.hist["notif_utf8"]["cases"] += len(cases)
    # histories
    hists = gen_notif(tier, rng(seed, "c19notif"))
    nw = min(WORKERS, 8)
    chunks = [hists[i::nw] for i in range(nw)]
    with multiprocessing.get_context("fork").Pool(nw) as pool:
        results = [x for part in pool.map(n_job, [(c, exe) for c in chunks]) for x in part]
    order = [h for c in chunks for h in c]
    seen = set()
    for h, (out, models, a) in sorted(zip(order, results), key=lambda x: len(x[0])):
        cells = a.split(" ")
        labels = [(ev[-1] if ev[0] == "N" else {"P": "plain", "R": "raw"}[ev[0]]) for ev in h]
        for j, (o, cell) in enumerate(zip(out, cells)):
            mc, mres = n_model_canon(cell)
            iids, fb, raised, sns, refs = o.split("/")
            cls = labels[j]
            if cls.startswith("format-"):
                cls = "value-length"
            elif cls == "string-sample":
                cls = "string-bytes"
            if h[j][0] != "N":          # the poll a plain advertisement may start is not part of this comparison
                fb = "*"
                mc = mc.split("/")[0] + "/*/" + "/".join(mc.split("/")[2:])
            impl_c = f"{iids}/{fb}/{'raised' if raised != '-' else '-'}/{sns}"
            cov.case("nt" + repr(h[:j + 1]), True,
                     sample=dict(stream="notif", history=[_n_repr(e) for e in h[:j + 1]], impl=o, model=cell) if cov.evaluations % 401 == 0 else None,
                     notif_class=labels[j], notif_model_result=mres.split(":")[0], notif_raised=raised, notif_hist_len=len(h))
            key = None
            if raised != "-":
                key, what, found = (f"notif:callback-raised:{raised}:{cls}",
                                    f"ble: the scanner callback raised {raised} on an encrypted notification ({labels[j]}) "
                                    f"at step {j} of the history", True)
            elif sns != refs:
                # reference bookkeeping: an authentic, fresh notification advances the stored state number (its replays
                # must stay ignored), a plain advertisement sets it, nothing else touches it
                key, what, found = (f"notif:state-number:{cls}",
                                    f"ble notification ({labels[j]}): state numbers must be {refs} but are {sns}", True)
            elif impl_c != mc:
                key, what, found = ("notif:model-mismatch", f"ble notification: implementation {impl_c} != model {mc} ({labels[j]})", False)
            if key:
                cov.extra["disagreements_checked"] = cov.extra.get("disagreements_checked", 0) + 1
                if key not in seen:
                    seen.add(key)
                    viols.append(violation(key, what, found, stream="notif", history=[_n_repr(e) for e in h[:j + 1]],
                                           manufacturer_data=[m.split("~")[0] for m in models[:j + 1]], impl=out[:j + 1],
                                           model=cells[:j + 1], world=[w[0] + ":" + n_idstr(N_DEVS[w[1]]) for w in N_WORLD]))
                break
    timing["notif_wall"] = round(time.time() - t0, 1)
    cov.extra["notif_histories"] = len(hists)


def _n_repr(ev):
    return [x.hex() if isinstance(x, (bytes, bytearray)) else x for x in ev]


def n_replay(v):
    def back(e):
        if e[0] == "N":
            return ("N", e[1], e[2], e[3], e[4], e[5], bytes.fromhex(e[6]), e[7], e[8])
        if e[0] == "R":
            return ("R", None if e[1] is None else bytes.fromhex(e[1]))
        return tuple(e)
    h = [back(e) for e in v["history"]]
    res = []
    with Patches():
        async def main(loop):
            res.append(await n_exec(loop, h))
        vloop.run(main)
    return h, res[0]


# ================================================================ run
def run(ctx):
    cov = Coverage("sched: distinct schedule with at least one waiting caller; extra/callback: distinct directed schedule; "
                   "parse: distinct input that is non-empty (TXT rdata or address list non-empty / manufacturer data non-empty)")
    viols, timing = [], {}
    t0 = time.time()
    if ctx.get("replay"):
        return replay(ctx)
    del _XC[:]
    run_parse_stream(ctx, cov, viols)
    timing["parse_wall"] = round(time.time() - t0, 1)
    t1 = time.time()
    run_extra_stream(ctx, cov, viols)
    run_callback_stream(ctx, cov, viols)
    timing["extra_callback_wall"] = round(time.time() - t1, 1)
    run_notif_stream(ctx, cov, viols, timing)
    run_world_stream(ctx, cov, viols, timing)
    run_sched_stream(ctx, cov, viols, timing)
    for k in ("sched_impl_cpu", "sched_model_cpu"):
        timing[k] = round(timing.get(k, 0), 1)
    cov.extra.setdefault("disagreements_checked", 0)
    # ---- kernel cross-check of the extracted driver on a sample of the requests of this run
    t2 = time.time()
    sample = xc_sample(_XC)
    nreq, bad = vm_crosscheck(ctx, sample)
    kinds = {}
    for req, _, _ in sample:
        k = " ".join(req.split(" ")[:2]) if req.startswith("sched ") else req.split(" ")[0]
        kinds[k] = kinds.get(k, 0) + 1
    cov.extra["vm_compute_crosscheck"] = {"requests": nreq, "disagreements": len(bad), "by_kind": kinds}
    if bad:
        viols.append(violation("extraction-vs-vm_compute",
                               f"extracted driver and vm_compute disagree on {len(bad)} of {nreq} sampled requests, e.g. {bad[0][0][:120]}: "
                               f"driver {bad[0][1][:120]} / Coq {bad[0][2][:120]}", False,
                               cases=[dict(request=r, driver=a, coq=g) for r, a, g in bad[:5]],
                               broken="extraction / ocaml/drv_c19.ml glue <-> Model/Find.v evaluated by the kernel"))
    timing["vm_crosscheck_wall"] = round(time.time() - t2, 1)
    cov.extra["timing_s"] = timing
    # one violation per key (the first = smallest found), with the number of cases behind it
    first, count = {}, {}
    for v in viols:
        count[v["key"]] = count.get(v["key"], 0) + 1
        first.setdefault(v["key"], v)
    viols = list(first.values())
    for v in viols:
        if count[v["key"]] > 1:
            v["payload"]["same_key_cases"] = count[v["key"]]
    cov.extra["exhaustive"] = True
    cov.extra["exhaustive_part"] = (
        "sched: every schedule of exactly the tier's depth (then a flush) over {caller k starts with timeout 8|16 ticks on id 1|2, "
        "valid|invalid advertisement for id 1|2, cancel a waiting caller (BLE: with and without letting the loop run), advance 5 ticks}, "
        "callers started in the order 1,2,3, id 2 only after id 1 (renaming symmetry); parse: every prefix, every single-byte deletion and "
        "every length-byte +-1/+200 of the base TXT blobs, every subset of the optional TXT keys x 3 key-case modes, every ordered "
        "selection of <=2 (thorough <=3) addresses from an 11-address pool, every prefix of the base manufacturer data, every first byte 0..255")
    cov.extra["domain_exclusions"] = [
        "TXT values with bytes >= 128 (unicode case mapping / unicode digits of str.lower()/int()): only 'parsed or ValueError' is checked",
        "negative ff/sf/ci (IntFlag folds negatives into the defined bits): field compared as 'neg'",
        "an advertisement processed in the very loop iteration in which a timeout fires (model resolves timer-first; schedules avoid it)",
        "aggregate caller started while both transports already know the device: either discovery accepted (asyncio.wait returns a set)",
    ]
    return dict(coverage=cov.to_dict(), violations=viols)


def replay(ctx):
    import json
    v = json.load(open(ctx["replay"]))
    cov = Coverage("replay")
    viols = []
    if v.get("stream") in ("sched", "extra", "callback") and v.get("events"):
        evs = [tuple(e) for e in v["events"]]
        kind = v["kind"]
        if all(e[1] in CAT for e in evs if e[0] in ("A", "Ab")):
            ii, ee = run_impl(kind, [evs], want_ep=True)
            i = ii[0]
            m = run_model(Driver(ctx["driver"], workers=1), kind, [evs])[0]
            cov.case(repr(evs), True, sample=dict(events=v["events"], impl=i, model=m, endpoints=ee[0]))
            for key, what, found in classify(kind, evs, i, m, ee[0]):
                viols.append(violation(key, what, found, stream="sched", kind=kind, events=v["events"], impl=i, model=m))
    elif v.get("stream") == "multi" and v.get("events"):
        evs = [tuple(e) for e in v["events"]]
        impl, models, cl = world_probe(v["world"], evs, ctx["driver"])
        cov.case(repr(evs), True, sample=dict(world=v["world"], events=v["events"], impl=[x[0] for x in impl], model=models))
        for key, what, found, c in cl:
            viols.append(violation(key, what, found, stream="multi", world=v["world"], events=v["events"], impl=[x[0] for x in impl],
                                   discovery_contents=[x[1] for x in impl], model=models))
    elif v.get("stream") == "notif" and v.get("history"):
        h, (out, models) = n_replay(v)
        cov.case(repr(v["history"]), True, sample=dict(history=v["history"], impl=out))
        for j, o in enumerate(out):
            raised, sns, refs = o.split("/")[2:5]
            if raised != "-" or sns != refs:
                viols.append(violation(v["key"], f"ble: the scanner callback raised {raised} / state numbers {sns} (want {refs}) at step {j}",
                                       True, stream="notif", history=v["history"], impl=out))
                break
    elif v.get("stream") == "parse":
        which, case = v["parser"], v["case"]
        if which == "ble-advertisement":
            impl = impl_padv(None if case is None else unhx(case))
        elif which == "ble-notification":
            impl = impl_pnot(None if case is None else unhx(case))
        else:
            addrs = [bytes.fromhex(a.split(":")[1]) for a in case.get("addresses", [])] if "addresses" in case else GOOD
            impl = impl_psvc(((case.get("name") or NAME.decode()).encode(), TY, addrs, case.get("port", 1), unhx(case["txt"])))
        cov.case(repr(case), True, sample=dict(case=case, impl=impl))
        if impl.startswith("other:") or (v.get("expected") and impl != v["expected"]):
            viols.append(violation(v["key"], v["what"], True, stream="parse", parser=which, case=case, impl=impl, expected=v.get("expected")))
    return dict(coverage=cov.to_dict(), violations=viols)
