"""C06 correspondence: nonce counters of the IP / BLE / CoAP encrypted transports vs Model/Counters.v.

For every history over the event alphabet the real code is driven on in-memory peers
(IP: SecureHomeKitProtocol on a fake asyncio transport; BLE: a real BlePairing with a scripted GATT
client, through _populate_accessories_and_characteristics/_async_pair_verify/_async_request/
ble_request/EncryptionKey/DecryptionKey; CoAP: EncryptionContext with a stub aiocoap context and
EventResource.render_put), with every AEAD call logged by wrapping the cipher objects.  The canonical
logs (seal / wire / open / accepted / request outcomes) are diffed against the extracted model; an
oracle that looks only at the implementation's own logs decides whether the property is violated.
"""
from __future__ import annotations

import asyncio
import itertools
import multiprocessing
import os
import struct
import types

from common import Coverage, Driver, rng, shrink_list, violation

# --------------------------------------------------------------------------- events
IP_ALPHA = ["S1.0", "S1025.0", "N", "R0", "F1", "C", "X", "T", "D", "RC", "O0", "N+N@10"]
# session establishment through the real code: genuine reconnects, reconnects against a replaying peer, old-session frames
# IP blocks whose plaintext makes the HTTP layer raise, then replays of that block and of earlier ones
IP_BAD = ["S1.0", "N", "NB0", "NB1", "NB2", "R0", "R1", "N+NB1@10"]
SESS = {"ip": ["S1.0", "N", "RR", "RC", "R0", "O0", "D", "SX1.0"], "coap": ["S1.0", "N", "N4", "RR", "RC", "EPC", "EN", "ER0"]}
# IP requests big enough for any size-dependent send path (64 KiB = 64 frames), cancelled at their first suspension point
IP_BIG = ["SX65536.0", "S65536.0", "SX1.0", "S1.0", "N", "X"]
# IP read segmentation: one TCP read = k complete frames + a prefix of the next (1 byte, 2 bytes, 10 bytes, all but
# the last byte of the tag), the rest in a second read; replays / corrupted frames glued behind complete frames
IP_SEG = ["S1.0", "N", "R0", "N@1", "N+N", "N+N@1", "N+N@2", "N+N@10", "N+N@-1", "N+R0@10", "N+C@2", "N+N+N@2"]
BLE_ALPHA = ["S1.0", "S30.1", "N", "R0", "F1", "C", "X", "T", "D", "RC", "RD", "RR", "O0"]
COAP_ALPHA = ["S1.0", "N", "R0", "F1", "C", "X", "T", "RC", "EN", "ER0", "EC"]
ALPHA = {"ip": IP_ALPHA, "ble": BLE_ALPHA, "coap": COAP_ALPHA}
# the 7-symbol core used for the deepest level of each sweep
CORE = {"ip": ["S1.0", "N", "R0", "F1", "C", "X", "RC"],
        "ble": ["S30.1", "N", "R0", "F1", "C", "X", "RC"],
        "coap": ["S1.0", "N", "R0", "F1", "C", "X", "T"]}
COAP_EVT = ["EN", "EU", "EL0", "EL1", "ER0", "ER1", "EC"]     # event channel incl. processing failures
# BLE GATT faults: write of fragment j refused with the link staying up (W) / dropping (V), read errors (T, TB, D)
# CoAP subscriptions on ONE live session: subscribe / unsubscribe-everything (each with its response), events, replays
COAP_SUBS = ["SUB+N", "UNS+N", "EN", "ER0", "SUB"]
# CoAP events INSIDE a request/response exchange: datagrams (genuine, duplicate, corrupted) that arrive while post_bytes
# holds the context lock, then the response / a cancellation / a timeout lets everything that waited go on
COAP_EVLOCK = ["S1.0", "N", "EN", "ER0", "EC", "X", "T"]
# BLE read retries: a GATT read of a (continuation) fragment fails with the link up and the relay presents recorded
# fragments again (R0/R1) - a fragment of a multi-fragment response must never be decrypted successfully twice
BLE_RETRY = ["S30.1", "N", "TB", "R0", "R1", "X", "T"]
BLE_FAULT = ["S1.0", "S30.1", "N", "W1.0.0", "W30.1.0", "W30.1.1", "V30.1.0", "TB", "D", "LD", "RC", "X"]


def parse_ev(t):
    if "+" in t or "@" in t:
        # glued delivery (read segmentation): sub-events joined by "+", "@c" = the read is cut c bytes into the last frame
        body, _, cut = t.partition("@")
        return ("G", [parse_ev(x) for x in body.split("+")], int(cut) if cut else 0)
    if t in ("N", "N4", "C", "X", "T", "TB", "D", "RC", "RD", "RR", "LD", "EPC", "SUB", "UNS", "EN", "EC", "EM", "EU"):
        return (t, 0, 0)
    if t.startswith("EL"):
        return ("EL", int(t[2:]), 0)
    if t.startswith("NB"):
        return ("NB", int(t[2:] or 0), 0)
    if t[0] in "WV":
        n, c, j = t[1:].split(".")
        return (t[0], (int(n), int(c)), int(j))
    if t.startswith("ER"):
        return ("ER", int(t[2:]), 0)
    if t.startswith("EF"):
        return ("EF", int(t[2:]), 0)
    if t.startswith("SX"):
        n, c = t[2:].split(".")
        return ("SX", int(n), int(c))
    if t[0] == "S":
        n, c = t[1:].split(".")
        return ("S", int(n), int(c))
    if t[0] in "ROF":
        return (t[0], int(t[1:]), 0)
    raise ValueError(t)


def model_tokens(h, transport="ble"):
    """The model is frame-granular: a glued / cut delivery is the sequence of its frames."""
    out = []
    for t in h:
        out += t.partition("@")[0].split("+") if ("+" in t or "@" in t) else [t]
    res, subscribed = [], False
    for t in out:
        if t == "SUB":
            # CoAPPairing.subscribe sends a request only for characteristics it is not subscribed to yet
            if not subscribed:
                res.append("S1.0")
            subscribed = True
        elif t == "UNS":
            subscribed = False
            res.append("S1.0")           # CoAPPairing.unsubscribe always sends the request
        else:
            res.append(MODEL_TOKEN(t, transport))
    return res


def MODEL_TOKEN(t, transport="ble"):
    """Harness-only variants of one model event: how a read fails (TB: BleakError, T: TimeoutError), whether the
    link drops with a refused write (V) or stays up (W), and how a CoAP event is processed after it was
    decrypted (EM: two entries; EU: undecodable 2nd value; EL<j>: the listener raises at entry j) - processing
    does not touch the counters in the model: the datagram was accepted."""
    if t == "TB":
        return "T"
    if t.startswith("NB"):
        # IP: a genuine block the layer above raises on (NB0 malformed status line, NB1 a good EVENT followed by an
        # EVENT with a non-UTF-8 body in one block, NB2 unknown message kind): decrypted, counted, fatal
        return "NB"
    if t == "EPC":
        # CoAP: mDNS reports a new address/port.  _async_endpoint_changed tears the session down (reconnect_soon);
        # the pairing's next operation connects again: teardown + new pair-verify
        return "RC"
    if t == "RR":
        # reconnect against a peer replaying a recorded pair-verify: BLE - the link dropped and no session came up;
        # IP / CoAP - the attempt fails and the connector goes on to set up a genuine new session
        return "D" if transport == "ble" else "RC"
    if t[0] == "V":
        return "W" + t[1:]
    if t in ("EM", "EU") or t.startswith("EL"):
        return "EN"
    return t


DIRS = {"c2a": "c", "a2c": "a", "evt": "e"}
CRASH_TYPES = (AttributeError, TypeError, IndexError, KeyError, NameError, UnboundLocalError, AssertionError)


def key_for(epoch, d):
    return bytes([0x40 + "cae".index(d), epoch & 0xFF, epoch >> 8]) + bytes([0x5A]) * 29


def nonce_bytes(n):
    return b"\x00\x00\x00\x00" + struct.pack("<Q", n)


def nonce_int(nb):
    nb = bytes(nb)
    if len(nb) != 12 or nb[:4] != b"\x00\x00\x00\x00":
        return -1 - int.from_bytes(nb, "little")      # a nonce layout the accessory does not use
    return struct.unpack("<Q", nb[4:])[0]


def aead(key):
    from cryptography.hazmat.primitives.ciphers.aead import ChaCha20Poly1305
    return ChaCha20Poly1305(key)


# --------------------------------------------------------------------------- trace of AEAD calls
class Trace:
    """Global (per history) ordered record of what the implementation did with its keys."""

    def __init__(self):
        self.keys = {}        # key bytes -> (epoch, dirletter)
        self.items = []       # ("seal", e, d, n) ("wire", e, d, n) ("open", e, d, n, ok) ("acc", e, d, n) ("out", e, id, cls)
        self.ct2nid = {}      # ciphertext produced by the implementation -> (e, d, n)
        self.ct2pt = {}
        self.frames = {}      # ciphertext produced by the accessory -> (e, d, n)
        self.nkeys = {}       # direction -> number of distinct session key byte strings seen
        self.current = {}     # direction -> bytes of the session key object built last

    def register(self, epoch, d):
        k = key_for(epoch, d)
        self.keys[k] = (epoch, d)
        return k

    def session_key(self, key, d):
        """A session key object was built by the implementation (BLE EncryptionKey/DecryptionKey): the epoch of
        a key is the order of first appearance of its BYTES, so a key that is used for a second session keeps
        its epoch and every reused nonce shows up as a duplicate."""
        key = bytes(key)
        if key not in self.keys:
            self.keys[key] = (self.nkeys.get(d, 0), d)
            self.nkeys[d] = self.nkeys.get(d, 0) + 1
        else:
            self.items.append(("rekey",) + self.keys[key])
        self.current[d] = key

    def sealed(self, key, nonce, pt, ct):
        if bytes(key) not in self.keys:
            return                      # not a session key (pair-verify handshake AEAD)
        e, d = self.keys.get(bytes(key), (-1, "?"))
        n = nonce_int(nonce)
        self.items.append(("seal", e, d, n))
        self.ct2nid[bytes(ct)] = (e, d, n)
        self.ct2pt[bytes(ct)] = bytes(pt)

    def opened(self, key, nonce, ct, ok):
        if bytes(key) not in self.keys:
            return
        e, d = self.keys.get(bytes(key), (-1, "?"))
        self.items.append(("open", e, d, nonce_int(nonce), 1 if ok else 0))
        if ok:
            fid = self.frames.get(bytes(ct), (-1, "?", -1))
            self.items.append(("acc",) + tuple(fid))

    def wire(self, ct):
        self.items.append(("wire",) + tuple(self.ct2nid.get(bytes(ct), (-1, "?", -1))))

    def out(self, epoch, rid, cls):
        self.items.append(("out", epoch, rid, cls))

    def canon(self):
        def j(kind, f):
            return ",".join(f(x) for x in self.items if x[0] == kind)
        outs = sorted((x for x in self.items if x[0] == "out"), key=lambda x: x[2])
        return "seal=%s;wire=%s;open=%s;acc=%s;out=%s" % (
            j("seal", lambda x: f"{x[1]}.{x[2]}.{x[3]}"), j("wire", lambda x: f"{x[1]}.{x[2]}.{x[3]}"),
            j("open", lambda x: f"{x[1]}.{x[2]}.{x[3]}.{x[4]}"), j("acc", lambda x: f"{x[1]}.{x[2]}.{x[3]}"),
            ",".join(f"{x[1]}.{x[2]}.{x[3]}" for x in outs))


TRACE = None   # the trace of the history being run (one at a time per process)


def classify(exc):
    if exc is None:
        return "ok"
    if isinstance(exc, asyncio.CancelledError):
        return "cancel"
    if isinstance(exc, CRASH_TYPES):
        return "crash"
    return "fail"


_patched = False


def patch_ciphers():
    """Wrap the library's cipher classes (IP and BLE use them) so every call is logged."""
    global _patched
    if _patched:
        return
    _patched = True
    import aiohomekit.crypto.chacha20poly1305 as cc
    from cryptography.exceptions import InvalidTag

    e_init, e_enc = cc.ChaCha20Poly1305Encryptor.__init__, cc.ChaCha20Poly1305Encryptor.encrypt
    d_init, d_dec = cc.ChaCha20Poly1305Decryptor.__init__, cc.ChaCha20Poly1305Decryptor.decrypt

    def enc_init(self, key):
        e_init(self, key)
        self._c06_key = bytes(key)

    def enc(self, aad, nonce, plaintext):
        ct = e_enc(self, aad, nonce, plaintext)
        if TRACE is not None:
            TRACE.sealed(self._c06_key, nonce, plaintext, ct)
        return ct

    def dec_init(self, key):
        d_init(self, key)
        self._c06_key = bytes(key)

    def dec(self, aad, nonce, ciphertext):
        try:
            pt = d_dec(self, aad, nonce, ciphertext)
        except InvalidTag:
            if TRACE is not None:
                TRACE.opened(self._c06_key, nonce, ciphertext, False)
            raise
        if TRACE is not None:
            TRACE.opened(self._c06_key, nonce, ciphertext, True)
        return pt

    import aiohomekit.controller.ble.key as bk
    ek_init, dk_init = bk.EncryptionKey.__init__, bk.DecryptionKey.__init__

    def ek(self, key):
        ek_init(self, key)
        if TRACE is not None:
            TRACE.session_key(key, "c")

    def dk(self, key):
        dk_init(self, key)
        if TRACE is not None:
            TRACE.session_key(key, "a")

    import aiohomekit.controller.ip.connection as ipc
    sp_init = ipc.SecureHomeKitProtocol.__init__

    def sp(self, connection, a2c_key, c2a_key):
        sp_init(self, connection, a2c_key, c2a_key)
        if TRACE is not None:
            TRACE.session_key(a2c_key, "a")
            TRACE.session_key(c2a_key, "c")

    ipc.SecureHomeKitProtocol.__init__ = sp
    bk.EncryptionKey.__init__ = ek
    bk.DecryptionKey.__init__ = dk
    cc.ChaCha20Poly1305Encryptor.__init__ = enc_init
    cc.ChaCha20Poly1305Encryptor.encrypt = enc
    cc.ChaCha20Poly1305Decryptor.__init__ = dec_init
    cc.ChaCha20Poly1305Decryptor.decrypt = dec


class LoggedAead:
    """cryptography-style AEAD object handed to the CoAP EncryptionContext."""

    def __init__(self, key):
        self.key = key
        self.inner = aead(key)

    def encrypt(self, nonce, data, aad):
        ct = self.inner.encrypt(nonce, data, aad)
        TRACE.sealed(self.key, nonce, data, ct)
        return ct

    def decrypt(self, nonce, data, aad):
        from cryptography.exceptions import InvalidTag
        try:
            pt = self.inner.decrypt(nonce, data, aad)
        except InvalidTag:
            TRACE.opened(self.key, nonce, data, False)
            raise
        TRACE.opened(self.key, nonce, data, True)
        return pt


# --------------------------------------------------------------------------- virtual-time loop
class VLoop(asyncio.SelectorEventLoop):
    def __init__(self):
        super().__init__()
        self.vt = 1000.0
        self.errors = []
        self.set_exception_handler(lambda loop, c: self.errors.append(repr(c.get("exception") or c.get("message"))))

    def time(self):
        return self.vt

    def run_in_executor(self, executor, func, *args):
        """Deterministic executor: the job runs in a later loop iteration on this thread, and - like a job a
        real worker thread has already picked up - it runs to the end even if the waiting task was cancelled."""
        fut = self.create_future()

        def job():
            try:
                res = func(*args)
            except BaseException as exc:  # noqa
                if not fut.done():
                    fut.set_exception(exc)
                return
            if not fut.done():
                fut.set_result(res)
        self.call_soon(job)
        return fut

    async def create_connection(self, protocol_factory, host=None, port=None, *, sock=None, **kw):
        """loop.create_connection(..., sock=<FakeSock>) as used by HomeKitConnection._connect_once"""
        proto = protocol_factory()
        tr = FakeTransport(self, proto, run=getattr(sock, "run", None))
        proto.connection_made(tr)
        return tr, proto


_loop = None


def get_loop():
    global _loop
    if _loop is None:
        _loop = VLoop()
        asyncio.set_event_loop(_loop)
    return _loop


def settle(loop, rounds=200):
    """Run loop iterations (never blocking: a stop is always queued) until nothing is ready."""
    for _ in range(rounds):
        loop.call_soon(loop.stop)
        loop.run_forever()
        if not loop._ready:
            return
    raise RuntimeError("loop did not settle")


class Requests:
    """Tasks started for Send events, in order."""

    def __init__(self, loop):
        self.loop = loop
        self.tasks = []    # (rid, epoch, task)
        self.reported = set()

    def start(self, epoch, coro):
        rid = len(self.tasks)
        t = self.loop.create_task(coro)
        self.tasks.append((rid, epoch, t))
        return t

    def inflight(self):
        for rid, ep, t in self.tasks:
            if not t.done():
                return t
        return None

    def pending(self):
        return sum(1 for _, _, t in self.tasks if not t.done())

    def collect(self):
        for rid, ep, t in self.tasks:
            if t.done() and rid not in self.reported:
                self.reported.add(rid)
                if t.cancelled():
                    cls = "cancel"
                else:
                    cls = classify(t.exception())
                TRACE.out(ep, rid, cls)

    def finish(self):
        for _, _, t in self.tasks:
            if not t.done():
                t.cancel()
        settle(self.loop)
        for _, _, t in self.tasks:
            if t.done() and not t.cancelled():
                t.exception()


# --------------------------------------------------------------------------- pair-verify peer
def ble_identities():
    """Deterministic long-term keys of the controller and the reference accessory (per process)."""
    global _BLE_IDS
    if _BLE_IDS is None:
        from cryptography.hazmat.primitives import serialization
        from cryptography.hazmat.primitives.asymmetric.ed25519 import Ed25519PrivateKey
        raw = dict(encoding=serialization.Encoding.Raw, format=serialization.PublicFormat.Raw)
        acc_ltsk = Ed25519PrivateKey.from_private_bytes(b"\x11" * 32)
        ctrl_seed = b"\x22" * 32
        ctrl_ltpk = Ed25519PrivateKey.from_private_bytes(ctrl_seed).public_key().public_bytes(**raw)
        _BLE_IDS = dict(acc_id=b"00:00:00:00:00:01", acc_ltsk=acc_ltsk, acc_ltpk=acc_ltsk.public_key().public_bytes(**raw),
                        ctrl_id=b"c06-controller", ctrl_seed=ctrl_seed, ctrl_ltpk=ctrl_ltpk)
    return _BLE_IDS


_BLE_IDS = None


def pairing_data(**extra):
    ids = ble_identities()
    d = {"AccessoryPairingID": ids["acc_id"].decode(), "iOSPairingId": ids["ctrl_id"].decode(),
         "AccessoryLTPK": ids["acc_ltpk"].hex(), "iOSDeviceLTSK": ids["ctrl_seed"].hex(), "iOSDeviceLTPK": ids["ctrl_ltpk"].hex()}
    d.update(extra)
    return d


class PvPeer:
    """Who answers the controller's pair-verify: the independent reference accessory (ref/c06acc.py), or an on-path
    attacker who only plays back the accessory's replies (M2, M4) of an earlier full verify."""

    def __init__(self):
        from ref.c06acc import PairVerifyAccessory
        ids = ble_identities()
        self.acc = PairVerifyAccessory(ids["acc_id"], ids["acc_ltsk"], ids["ctrl_id"], ids["ctrl_ltpk"])
        self.replay = None       # not None: replies still to be played back
        self.cur = []
        self.recorded = None     # (replies of the last full verify, accessory epoch of that session)
        self.new_secret = None

    def begin(self, replay=False):
        self.new_secret, self.cur = None, []
        self.replay = list(self.recorded[0]) if replay and self.recorded else None

    def handle(self, tlv):
        from ref.tlv8 import ref_encode
        if self.replay is not None:
            return self.replay.pop(0) if self.replay else ref_encode([(6, b"\x02"), (7, b"\x02")])
        reply, secret = self.acc.handle(tlv)
        self.cur.append(reply)
        if secret is not None:
            self.new_secret = secret
        return reply

    def end(self, acc_epoch):
        """After a genuine handshake that established a session numbered acc_epoch on the accessory side."""
        self.replay = None
        if self.acc.last == "full":
            self.recorded = (list(self.cur), acc_epoch)


# --------------------------------------------------------------------------- IP
class FakeTransport(asyncio.Transport):
    """In-memory transport with the selector transport's contract: nothing is delivered or written once
    closing; close() -> connection_lost via call_soon; an exception out of data_received is fatal."""

    def __init__(self, loop, proto, run=None):
        super().__init__()
        self.loop, self.proto, self.closing, self.run = loop, proto, False, run
        self.plain = b""

    def is_closing(self):
        return self.closing

    def set_protocol(self, proto):
        self.proto = proto

    def get_protocol(self):
        return self.proto

    def get_extra_info(self, name, default=None):
        return default

    def _write(self, data):
        if self.closing:
            return
        data = bytes(data)
        if type(self.proto).__name__ != "SecureHomeKitProtocol":
            # plain HTTP before the secure session: only /pair-verify is spoken here
            self.plain += data
            head, sep, body = self.plain.partition(b"\r\n\r\n")
            if sep:
                m = [ln for ln in head.split(b"\r\n") if ln.lower().startswith(b"content-length:")]
                need = int(m[0].split(b":")[1]) if m else 0
                if len(body) >= need:
                    self.plain = b""
                    self.run.on_plain_request(self, head, body[:need])
            return
        while len(data) >= 2:
            ln = struct.unpack("<H", data[:2])[0]
            TRACE.wire(data[2:2 + ln + 16])
            data = data[2 + ln + 16:]

    def write(self, data):
        self._write(data)

    def writelines(self, lines):
        self._write(b"".join(bytes(x) for x in lines))

    def can_write_eof(self):
        return True

    def write_eof(self):
        pass

    def _lost(self, exc):
        if not self.closing:
            self.closing = True
            self.loop.call_soon(self.proto.connection_lost, exc)

    def close(self):
        self._lost(None)

    def abort(self):
        self._lost(None)

    def deliver(self, data):
        if self.closing:
            return
        try:
            self.proto.data_received(data)
        except (SystemExit, KeyboardInterrupt):
            raise
        except BaseException as exc:  # noqa
            self._lost(exc)

    def peer_eof(self):
        if self.closing:
            return
        if not self.proto.eof_received():
            self.close()


class FakeSock:
    def __init__(self, run):
        self.run = run

    def getpeername(self):
        return ("10.0.0.1", 80)

    def setsockopt(self, *a):
        pass

    def close(self):
        pass


class IpRun:
    """One long-lived real SecureHomeKitConnection.  Every session is set up by the real _connect_once: TCP connect
    (seams: aiohappyeyeballs.start_connection, loop.create_connection -> in-memory transport), pair-verify over plain
    HTTP through post_tlv / get_session_keys against the reference accessory, key derivation, switch to the real
    SecureHomeKitProtocol.  The automatic reconnector (_start_connector, C10's subject) is switched off: reconnects
    are explicit events.  Session keys are identified by their BYTES (SecureHomeKitProtocol constructor wrapped)."""

    def __init__(self):
        patch_ciphers()
        import aiohomekit.controller.ip.connection as ipc
        self.ipc = ipc
        self.loop = get_loop()
        self.reqs = Requests(self.loop)
        self.peer = PvPeer()
        self.epoch = -1          # controller side: epoch id of the key bytes in use
        self.acc_epoch = -1      # accessory side
        self.n_acc = 0
        self.acc_keys = {}
        self.cache = {}
        self.sessions = []

        self.events_seen = []

        async def connection_made(secure):
            return None
        owner = types.SimpleNamespace(name="c06", description=None, connection_made=connection_made,
                                      event_received=self.events_seen.append)

        async def make():
            conn = ipc.SecureHomeKitConnection(owner, pairing_data(AccessoryIP="10.0.0.1", AccessoryPort=80))
            conn._start_connector = lambda: None
            return conn
        t = self.loop.create_task(make())
        settle(self.loop)
        self.conn = t.result()
        self.new_session()

    def on_plain_request(self, tr, head, body):
        reply = self.peer.handle(body)
        resp = b"HTTP/1.1 200 OK\r\nContent-Type: application/pairing+tlv8\r\nContent-Length: %d\r\n\r\n" % len(reply) + reply
        self.loop.call_soon(tr.deliver, resp)

    def connect(self, replay=False):
        ipc = self.ipc

        async def start_connection(addr_infos, **kw):
            return FakeSock(self)
        saved = ipc.aiohappyeyeballs.start_connection
        ipc.aiohappyeyeballs.start_connection = start_connection
        self.peer.begin(replay)
        try:
            t = self.loop.create_task(self.conn._connect_once())
            settle(self.loop)
            if not t.done():
                t.cancel()
                settle(self.loop)
                raise RuntimeError("IP connect did not complete")
            ok = t.exception() is None if replay else (t.result(), True)[1]
        finally:
            ipc.aiohappyeyeballs.start_connection = saved
        return ok and type(self.conn.protocol).__name__ == "SecureHomeKitProtocol"

    def adopt(self):
        self.proto, self.tr = self.conn.protocol, self.conn.transport
        cur = TRACE.current.get("c")
        if cur is not None:
            self.epoch = TRACE.keys[cur][0]
        self.srv = 0

    def new_session(self):
        from ref.c06acc import session_keys
        if not self.connect():
            raise RuntimeError("genuine pair-verify did not produce a secure session")
        if self.peer.new_secret is None:
            # a secure session came up although the accessory never completed a pair-verify: the keys cannot be new
            self.sessions.append("unverified")
            return self.adopt()
        c2a, a2c = session_keys(self.peer.new_secret)          # the accessory derives ITS keys itself
        self.acc_epoch = self.n_acc
        self.n_acc += 1
        self.acc_keys[self.acc_epoch] = aead(a2c)
        self.peer.end(self.acc_epoch)
        self.sessions.append("full")
        self.adopt()

    def replayed_session(self):
        """'RR' on IP: the connection is closed, an attacker answers the next pair-verify with the recorded M2/M4.  The
        unchanged code rejects it (fresh ephemeral key); the real reconnector then drops the transport and tries
        again, here against the genuine accessory: the event is the model's Reconnect.  If the replay is accepted
        the session can only have the recorded keys, and the attacker continues with that session's frames."""
        if self.peer.recorded is None:
            return self.new_session()
        if self.connect(replay=True):
            self.sessions.append("replayed")
            self.acc_epoch = self.peer.recorded[1]
            self.adopt()
        else:
            self.conn._drop_transport()
            settle(self.loop)
            self.new_session()

    def frame(self, epoch, i, ahead=0, bad=None):
        """The accessory's frame with nonce i.  [ahead] = frames glued in front of it in the same event: it is
        a response only if a request will still be pending when it is reached."""
        if (epoch, i) not in self.cache:
            body = f"{epoch}.{i}".encode()
            head = b"HTTP/1.1 200 OK" if self.reqs.pending() - ahead > 0 else b"EVENT/1.0 200 OK"
            pt = head + b"\r\nContent-Length: %d\r\n\r\n" % len(body) + body
            if bad == 0:
                pt = b"GARBAGE\r\n\r\n"                                        # HttpException: malformed status line
            elif bad == 1:
                good = b"EVENT/1.0 200 OK\r\nContent-Length: %d\r\n\r\n" % len(body) + body
                pt = good + b"EVENT/1.0 200 OK\r\nContent-Length: 2\r\n\r\n\xff\xfe"   # UnicodeDecodeError in event_received
            elif bad == 2:
                pt = b"OTHER/1.0 200 OK\r\nContent-Length: 0\r\n\r\n"              # RuntimeError: unknown http type
            ln = struct.pack("<H", len(pt))
            ct = self.acc_keys[epoch].encrypt(nonce_bytes(i), pt, ln)
            TRACE.frames[ct] = (epoch, "a", i)
            self.cache[(epoch, i)] = ln + ct
        return self.cache[(epoch, i)]

    @property
    def old_cache(self):
        return {i: f for (e, i), f in self.cache.items() if e == self.acc_epoch - 1}

    def wire_frame(self, ev, ahead=0):
        """Bytes the accessory / attacker puts on the TCP stream for one delivery event (None: nothing)."""
        k, a, b = ev
        if k in ("N", "R", "F"):
            i = self.srv if k == "N" else (a if k == "R" else self.srv + a)
            self.srv = max(self.srv, i + 1)
            return self.frame(self.acc_epoch, i, ahead)
        if k == "NB":
            i = self.srv
            self.srv = i + 1
            return self.frame(self.acc_epoch, i, ahead, bad=a)
        if k == "C":
            f = bytearray(self.frame(self.acc_epoch, self.srv, ahead))
            self.srv += 1
            f[-1] ^= 1
            return bytes(f)
        if k == "O":
            if self.acc_epoch <= 0:
                return None
            old = self.cache.get((self.acc_epoch - 1, a))
            if old is None:
                pt = b"EVENT/1.0 200 OK\r\nContent-Length: 1\r\n\r\nx"
                ln = struct.pack("<H", len(pt))
                ct = self.acc_keys[self.acc_epoch - 1].encrypt(nonce_bytes(a), pt, ln)
                TRACE.frames[ct] = (self.acc_epoch - 1, "a", a)
                old = self.cache[(self.acc_epoch - 1, a)] = ln + ct
            return old
        raise ValueError(f"not a delivery event: {k}")

    def step(self, ev):
        k, a, b = ev
        if k == "S":
            self.reqs.start(self.epoch, self.proto.send_bytes(b"x" * a))
        elif k == "SX":
            # the request is cancelled at its FIRST suspension point (one loop iteration = the task's first step)
            t = self.reqs.start(self.epoch, self.proto.send_bytes(b"x" * a))
            self.loop.call_soon(self.loop.stop)
            self.loop.run_forever()
            if not t.done():
                t.cancel()
        elif k in ("N", "NB", "R", "F", "C", "O"):
            f = self.wire_frame(ev)
            if f is not None:
                self.tr.deliver(f)
        elif k == "G":
            # read segmentation: the frames of the sub-events are glued into ONE TCP read that ends [cut]
            # bytes into the last frame (cut < 0: counted from its end, i.e. inside the tag); the rest of the
            # last frame arrives as a second read.  cut = 0: all frames complete in one read.
            frames = []
            for sub in a:
                f = self.wire_frame(sub, ahead=len(frames))
                if f is not None:
                    frames.append(f)
            if frames:
                last = frames[-1]
                cut = b if b >= 0 else len(last) + b
                cut = max(1, min(len(last) - 1, cut)) if b != 0 else len(last)
                self.tr.deliver(b"".join(frames[:-1]) + last[:cut])
                settle(self.loop)
                if cut < len(last):
                    self.tr.deliver(last[cut:])
        elif k == "X":
            t = self.reqs.inflight()
            if t is not None:
                t.cancel()
        elif k == "T":
            self.loop.vt += 31.0
        elif k == "D":
            self.tr.peer_eof()
        elif k in ("RC", "RD", "RR"):
            self.tr.close()
            settle(self.loop)
            self.reqs.collect()
            if k == "RR":
                self.replayed_session()
            else:
                self.new_session()
        settle(self.loop)
        self.reqs.collect()


# --------------------------------------------------------------------------- BLE
PAIR_VERIFY_UUID = "0000004E-0000-1000-8000-0026BB765291"
class FakeGatt:
    """Scripted GATT client.  Data characteristic: writes complete at once and are recorded; a read blocks
    until the history supplies a frame, an error, or a cancellation.  Pair-verify characteristic: the
    (unencrypted) HAP PDUs are answered at once by the independent reference accessory (ref/c06acc.py)."""

    def __init__(self, run, cb):
        self.run, self.cb = run, cb
        self.is_connected = True
        self.address = "AA:BB:CC:DD:EE:FF"
        self.read_waiter = None
        self.handle = types.SimpleNamespace(properties=["read", "write"], max_write_without_response_size=0, uuid="data")
        self.pv_handle = types.SimpleNamespace(properties=["read", "write"], max_write_without_response_size=0, uuid="pair-verify")

    async def get_characteristic(self, service_type, char_type, iid=None):
        if str(char_type).upper() == PAIR_VERIFY_UUID:
            return self.pv_handle
        return self.handle

    async def get_characteristic_iid(self, char):
        return 2 if char is self.pv_handle else 7

    def determine_fragment_size(self, overhead, handle):
        return 43 - overhead if overhead else 512

    async def write_gatt_char(self, handle, data, response=None):
        if handle is self.pv_handle:
            self.run.pv_write(bytes(data))
            return
        data = bytes(data)
        pt = TRACE.ct2pt.get(data)
        if pt is not None and not (pt[0] & 0x80):
            self.run.widx = 0                      # first fragment of a request
        j, self.run.widx = self.run.widx, self.run.widx + 1
        fault = self.run.cur_wfault
        if fault is not None and fault[0] == j:
            from bleak.exc import BleakError
            if fault[1]:
                self.drop()                        # the link goes down with the write
            raise BleakError("write refused")      # nothing reaches the accessory
        self.run.written(data)

    async def read_gatt_char(self, handle):
        if handle is self.pv_handle:
            return bytearray(self.run.pv_read())
        self.read_waiter = self.run.loop.create_future()
        try:
            return await self.read_waiter
        finally:
            self.read_waiter = None

    async def disconnect(self):
        self.drop()

    async def clear_cache(self):
        return True

    def drop(self):
        if self.is_connected:
            self.is_connected = False
            self.cb(self)


class BleRun:
    """Real BlePairing.  Reconnect = the real _populate_accessories_and_characteristics -> _ensure_connected
    (seam: establish_connection) -> _async_pair_verify -> drive_pairing_state_machine -> get_session_keys /
    resume_m1 / resume_m3 against the reference accessory, which derives ITS session keys itself.
    'RC': the accessory accepts a pair-resume when it still knows the session; 'RD': it has forgotten its
    sessions, declines, and a full pair-verify follows.  The controller-side epoch of a key is the order of
    first appearance of its BYTES in an EncryptionKey/DecryptionKey, so a key that comes back is seen as
    the same key."""

    def __init__(self):
        patch_ciphers()
        import aiohomekit.controller.ble.pairing as bp
        from ref.c06acc import PairVerifyAccessory
        self.bp = bp
        self.loop = get_loop()
        self.reqs = Requests(self.loop)
        ids = ble_identities()
        self.acc = PairVerifyAccessory(ids["acc_id"], ids["acc_ltsk"], ids["ctrl_id"], ids["ctrl_ltpk"])
        self.epoch = -1          # controller side: epoch id of the key bytes in use
        self.acc_epoch = -1      # accessory side: sessions it established - 1
        self.acc_keys = {}
        self.client = None
        ctrl = types.SimpleNamespace(_char_cache=types.SimpleNamespace(get_map=lambda _id: None, async_create_or_update_map=lambda *a, **k: None))
        pdata = {"AccessoryPairingID": ids["acc_id"].decode(), "AccessoryAddress": "AA:BB:CC:DD:EE:FF", "Connection": "BLE",
                 "iOSPairingId": ids["ctrl_id"].decode(), "AccessoryLTPK": ids["acc_ltpk"].hex(),
                 "iOSDeviceLTSK": ids["ctrl_seed"].hex(), "iOSDeviceLTPK": ids["ctrl_ltpk"].hex()}
        self.pairing = bp.BlePairing(ctrl, pdata, device=types.SimpleNamespace(address="AA:BB:CC:DD:EE:FF", name="c06"))
        self.pairing._accessories_state = types.SimpleNamespace(accessories=[1], config_num=0, broadcast_key=None, state_num=None)
        self.char = types.SimpleNamespace(service=types.SimpleNamespace(type="svc"), type="chr", iid=7)
        self.reads_done = 0
        self.conts = []
        self.wfaults = []        # per request: None or (index of the refused write, link drops)
        self.widx = 0
        self.cur_tid = 0
        self.cache = {}
        self.old_cache = {}
        self.srv = 0
        self.pv_buf = None
        self.pv_reply = b""
        self.new_secret = None
        self.replay_hs = None    # not None: the peer is an attacker replaying a recorded handshake
        self.hs_cur = []
        self.recorded = None     # (accessory replies of the last full pair-verify, accessory epoch of that session)
        self.caches = {}
        self.n_acc = 0
        self.sessions = []       # how each session came about: "full" / "resume"
        self.step(("RC", 0, 0))

    # seam: the connection factory
    async def _establish(self, device, name, disconnected_cb, **kw):
        self.client = FakeGatt(self, disconnected_cb)
        return self.client

    # ---- pair-verify characteristic (unencrypted HAP-BLE PDUs)
    def pv_write(self, data):
        from ref.tlv8 import ref_decode, ref_encode
        if not data[0] & 0x80:
            self.pv_tid = data[2]
            self.pv_total = struct.unpack("<H", data[5:7])[0] if len(data) >= 7 else 0
            self.pv_buf = data[7:]
        else:
            self.pv_buf += data[2:]
        if len(self.pv_buf) >= self.pv_total:
            body = dict(ref_decode(self.pv_buf[:self.pv_total]) or [])
            if self.replay_hs is not None:
                # a peer that only plays back the accessory's side of a recorded full pair-verify (M2, M4)
                reply, secret = (self.replay_hs.pop(0) if self.replay_hs else ref_encode([(6, b"\x02"), (7, b"\x02")])), None
            else:
                reply, secret = self.acc.handle(body.get(1, b""))
                self.hs_cur.append(reply)
            if secret is not None:
                self.new_secret = secret
            out = ref_encode([(1, reply)])
            self.pv_reply = bytes([0x02, self.pv_tid, 0]) + struct.pack("<H", len(out)) + out

    def pv_read(self):
        return self.pv_reply

    def written(self, data):
        TRACE.wire(data)
        pt = TRACE.ct2pt.get(data)
        if pt is not None and len(pt) >= 3 and not (pt[0] & 0x80):
            self.cur_tid = pt[2]
            self.reads_done = 0

    def frame(self, i):
        if i not in self.cache:
            epoch = self.acc_epoch
            cont = self.cur_cont
            ident = bytes([epoch & 0xFF, i & 0xFF])
            if self.reads_done == 0:
                body = ident if cont else ident * 2
                pt = bytes([0x02, self.cur_tid, 0]) + struct.pack("<H", 4) + body
            else:
                pt = bytes([0x82, self.cur_tid]) + ident
            ct = self.acc_keys[epoch].encrypt(nonce_bytes(i), pt, b"")
            TRACE.frames[ct] = (epoch, "a", i)
            self.cache[i] = ct
        return self.cache[i]

    def reading(self):
        return self.client is not None and self.client.read_waiter is not None and not self.client.read_waiter.done()

    def give(self, data):
        self.reads_done += 1
        self.client.read_waiter.set_result(bytearray(data))

    def _populate(self, tolerate=False):
        bp = self.bp
        saved = bp.establish_connection
        bp.establish_connection = self._establish
        try:
            t = self.loop.create_task(self.pairing._populate_accessories_and_characteristics())
            settle(self.loop)
            if not t.done():
                t.cancel()
                settle(self.loop)
                raise RuntimeError("BLE reconnect did not complete")
            if tolerate:
                t.exception()
            else:
                t.result()
        finally:
            bp.establish_connection = saved

    def reconnect(self, decline):
        from ref.c06acc import session_keys
        if decline:
            self.acc.forget()
        self.new_secret = None
        self.hs_cur = []
        self._populate()
        if self.new_secret is not None:
            # the accessory starts a new session with the keys IT derived
            c2a, a2c = session_keys(self.new_secret)
            self.acc_epoch = self.n_acc
            self.n_acc += 1
            self.acc_keys[self.acc_epoch] = aead(a2c)
            self.old_cache, self.cache = self.cache, {}
            self.caches[self.acc_epoch] = self.cache
            self.srv = 0
            self.sessions.append(self.acc.last)
            if self.acc.last == "full":
                self.recorded = (list(self.hs_cur), self.acc_epoch)
        cur = TRACE.current.get("c")
        if cur is not None:
            self.epoch = TRACE.keys[cur][0]

    def replayed_reconnect(self):
        """'RR': the link drops, and on the next connection an on-path attacker answers the pair-verify with the
        accessory's recorded M2/M4 of an earlier full verify.  The controller's ephemeral key is fresh, so the
        unchanged code rejects the recorded M2 and no session comes up (the link is dropped again): the event is
        the model's Disconnect.  If a session does come up it can only have the recorded session's keys; the
        attacker then continues with that session's recorded frames."""
        self.step(("D", 0, 0))
        if self.recorded is None:
            return
        self.replay_hs = list(self.recorded[0])
        try:
            self._populate(tolerate=True)
        finally:
            self.replay_hs = None
        if self.pairing._encryption_key is None:
            if self.client is not None and self.client.is_connected:
                self.client.drop()
        else:
            self.sessions.append("replayed")
            self.acc_epoch = self.recorded[1]
            self.cache = self.caches[self.acc_epoch]
            self.srv = 0
            cur = TRACE.current.get("c")
            if cur is not None:
                self.epoch = TRACE.keys[cur][0]

    def step(self, ev):
        from bleak.exc import BleakError
        k, a, b = ev
        if k == "G":
            for sub in a:
                self.step(sub)
            return
        if k in ("S", "W", "V"):
            (n, cont), fault = ((a, b), None) if k == "S" else (a, (b, k == "V"))
            self.conts.append(cont)
            self.wfaults.append(fault)
            self.reqs.start(self.epoch, self.pairing._async_request(self.opcode(), self.char, b"y" * n))
        elif k in ("N", "R", "F", "O", "C"):
            if self.reading():
                if k == "N":
                    i = self.srv
                elif k == "R":
                    i = a
                elif k == "F":
                    i = self.srv + a
                if k in ("N", "R", "F"):
                    self.srv = max(self.srv, i + 1)
                    self.give(self.frame(i))
                elif k == "C":
                    f = bytearray(self.frame(self.srv))
                    self.srv += 1
                    f[-1] ^= 1
                    self.give(bytes(f))
                elif k == "O" and self.acc_epoch > 0:
                    old = self.old_cache.get(a)
                    if old is None:
                        old = self.acc_keys[self.acc_epoch - 1].encrypt(nonce_bytes(a), bytes([0x02, self.cur_tid, 0, 0, 0]), b"")
                        TRACE.frames[old] = (self.acc_epoch - 1, "a", a)
                        self.old_cache[a] = old
                    self.give(old)
        elif k == "X":
            t = self.reqs.inflight()
            if t is not None:
                t.cancel()
        elif k in ("T", "TB"):
            if self.reading():
                self.client.read_waiter.set_exception(asyncio.TimeoutError() if k == "T" else BleakError("read failed"))
        elif k == "D":
            if self.client is not None and self.client.is_connected:
                w = self.client.read_waiter
                self.client.drop()
                if w is not None and not w.done():
                    w.set_exception(BleakError("disconnected"))
        elif k in ("RC", "RD"):
            self.reconnect(decline=(k == "RD"))
        elif k == "LD":
            # a disconnected callback that bleak delivers late, while the link (same client object) is up; then the next
            # operation starts with _populate_accessories_and_characteristics.  Operations are serialised by the
            # operation lock, so nothing happens while a request is still in flight.
            if self.reqs.pending() == 0:
                if self.client is not None:
                    self.pairing._async_disconnected(self.client)
                self.reconnect(decline=False)
        elif k == "RR":
            self.replayed_reconnect()
        settle(self.loop)
        self.reqs.collect()

    @property
    def cur_wfault(self):
        for rid, ep, t in self.reqs.tasks:
            if not t.done():
                return self.wfaults[rid]
        return None

    @property
    def cur_cont(self):
        # the request currently reading is the oldest unfinished one
        for rid, ep, t in self.reqs.tasks:
            if not t.done():
                return self.conts[rid]
        return 0

    @staticmethod
    def opcode():
        from aiohomekit.pdu import OpCode
        return OpCode.CHAR_WRITE


# --------------------------------------------------------------------------- CoAP
class StubCoap:
    """Stands in for the aiocoap context of one session: pair-verify requests (uri path /2) are answered at once by
    the pair-verify peer, encrypted requests wait for the history to supply a response."""

    def __init__(self, run):
        self.run = run
        self.waiter = None
        self.down = False

    def request(self, msg):
        if tuple(msg.opt.uri_path) == ("2",):
            from aiocoap.numbers.codes import Code
            fut = self.run.loop.create_future()
            fut.set_result(types.SimpleNamespace(code=Code.CHANGED, payload=self.run.peer.handle(bytes(msg.payload))))
            return types.SimpleNamespace(response=fut)
        TRACE.wire(bytes(msg.payload))
        self.waiter = self.run.loop.create_future()
        return types.SimpleNamespace(response=self.waiter)

    async def shutdown(self):
        from aiocoap.error import NetworkError
        self.down = True
        if self.waiter is not None and not self.waiter.done():
            self.waiter.set_exception(NetworkError("context shut down"))


class CoapRun:
    """One long-lived real CoAPHomeKitConnection (owned by a real CoAPPairing object built without its constructor).
    Every session is set up by the real do_pair_verify: get_session_keys against the reference accessory over the
    stub context (seams: aiocoap Context.create_server_context, and the ChaCha20Poly1305 name of coap/connection.py
    bound to a logging AEAD), real derivation of the Control-Read / Control-Write / Event keys, real
    EncryptionContext.  Session keys are identified by their BYTES and by the slot they end up in."""

    def __init__(self):
        import aiohomekit.controller.coap.connection as cc
        import aiohomekit.controller.coap.pairing as cp
        self.cc = cc
        self.loop = get_loop()
        self.reqs = Requests(self.loop)
        self.peer = PvPeer()
        self.epoch = -1
        self.acc_epoch = -1
        self.n_acc = 0
        self.acc = {}
        self.cache = {}
        self.got_events = []
        self.evt_tasks = []      # render_put tasks that have not finished yet
        self.evt_state = {}      # render_put task -> [entries delivered so far, entry at which the listener raises]
        self.sessions = []
        self.stub = None

        async def connected():
            return None
        self.pairing = object.__new__(cp.CoAPPairing)
        self.pairing.subscriptions = set()
        self.pairing._ensure_connected = connected
        self.pairing.event_received = self._listener
        self.pairing._shutdown = False
        self.pairing._accessories_state = None
        self.pairing.id = "00:00:00:00:00:01"
        self.port = 5683
        self.pairing.description = self.description()
        self.conn = cc.CoAPHomeKitConnection(self.pairing, "fe80::1", 5683)
        self.conn.info = types.SimpleNamespace(find_characteristic_by_iid=lambda iid: None)
        self.pairing.connection = self.conn
        self.new_session()

    def description(self):
        return types.SimpleNamespace(name="c06", id="00:00:00:00:00:01", address="fe80::1", addresses=["fe80::1"], port=self.port,
                                     config_num=-1, state_num=1)

    def endpoint_changed(self):
        """'EPC': zeroconf reports the accessory on another port.  Real ZeroconfPairing._async_description_update ->
        CoAPPairing._async_endpoint_changed (-> reconnect_soon in a background task).  The pairing's next operation
        goes through _ensure_connected, which connects (new pair-verify) when the connection is not connected."""
        self.port = 5684 if self.port == 5683 else 5683
        self.loop.call_soon(self.pairing._async_description_update, self.description())   # a zeroconf callback, in the loop
        settle(self.loop)
        self.reqs.collect()
        if not self.conn.is_connected:
            return self.new_session()
        if self.conn.enc_ctx is not self.ctx:
            # the connection swapped its EncryptionContext without a pair-verify: follow it, the accessory does not move
            self.ctx = self.conn.enc_ctx
            for obj, d in ((self.ctx.recv_ctx, "a"), (self.ctx.send_ctx, "c"), (self.ctx.event_ctx, "e")):
                TRACE.session_key(obj.key, d)
            self.epoch = TRACE.keys[self.ctx.send_ctx.key][0]
            self.sessions.append("moved")

    def connect(self, replay=False):
        cc = self.cc

        async def create_server_context(root, bind=None):
            self.stub = StubCoap(self)
            return self.stub
        saved = (cc.Context, cc.ChaCha20Poly1305)
        cc.Context = types.SimpleNamespace(create_server_context=create_server_context)
        cc.ChaCha20Poly1305 = LoggedAead
        self.peer.begin(replay)
        try:
            t = self.loop.create_task(self.conn.do_pair_verify(pairing_data()))
            settle(self.loop)
            if not t.done():
                t.cancel()
                settle(self.loop)
                raise RuntimeError("CoAP pair-verify did not complete")
            ok = t.exception() is None if replay else (t.result(), True)[1]
        finally:
            cc.Context, cc.ChaCha20Poly1305 = saved
        return ok and self.conn.enc_ctx is not None

    def adopt(self):
        self.ctx = self.conn.enc_ctx
        for obj, d in ((self.ctx.recv_ctx, "a"), (self.ctx.send_ctx, "c"), (self.ctx.event_ctx, "e")):
            TRACE.session_key(obj.key, d)
        self.epoch = TRACE.keys[self.ctx.send_ctx.key][0]
        self.res = self.cc.EventResource(self.conn)
        self.srv = self.esrv = 0

    def new_session(self):
        from ref.c06acc import event_key, session_keys
        if not self.connect():
            raise RuntimeError("genuine CoAP pair-verify did not produce a session")
        if self.peer.new_secret is None:
            self.sessions.append("unverified")
            return self.adopt()
        c2a, a2c = session_keys(self.peer.new_secret)          # the accessory derives ITS keys itself
        self.acc_epoch = self.n_acc
        self.n_acc += 1
        self.acc[self.acc_epoch] = (aead(a2c), aead(event_key(self.peer.new_secret)))
        self.peer.end(self.acc_epoch)
        self.sessions.append("full")
        self.adopt()

    def replayed_session(self):
        """'RR' on CoAP: do_pair_verify against an attacker replaying the recorded M2/M4.  The unchanged code rejects
        it (the old session is shut down first, as always), and the pairing layer connects again, here to the genuine
        accessory: the event is the model's Reconnect.  An accepted replay can only yield the recorded keys."""
        if self.peer.recorded is None:
            return self.new_session()
        if self.connect(replay=True):
            self.sessions.append("replayed")
            self.acc_epoch = self.peer.recorded[1]
            self.adopt()
        else:
            self.new_session()

    @property
    def old_cache(self):
        return {(d, i): f for (e, d, i), f in self.cache.items() if e == self.acc_epoch - 1}

    def _listener(self, ev):
        """The pairing's event_received; may be scripted to raise at the j-th entry of the datagram being processed
        (the script belongs to the render_put task of that datagram, which may finish many events later)."""
        st = self.evt_state.get(asyncio.current_task(self.loop))
        if st is None:
            raise RuntimeError("C06 harness: event_received called outside a render_put task")
        j, st[0] = st[0], st[0] + 1
        if st[1] is not None and j == st[1]:
            raise RuntimeError("subscriber callback failed")
        self.got_events.append(ev)

    def frame(self, d, i, kind="EN"):
        e = self.acc_epoch
        if (e, d, i) not in self.cache:
            if d == "a":
                body = b"%d.%d" % (e, i)      # a well-formed one-PDU response (tid 0, success), for post_all too
                pt = struct.pack("<BBBH", 0x02, 0, 0, len(body)) + body
            elif kind == "EN":
                pt = struct.pack("<BHH", 0, i & 0xFFFF, 0)
            elif kind == "EU":
                # two entries; the second announces a value that is not a TLV with a Value item
                pt = struct.pack("<BHH", 0, i & 0xFFFF, 0) + struct.pack("<BHH", 0, (i + 1000) & 0xFFFF, 3) + b"\x09\x01\x00"
            else:
                pt = struct.pack("<BHH", 0, i & 0xFFFF, 0) + struct.pack("<BHH", 0, (i + 1000) & 0xFFFF, 0)
            ct = self.acc[e][0 if d == "a" else 1].encrypt(nonce_bytes(i), pt, b"")
            TRACE.frames[ct] = (e, d, i)
            self.cache[(e, d, i)] = ct
        return self.cache[(e, d, i)]

    def waiting(self):
        return self.stub.waiter is not None and not self.stub.waiter.done()

    def respond(self, payload, not_found=False):
        from aiocoap.numbers.codes import Code
        self.stub.waiter.set_result(types.SimpleNamespace(code=Code.NOT_FOUND if not_found else Code.CHANGED, payload=payload))

    def event(self, payload, raise_at=None):
        """One event datagram handed to the resource the way aiocoap does: render_put runs as a task of its own.  On
        the unchanged code it has no suspension point; if it suspends (e.g. waits for the context lock a request in
        flight holds) the task stays pending and goes on whenever the history lets it - further datagrams and the
        response of the request arrive meanwhile.  Pending ones are cancelled at the end of the history."""
        t = self.loop.create_task(self.res.render_put(types.SimpleNamespace(payload=payload)))
        self.evt_state[t] = [0, raise_at]
        self.evt_tasks.append(t)
        settle(self.loop)
        self.reap_events()

    def reap_events(self):
        for t in [t for t in self.evt_tasks if t.done()]:
            self.evt_tasks.remove(t)
            self.evt_state.pop(t, None)
            if not t.cancelled():
                t.exception()     # a processing error is the resource's business (aiocoap answers 5.00); counters are what matters

    def finish_events(self):
        for t in self.evt_tasks:
            t.cancel()
        settle(self.loop)
        self.reap_events()

    def step(self, ev):
        from aiocoap.error import NetworkError
        k, a, b = ev
        if k == "G":
            for sub in a:
                self.step(sub)
            return
        if k == "S":
            self.reqs.start(self.epoch, self.ctx.post_bytes(b"z" * max(a, 1)))
        elif k == "SUB":
            if (1, 10) not in self.pairing.subscriptions:
                self.reqs.start(self.epoch, self.pairing.subscribe([(1, 10)]))
            else:
                t = self.loop.create_task(self.pairing.subscribe([(1, 10)]))   # nothing new: must not send anything
                settle(self.loop)
                t.result()
        elif k == "UNS":
            self.reqs.start(self.epoch, self.pairing.unsubscribe([(1, 10)]))
        elif k == "N4":
            if self.waiting():
                i = self.srv
                self.srv = i + 1
                self.respond(self.frame("a", i), not_found=True)
        elif k in ("N", "R", "F", "C", "O"):
            if self.waiting():
                if k == "C":
                    f = bytearray(self.frame("a", self.srv))
                    self.srv += 1
                    f[-1] ^= 1
                    self.respond(bytes(f))
                elif k == "O":
                    if self.acc_epoch > 0:
                        old = self.cache.get((self.acc_epoch - 1, "a", a))
                        if old is None:
                            old = self.acc[self.acc_epoch - 1][0].encrypt(nonce_bytes(a), b"old", b"")
                            TRACE.frames[old] = (self.acc_epoch - 1, "a", a)
                            self.cache[(self.acc_epoch - 1, "a", a)] = old
                        self.respond(old)
                else:
                    i = self.srv if k == "N" else (a if k == "R" else self.srv + a)
                    self.srv = max(self.srv, i + 1)
                    self.respond(self.frame("a", i))
        elif k == "X":
            t = self.reqs.inflight()
            if t is not None:
                t.cancel()
        elif k == "T":
            if self.waiting():
                self.stub.waiter.set_exception(NetworkError("timeout"))
        elif k == "EPC":
            self.endpoint_changed()
        elif k in ("RC", "RD", "RR"):
            if k == "RR":
                self.replayed_session()
            else:
                self.new_session()
        elif k in ("EN", "ER", "EF", "EM", "EU", "EL"):
            i = a if k == "ER" else (self.esrv + a if k == "EF" else self.esrv)
            self.esrv = max(self.esrv, i + 1)
            kind = {"EM": "EM", "EU": "EU", "EL": "EM"}.get(k, "EN")
            self.event(self.frame("e", i, kind), raise_at=a if k == "EL" else None)
        elif k == "EC":
            f = bytearray(self.frame("e", self.esrv))
            self.esrv += 1
            f[-1] ^= 1
            self.event(bytes(f))
        settle(self.loop)
        self.reap_events()
        self.reqs.collect()


RUNNERS = {"ip": IpRun, "ble": BleRun, "coap": CoapRun}
LAST_META = ""


def run_impl(transport, toks):
    """Drive the implementation through one history; returns (canonical logs, trace items)."""
    global TRACE
    import logging
    logging.disable(logging.CRITICAL)
    TRACE = Trace()
    r = None
    try:
        r = RUNNERS[transport]()
        get_loop().errors.clear()
        for t in toks:
            r.step(parse_ev(t))
        if get_loop().errors:
            raise RuntimeError("unhandled exception in a loop callback: " + "; ".join(get_loop().errors[:3]))
        canon = TRACE.canon()
        items = list(TRACE.items)
        global LAST_META
        LAST_META = "+".join(getattr(r, "sessions", [])[:4])
    finally:
        if r is not None:
            if hasattr(r, "finish_events"):
                r.finish_events()
            r.reqs.finish()
        TRACE = None
    return canon, items


# --------------------------------------------------------------------------- property oracle
def oracle(transport, items):
    """Looks only at what the implementation did.  Returns a list of (slug, description)."""
    bad = []
    seen = {}
    zero_reset = {}      # epoch -> a zero-both-counters step was executed
    rewound = {}         # epoch -> a response was accepted by the rewind step
    episodes = []        # runs of consecutive open attempts on one channel
    failed = {}          # epoch -> index of the first recorded failure
    maxacc = {}
    # group consecutive open attempts
    cur = None
    for idx, it in enumerate(items):
        if it[0] == "open":
            ch = (it[1], it[2])
            if cur is not None and cur["ch"] == ch and not cur["closed"]:
                cur["tries"].append((it[3], it[4]))
            else:
                cur = dict(ch=ch, tries=[(it[3], it[4])], closed=False, at=idx)
                episodes.append(cur)
            if it[4]:
                cur["closed"] = True
        elif it[0] != "acc" and cur is not None:
            cur["closed"] = True
    ep_at = {e["at"]: e for e in episodes}
    cur_ep = None
    for idx, it in enumerate(items):
        kind = it[0]
        if idx in ep_at:
            cur_ep = ep_at[idx]
            r = cur_ep["tries"][0][0]
            if transport == "coap" and cur_ep["ch"][1] == "a" and len(cur_ep["tries"]) == 1 + min(5, r) + 5 + 1:
                cur_ep["zero"] = True
        if kind == "seal":
            nid = it[1:4]
            if nid in seen:
                cause = "other"
                if transport == "coap" and zero_reset.get(it[1]):
                    cause = "zero-both-counters"
                bad.append((f"{transport}:nonce-reuse:{cause}",
                            f"nonce {it[3]} sealed twice under key (epoch {it[1]}, {it[2]})"))
            seen[nid] = idx
            if transport == "ble" and it[1] in failed:
                bad.append((f"{transport}:seal-after-failure", f"frame sealed under key epoch {it[1]} after a failed request"))
        elif kind == "wire":
            if transport in ("ip", "ble") and it[1] in failed:
                bad.append((f"{transport}:write-after-failure", f"frame written under key epoch {it[1]} after a failed request"))
        elif kind == "open":
            if transport in ("ip", "ble") and it[1] in failed:
                bad.append((f"{transport}:open-after-failure", f"frame opened under key epoch {it[1]} after a failure"))
            if not it[4] and transport in ("ip", "ble"):
                failed.setdefault(it[1], idx)
            if cur_ep is not None and cur_ep.get("zero") and (it[3], it[4]) == cur_ep["tries"][-1] and it[3] == 0:
                zero_reset[it[1]] = True
        elif kind == "acc":
            ch = (it[1], it[2])
            n = it[3]
            label = transport + ("evt" if it[2] == "e" else "")
            if n < 0:
                bad.append((f"{label}:forged-accepted", "a frame the accessory never sealed was accepted"))
            elif ch in maxacc and n <= maxacc[ch]:
                cause = "other"
                if transport == "coap" and it[2] == "a" and cur_ep is not None:
                    r = cur_ep["tries"][0][0]
                    if cur_ep.get("zero") and n == 0:
                        cause = "zero-reset"
                    elif r - 5 <= n < r and len(cur_ep["tries"]) <= 1 + min(5, r):
                        cause = "rewind"
                        rewound[it[1]] = True
                    elif zero_reset.get(it[1]):
                        cause = "after-zero-reset"
                    elif rewound.get(it[1]) and n >= r:
                        # the rewind left recv_ctr at (replayed nonce + 1): the responses after it open again in order
                        cause = "rewind"
                what = "again" if n in acc_set(items, idx, ch) else "out of order"
                bad.append((f"{label}:replay-accepted:{cause}",
                            f"frame {n} of key (epoch {it[1]}, {it[2]}) accepted {what} (highest accepted before: {maxacc[ch]})"))
            maxacc[ch] = max(maxacc.get(ch, -1), n)
        elif kind == "rekey":
            bad.append((f"{transport}:session-key-reused",
                        f"the key bytes of key (epoch {it[1]}, {it[2]}) were installed again as the key of a later session "
                        "(counters restart at 0 under the same key)"))
        elif kind == "out":
            if it[3] != "ok" and transport in ("ip", "ble"):
                failed.setdefault(it[1], idx)
    return bad


def acc_set(items, upto, ch):
    return {x[3] for x in items[:upto] if x[0] == "acc" and (x[1], x[2]) == ch}


# --------------------------------------------------------------------------- generators
def exhaustive(alpha, depth):
    for d in range(depth + 1):
        for t in itertools.product(alpha, repeat=d):
            yield list(t)


def random_histories(transport, r, count, maxlen):
    out = []
    for _ in range(count):
        n = r.choice([8, 12, 20, 30, 45, maxlen])
        # mostly-valid: a bias towards request/response pairs so counters grow past the windows
        p_ok = r.choice([0.5, 0.8, 0.95])
        h = []
        while len(h) < n:
            if r.random() < p_ok:
                if transport == "ip":
                    h += [f"S{r.choice([1, 1, 1024, 1025, 2049, 0])}.0", "N"]
                    if r.random() < 0.3:
                        parts = [r.choice(["N", "N", "N", "R0", "R1", "F1", "C", "O0", "NB1"]) for _ in range(r.choice([1, 2, 2, 3]))]
                        h.append("+".join(parts) + r.choice(["", "@1", "@2", "@3", "@10", "@17", "@-1", "@-16", "@-17"]))
                elif transport == "ble":
                    c = r.choice([0, 1])
                    h += [f"S{r.choice([0, 1, 20, 21, 45, 46, 70])}.{c}", "N"]
                    if c and r.random() < 0.15:
                        # the continuation read fails (link up) and the relay presents recorded fragments again
                        h += [r.choice(["TB", "TB", "T"]), "R" + str(r.choice([0, 1, 2, 3, 5])), "N"]
                    elif c:
                        h.append("N")
                else:
                    h += r.choice([["S1.0", "N"], ["S1.0", "N"], ["EN"],
                                   ["S1.0", "EN", "ER" + str(r.choice([0, 1, 2, 5, 9])), r.choice(["N", "N", "X", "T", "C"])]])
            else:
                kinds = ["S", "N", "R", "F", "C", "X", "T", "RC", "RD", "O", "D"]
                if transport == "coap":
                    kinds += ["EN", "ER", "EF", "EC", "R", "F", "R", "EM", "EU", "EL0", "EL1", "ER"]
                if transport == "ble":
                    kinds += ["TB", "W", "W", "V", "RR", "LD"]
                if transport == "coap":
                    kinds += ["SUB", "UNS", "SUB+N", "UNS+N", "N4", "RR"]
                if transport == "ip":
                    kinds += ["RR", "SX", "NB0", "NB1", "NB2"]
                if transport == "coap":
                    kinds += ["EPC", "EPC"]
                k = r.choice(kinds)
                if k == "S":
                    h.append(f"S{r.choice([0, 1, 30, 1024, 1025])}.{r.choice([0, 1])}")
                elif k == "SX":
                    h.append(f"SX{r.choice([1, 1, 1025, 2049, 65536])}.0")
                elif k in ("W", "V"):
                    h.append(f"{k}{r.choice([0, 1, 30, 46, 70])}.{r.choice([0, 1])}.{r.choice([0, 0, 1, 2])}")
                elif k in ("R", "O", "ER"):
                    h.append(k + str(r.choice([0, 0, 1, 2, 3, 5, 6, 7, 12])))
                elif k in ("F", "EF"):
                    h.append(k + str(r.choice([1, 1, 2, 4, 5, 6, 7])))
                else:
                    h.append(k)
        out.append(h[:n])
    return out


# LONG single-session histories: more than 1024 frames in each direction under one key (any table / width /
# wrap-around in the nonce construction below 2^10 shows up as a duplicate in the seal log or a rejected genuine frame)
LONG = {
    "ip": [["S1024.0"] * 1030 + ["N"] * 3, ["N"] * 1026 + ["R0", "N"], ["S3000.0", "N"] * 350 + ["R1", "S1.0"]],
    "ble": [["S1.0", "N"] * 1030 + ["R0"], ["S70.1", "N", "N"] * 350 + ["S1.0", "R3"]],
    "coap": [["S1.0", "N"] * 1030 + ["S1.0", "F1"], ["EN"] * 1030 + ["ER0", "EN"]],
}


# the witnesses of the Coq refutation theorems (Props/C06.v), replayed on the implementation
SIX = ["S1.0", "N"] * 6
DIRECTED = {
    "coap": [
        ["S1.0", "N", "S1.0", "R0"],                         # coap_replay_refuted
        ["S1.0", "C", "S1.0"],                               # coap_nonce_reuse_refuted
        SIX + ["S1.0", "R0", "S1.0"],                        # coap_wire_nonce_reuse_refuted
        ["S1.0", "F1", "S1.0", "R0"],                        # out of order: frame 1 then frame 0
        ["S1.0", "X", "S1.0", "F1"],                         # forward recovery after a cancelled request
        SIX + ["S1.0", "R0", "S1.0", "R1"],                  # replay after the zero reset
        ["EN", "EN", "ER0", "EC", "ER1", "EN", "EF2", "EN"],
        # event processing fails after the datagram was decrypted (listener raises at the 2nd entry / bad 2nd value)
        ["S1.0", "N", "EN", "EN", "EPC", "ER0", "ER1", "S1.0", "N", "EN", "S1.0", "EPC", "S1.0", "N"], ["S1.0", "T", "EPC", "S1.0", "N", "EPC", "EPC", "EN"],
        ["S1.0", "N", "S1.0", "N4", "S1.0", "S1.0", "N", "EN", "RC", "S1.0", "N"], ["S1.0", "S1.0", "N4", "R0", "RR", "S1.0", "N4"],
        ["EL1", "ER0", "EN"], ["EN", "EU", "ER1", "ER1", "EN"], ["EM", "EL0", "ER1", "ER0", "EN", "ER2"],
        # one session: subscribe, events, unsubscribe everything, subscribe again, replay the recorded events
        ["SUB", "N", "EN", "EN", "UNS", "N", "SUB", "N", "ER0", "ER1", "EN", "SUB", "UNS", "X", "SUB", "N"],
        # event datagrams (and duplicates) arriving while a request is in flight, then the response
        ["S1.0", "EN", "ER0", "N", "EN"], ["EN", "S1.0", "EN", "ER1", "EC", "N", "EN", "S1.0", "ER0", "ER2", "X", "EN", "SUB", "EN", "ER3", "N"],
        ["S1.0", "EL1", "ER0", "EM", "T", "RC", "S1.0", "EN", "ER0", "N"],
    ],
    "ip": [
        ["S1025.0", "N", "R0", "S1.0", "RC", "S1.0", "O0"],
        ["S2049.0", "S1.0", "N", "N", "N", "T", "S1.0"],
        ["S1.0", "S1.0", "X", "S1.0", "N"],
        # read segmentation: frame 0 + 10 bytes of a replayed frame 0 in one read, the rest in the next
        ["S1.0", "N+R0@10"], ["N+R0@10", "N"], ["S1.0", "S1.0", "N+N@10", "N"], ["N+N+N@-1", "R1", "N@1", "N+C@2"],
        ["S1.0", "N@2", "RC", "S1.0", "N+O0@10", "N"],
        # real session establishment: an attacker replays the recorded pair-verify on the next connection
        ["S1.0", "N", "RR", "S1.0", "R0", "N", "RR", "S1.0", "O0"],
        ["S1.0", "N", "NB1", "R1", "R0", "N", "S1.0"], ["S1.0", "S1.0", "N", "NB0", "R1", "RC", "NB2", "R0", "N"], ["N+NB1+N@-1", "R1"],
        ["S1.0", "SX65536.0", "S1.0", "N", "RC", "SX70000.0", "S2049.0", "N"], ["SX1.0", "S1.0", "RC", "S1.0", "SX1025.0"],
    ],
    "ble": [
        ["S30.1", "S1.0", "N", "N", "C", "S1.0", "RC", "S0.0", "X"],
        ["S46.1", "N", "R0", "S1.0", "RC", "S1.0", "O0", "RC", "S1.0", "N"],
        ["S1.0", "D", "S1.0", "RC", "S1.0", "N"],
        # full verify, traffic, drop, RESUMED session, traffic, replay of a session-1 frame, resumed again, declined
        ["S1.0", "N", "D", "RC", "S1.0", "N", "S1.0", "O0", "RC", "S30.1", "N", "N", "X", "RD", "S1.0", "N", "S1.0", "O0"],
        ["S1.0", "N", "S1.0", "N", "X", "RC", "S1.0", "O1"],
        ["D", "RD", "S1.0", "N", "D", "RC", "S1.0", "N", "D", "RC", "S1.0", "O0"],
        # GATT faults: first / later fragment refused with the link up, then more requests on the same connection
        ["S1.0", "N", "W30.1.0", "S30.1", "N", "N"], ["W30.1.1", "S1.0", "RC", "S1.0", "N"],
        ["S1.0", "V30.1.0", "S1.0", "RC", "S1.0", "N"], ["S30.1", "N", "TB", "S1.0", "RC", "W1.0.0", "S1.0"],
        # an attacker replays the recorded pair-verify (M2/M4) on the next connection, then recorded frames
        ["S1.0", "N", "RR", "S1.0", "R0", "RC", "S1.0", "N", "RR", "RD", "S1.0", "N"],
        ["S1.0", "N", "LD", "S1.0", "R0", "S1.0", "LD", "N", "LD", "S1.0", "O0"],
        # a continuation read fails with the link up and the relay presents the recorded first fragment again
        ["S30.1", "N", "TB", "R0", "N"], ["S1.0", "N", "S30.1", "N", "TB", "R1", "N", "S1.0"], ["S30.1", "TB", "N", "R0", "N", "S1.0", "N"],
    ],
}


# --------------------------------------------------------------------------- kernel cross-check of the extracted driver
XCHECK_DIR = {"c": 0, "a": 1, "e": 2}
XCHECK_CLS = {"ok": 0, "fail": 1, "cancel": 2, "crash": 3}
XCHECK_RUN = {"ip": "i_log (ip_run ip_init", "ble": "b_log (ble_run ble_init", "coap": "c_log (coap_run coap_init"}


def coq_event(t):
    """One token of a driver request as a Gallina [ev] (same grammar as ocaml/drv_c06.ml ev_of_tok)."""
    simple = {"N": "Next", "N4": "Next404", "NB": "NextBad", "C": "Corrupt", "X": "Cancel", "T": "Timeout", "D": "Disconnect", "RC": "Reconnect",
              "RD": "Reconnect", "LD": "LateDisc", "EN": "ENext", "EC": "ECorrupt"}
    if t in simple:
        return simple[t]
    if t.startswith("ER"):
        return f"EReplay {int(t[2:])}"
    if t.startswith("EF"):
        return f"EFuture {int(t[2:])}"
    if t.startswith("SX"):
        return f"SendX {int(t[2:].split('.')[0])}"
    if t[0] == "S":
        n, c = t[1:].split(".")
        return f"Send {int(n)} {int(c)}"
    if t[0] == "W":
        n, c, j = t[1:].split(".")
        return f"SendW {int(n)} {int(c)} {int(j)}"
    if t[0] in "ROF":
        return {"R": "Replay", "O": "ReplayOld", "F": "Future"}[t[0]] + f" {int(t[1:])}"
    raise ValueError(t)


def xcheck_answer(ans):
    """Driver answer -> 5 flat number lists (seal, wire, open, acc, out); None if it does not have the answer grammar."""
    try:
        parts = dict(p.split("=", 1) for p in ans.split(";"))
        out = []
        for name in ("seal", "wire", "open", "acc"):
            flat = []
            for x in filter(None, parts[name].split(",")):
                f = x.split(".")
                flat += [int(f[0]), XCHECK_DIR[f[1]], int(f[2])] + ([int(f[3])] if name == "open" else [])
                if len(f) != (4 if name == "open" else 3):
                    return None
            out.append(flat)
        flat = []
        for x in filter(None, parts["out"].split(",")):
            e, i, c = x.split(".")
            flat += [int(e), int(i), XCHECK_CLS[c]]
        out.append(flat)
        return out if len(parts) == 5 else None
    except (KeyError, ValueError, IndexError):
        return None


def xcheck_pick(transport, hists, model, n_exh):
    """Deterministic sample of (request line, driver answer) pairs of one transport: directed / random histories
    chosen greedily until every event kind that occurs is covered, plus a spread over the exhaustive and random parts.
    Small inputs preferred: at most 60 events and at most two payload sizes >= 1000 (unary nat in the kernel)."""
    import re

    def kinds(h):
        return {re.match(r"[A-Z]+", t).group(0) for t in model_tokens(h, transport)}

    def small(h):
        return 0 < len(h) <= 60 and len(re.findall(r"\d{4,}", " ".join(h))) <= 2

    picked, covered = [], set()
    cands = [(i, kinds(hists[i])) for i in range(n_exh, min(len(hists), n_exh + len(DIRECTED[transport]) + 400)) if small(hists[i])]
    while len(picked) < 4 and cands:
        i, ks = max(cands, key=lambda c: (len(c[1] - covered), -c[0]))      # greedy set cover, ties: first in the stream
        if not ks - covered:
            break
        covered |= ks
        picked.append(i)
    for start in [n_exh * k // 100 for k in (35, 60, 85)] + [n_exh - 1, len(hists) - 2, len(hists) - 1]:
        # the nearest small history at or before the spread position
        i = next((j for j in range(start, max(start - 200, -1), -1) if 0 <= j < len(hists) and small(hists[j]) and j not in picked), None)
        if i is not None:
            picked.append(i)
    return [(transport + " " + " ".join(model_tokens(hists[i], transport)), model[i]) for i in picked]


def vm_crosscheck(ctx, sample):
    """Evaluate the sampled requests with vm_compute inside Coq (the same ip_run / ble_run / coap_run on the same
    event list, all five logs) and compare with what the extracted OCaml driver answered: takes extraction and
    ocaml/drv*.ml (token parser, printers, sort of the out log) out of the single-point-of-trust position.
    Returns (requests evaluated, disagreements)."""
    import re
    from common import coq_eval
    body = ["From Coq Require Import List Arith.", "From AHK Require Import Model.Counters.", "Import ListNotations.",
            "Definition d2n (d : dir) : nat := match d with C2A => 0 | A2C => 1 | EVT => 2 end.",
            "Definition c2n (c : rclass) : nat := match c with ROk => 0 | RFail => 1 | RCancel => 2 | RCrash => 3 end.",
            "Definition show_nid (x : nid) : list nat := [fst (fst x); d2n (snd (fst x)); snd x].",
            "Definition show_logs (L : logs) := (flat_map show_nid (l_seal L), flat_map show_nid (l_wire L), "
            "flat_map (fun o : nid * bool => show_nid (fst o) ++ [if snd o then 1 else 0]) (l_open L), flat_map show_nid (l_acc L), "
            "flat_map (fun o : nat * nat * rclass => [fst (fst o); snd (fst o); c2n (snd o)]) (l_out L))."]
    evals, big = [], set()
    for req, _ in sample:
        tr, *toks = req.split(" ")
        evs = "[" + "; ".join(coq_event(t) for t in toks if t) + "]"
        # a unary literal like 2049 costs ~0.3 s per occurrence: name each distinct large number once
        evs = re.sub(r"\b(\d{3,})\b", lambda m: big.add(int(m.group(1))) or "k" + m.group(1), evs)
        evals.append(f"Eval vm_compute in (show_logs ({XCHECK_RUN[tr]} {evs}))).")
    body += [f"Definition k{n} : nat := Eval vm_compute in {n}." for n in sorted(big)] + evals
    out = coq_eval(ctx["verif"], "C06", "crosscheck", "\n".join(body) + "\n", timeout=300)
    blocks = out.split("= ")[1:]
    bad = abs(len(sample) - len(blocks))
    for blk, (req, ans) in zip(blocks, sample):
        lists = [[int(x) for x in re.findall(r"\d+", l)] for l in re.findall(r"\[([^\]]*)\]", blk.split(":")[0])]
        want = xcheck_answer(ans)
        if want is None or len(lists) != 5:
            bad += 1
            continue
        # the driver prints the out log sorted by request number
        outs = sorted((lists[4][i:i + 3] for i in range(0, len(lists[4]), 3)), key=lambda o: o[1])
        lists[4] = [x for o in outs for x in o]
        if lists != want:
            bad += 1
    return len(blocks), bad


# --------------------------------------------------------------------------- run
def _work(args):
    transport, chunk = args
    res = []
    for toks in chunk:
        try:
            canon, items = run_impl(transport, toks)
        except Exception as e:  # noqa
            import traceback
            canon, items = "harness-error:" + type(e).__name__ + ":" + traceback.format_exc()[-600:], []
        res.append((canon, oracle(transport, items), LAST_META))
    return res


_pool = None


def get_pool(workers):
    """One pool for the whole run, forked before the big case lists exist (cheap copy-on-write)."""
    global _pool
    if _pool is None and workers > 1:
        for tr in RUNNERS:
            _work((tr, [[]]))                  # import and patch in the parent; the workers inherit it
        import gc
        gc.freeze()
        _pool = multiprocessing.get_context("fork").Pool(workers)
    return _pool


def close_pool():
    global _pool
    if _pool is not None:
        _pool.terminate()
        _pool.join()
        _pool = None


def impl_batch(transport, hists, workers):
    pool = get_pool(workers) if len(hists) >= 400 else None
    if pool is None:
        return _work((transport, hists))
    size = max(100, min(2000, len(hists) // (workers * 6) + 1))
    chunks = [(transport, hists[i:i + size]) for i in range(0, len(hists), size)]
    parts = pool.map(_work, chunks, chunksize=1)
    return [x for p in parts for x in p]


def run(ctx):
    tier, seed = ctx["tier"], ctx["seed"]
    drv = Driver(ctx["driver"])
    workers = min(16, os.cpu_count() or 2)
    get_pool(workers)
    cov = Coverage("distinct history (transport + event list) in which at least one frame was sealed or one open attempted")
    viols = {}
    full_depth, core_depth = (4, 5) if tier == "quick" else (5, 6)
    n_rand = 700 if tier == "quick" else 12000
    counts = {}
    mismatches = 0
    xsample = []
    # quick tier: a few symbols whose behaviour is also covered by another sweep are left to the thorough tier
    quick = tier == "quick"
    drop = {"ip": {"S1025.0", "D"}, "ble": {"S1.0", "T", "D"}, "coap": {"F1"}} if quick else {"ip": set(), "ble": set(), "coap": set()}
    core_drop = {"ip": {"F1"}, "ble": {"F1"}, "coap": {"T"}} if quick else drop
    evt_alpha = [a for a in COAP_EVT if not (quick and a == "EL0")]
    seg_alpha = [a for a in IP_SEG if not (quick and a in ("N+N@2", "R0", "N@1", "N+N+N@2"))]
    fault_alpha = [a for a in BLE_FAULT if not (quick and a in ("S1.0", "V30.1.0"))]
    evlock_alpha = [a for a in COAP_EVLOCK if not (quick and a == "T")]
    retry_alpha = [a for a in BLE_RETRY if not (quick and a == "T")]
    alpha_used = {}
    for transport in ("ip", "ble", "coap"):
        alpha_used[transport] = [a for a in ALPHA[transport] if a not in drop[transport]]
        hists = list(exhaustive(alpha_used[transport], full_depth))
        n_full = len(hists)
        hists += [list(t) for t in itertools.product([a for a in CORE[transport] if a not in core_drop[transport]], repeat=core_depth)]
        if transport == "coap":
            hists += [list(t) for t in itertools.product(evt_alpha, repeat=core_depth)]
            hists += list(exhaustive(COAP_SUBS, core_depth))
            hists += list(exhaustive(evlock_alpha, core_depth))
        if transport == "ip":
            hists += list(exhaustive(seg_alpha, full_depth))
        if transport in SESS:
            hists += list(exhaustive(SESS[transport], full_depth))
        if transport == "ip":
            hists += list(exhaustive(IP_BIG, 3))
            hists += list(exhaustive(IP_BAD, full_depth))
        if transport == "ble":
            hists += list(exhaustive(fault_alpha, 4))
            hists += list(exhaustive(retry_alpha, full_depth))
        n_core = len(hists) - n_full
        hists += DIRECTED[transport]
        hists += LONG[transport]
        hists += random_histories(transport, rng(seed, "c06" + transport), n_rand, 60)
        model = drv.batch([transport + " " + " ".join(model_tokens(h, transport)) for h in hists])
        impl = impl_batch(transport, hists, workers)
        xsample += xcheck_pick(transport, hists, model, n_full + n_core)
        counts[transport] = dict(exhaustive_full_alphabet=n_full, exhaustive_core_alphabet=n_core,
                                 directed=len(DIRECTED[transport]), long_sessions=len(LONG[transport]), random=n_rand)
        for idx, (h, m, (canon, bad, meta)) in enumerate(zip(hists, model, impl)):
            nontrivial = canon != "seal=;wire=;open=;acc=;out="
            cov.case(transport + " " + " ".join(h), nontrivial,
                     sample=dict(transport=transport, history=h, impl=canon[:300]) if (idx % 40009 == 17 or (len(h) > 20 and idx % 1013 == 0)) else None,
                     transport=transport, length=min(len(h), 7) if len(h) < 7 else (len(h) // 10) * 10 + 10,
                     outcome="violating" if bad else "clean", **({"ble_sessions": meta} if transport == "ble" else {}))
            for slug, what in bad:
                if slug not in viols or len(h) < len(viols[slug]["payload"]["history"]):
                    viols[slug] = violation(slug, f"{transport}: {what}; history {' '.join(h)}", True,
                                            transport=transport, history=h, impl=canon, model=m, expected="no nonce sealed twice; "
                                            "accepted nonces strictly increasing per key; nothing written/opened under a key after a failure (IP, BLE)")
            if canon != m:
                mismatches += 1
                if not bad:
                    slug = f"{transport}:model-mismatch"
                    if canon.startswith("harness-error"):
                        slug = f"{transport}:harness-error"
                    if slug not in viols or len(h) < len(viols[slug]["payload"]["history"]):
                        viols[slug] = violation(slug, f"{transport}: implementation logs differ from Model/Counters.v on history {' '.join(h)}: "
                                                f"impl {canon[:160]} model {m[:160]}", False, transport=transport, history=h, impl=canon, model=m,
                                                broken=f"correspondence Model/Counters.v ({transport} machine) <-> implementation")
    close_pool()
    # shrink the replays
    out = []
    for slug, v in viols.items():
        tr, h = v["payload"]["transport"], v["payload"]["history"]
        if v["found_input"] and 3 < len(h) <= 120:      # the long single-session replays are kept as they are
            def still(c, tr=tr, slug=slug):
                try:
                    return any(s == slug for s, _ in oracle(tr, run_impl(tr, c)[1]))
                except Exception:  # noqa
                    return False
            small = shrink_list(h, still, budget=150)
            if len(small) < len(h):
                v["payload"]["history"] = small
                v["payload"]["impl"] = run_impl(tr, small)[0]
                v["payload"]["model"] = drv.batch([tr + " " + " ".join(model_tokens(small, tr))])[0]
                v["what"] = v["what"].split("; history ")[0] + "; history " + " ".join(small)
        out.append(v)
    if not ctx.get("replay"):
        n_x, bad_x = vm_crosscheck(ctx, xsample)
        cov.extra["vm_compute_crosscheck"] = dict(requests=n_x, disagreements=bad_x)
        if bad_x:
            out.append(violation("extraction-vs-vm_compute", f"{bad_x} of {n_x} sampled requests: extracted driver and vm_compute disagree",
                                 False, broken="extraction / ocaml driver glue"))
    cov.extra["exhaustive"] = True
    cov.extra["exhaustive_part"] = (
        "per transport: every history of length <= %d over its 11-13-symbol alphabet %s; every history of length %d over the "
        "7-symbol core %s; CoAP additionally every history of length %d over the event alphabet %s; IP additionally every "
        "history of length <= %d over the read-segmentation alphabet %s (a+b@c = frames glued into one TCP read that ends c "
        "bytes into the last frame, remainder in a second read); BLE additionally every history of length <= %d over the GATT "
        "fault alphabet %s (W/V n.cont.j = write of fragment j refused with the link up / dropping, TB/T/D read faults); CoAP "
        "additionally every history of length <= %d over the subscription alphabet %s (real CoAPPairing.subscribe/unsubscribe on one session); "
        "IP and CoAP additionally every history of length <= %d over the session alphabets %s (RR = reconnect against a peer replaying a "
        "recorded pair-verify, N4 = 4.04 response); CoAP additionally every history of length <= %d over the events-inside-an-exchange "
        "alphabet %s (event datagrams and duplicates delivered while post_bytes holds the context lock); BLE additionally every "
        "history of length <= %d over the read-retry alphabet %s (continuation read fails with the link up, recorded fragments presented again)"
        % (full_depth, alpha_used, core_depth, {k: [a for a in v if a not in core_drop[k]] for k, v in CORE.items()}, core_depth, evt_alpha,
           full_depth, seg_alpha, 4, fault_alpha, core_depth, COAP_SUBS, full_depth, SESS,
           core_depth, evlock_alpha, full_depth, retry_alpha))
    cov.extra["case_counts"] = counts
    cov.extra["disagreements_checked"] = mismatches
    cov.extra["compared"] = "seal log, wire log, open attempts (nonce, success), accepted frame identities, per-request outcome class"
    cov.extra["trusted_base_extra"] = [
        "C06: in-memory asyncio transport / scripted GATT client / stub aiocoap context in harness/c06.py reproduce the peers' "
        "contracts (no delivery after close, exception in data_received is fatal, bleak calls the disconnected callback); "
        "AEAD calls observed by wrapping ChaCha20Poly1305Encryptor/Decryptor and the cryptography AEAD objects given to EncryptionContext; "
        "BLE session keys are identified by their key BYTES (EncryptionKey/DecryptionKey constructors wrapped); BLE pair-verify and "
        "pair-resume run the real get_session_keys/resume_m1/resume_m3 against harness/ref/c06acc.py, which derives the accessory's "
        "session keys independently",
    ]
    return dict(coverage=cov.to_dict(), violations=out)
