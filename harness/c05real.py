"""C05 "realbytes" stream: the frame model INSTANTIATED AT THE REAL CIPHER (Proofs/FrameReal.v: cp_aead =
Model/ChaChaPoly.v) is evaluated inside Coq (`vm_compute`, no extraction, no harness-side cryptography on the
model side) and compared byte for byte with what the real SecureHomeKitProtocol does:

  out:  concat (fst (ip_send_frames cp_aead key ctr payload)), snd ...   vs   the bytes send_bytes hands to the
        transport and the protocol's c2a_counter afterwards
  in:   ip_feed_all (cp_open key) (Live [] ctr) reads                    vs   what data_received hands to the HTTP
        layer per read and whether the session is torn down (frames sealed by `cryptography` directly, then
        bit-flipped / re-ordered / replayed / truncated / sealed under another counter, cut at random)

The implementation's answers are written into the generated file and compared in Gallina; only one code per case
comes back.  An independent oracle (harness/ref/hapframe.py, which uses `cryptography` directly) decides whether a
disagreement is the implementation's fault.  run(ctx) -> (info, violations)."""
import asyncio, re, concurrent.futures
from common import coq_eval, rng, violation, hx

CTRS = [0, 1, 255, 256, 65535, 2 ** 32 - 1, 2 ** 32, 2 ** 63, 2 ** 64 - 4]


def _cb(b) -> str:
    return "[" + ";".join(str(x) for x in bytes(b)) + "]"


def _gen(ctx):
    r = rng(ctx["seed"], "c05real")
    thorough = ctx["tier"] == "thorough"
    out_cases, in_cases = [], []
    lens = [1, 64, 65, 1023, 1024, 1025, 2049] + ([2, 63, 2048, 3072, 3073, 4097] if thorough else [])
    for n in lens:
        out_cases.append(dict(key=r.randbytes(32), ctr=r.choice(CTRS), payloads=[r.randbytes(n)]))
    for _ in range(14 if thorough else 3):       # several requests on one session: the counter is threaded
        k = r.randrange(2, 5)
        out_cases.append(dict(key=r.randbytes(32), ctr=r.choice(CTRS),
                              payloads=[r.randbytes(r.choice([1, 17, 300, 1024, 1025, r.randrange(1, 2100)])) for _ in range(k)]))
    out_cases.append(dict(key=b"\0" * 32, ctr=0, payloads=[b"\0" * 1025]))
    out_cases.append(dict(key=b"\xff" * 32, ctr=2 ** 64 - 2, payloads=[b"\xff" * 1024, b"\xff"]))
    muts = ["none", "none", "flip", "fliptag", "fliplen", "swap", "replay", "wrongctr", "trunc", "skipctr"]
    reps = 5 if thorough else 1
    for m in muts * reps:
        nfr = r.randrange(1, 5)
        sizes = [r.choice([0, 1, 2, 15, 16, 17, 100, 1024, r.randrange(0, 1300)]) for _ in range(nfr)]
        if sum(sizes) > 2600:
            sizes = [s % 700 for s in sizes]
        in_cases.append(dict(key=r.randbytes(32), ctr=r.choice(CTRS[:-1]), frames=[r.randbytes(s) for s in sizes], mut=m,
                             seed=r.getrandbits(32)))
    return out_cases, in_cases, r


def _build_in(case):
    """-> (stream bytes, reads)  using harness/ref/hapframe.py (cryptography directly)"""
    import random
    from ref import hapframe as ref
    rr = random.Random(case["seed"])
    key, ctr, frames, mut = case["key"], case["ctr"], case["frames"], case["mut"]
    sealed = [ref.seal_frame(key, ctr + i, p) for i, p in enumerate(frames)]
    if mut == "flip":
        i = rr.randrange(len(sealed)); f = bytearray(sealed[i]); j = rr.randrange(2, len(f)); f[j] ^= 1 << rr.randrange(8); sealed[i] = bytes(f)
    elif mut == "fliptag":
        i = rr.randrange(len(sealed)); f = bytearray(sealed[i]); f[-1] ^= 0x80; sealed[i] = bytes(f)
    elif mut == "fliplen":
        i = rr.randrange(len(sealed)); f = bytearray(sealed[i]); f[0] ^= 1; sealed[i] = bytes(f)
    elif mut == "swap" and len(sealed) >= 2:
        sealed[0], sealed[1] = sealed[1], sealed[0]
    elif mut == "replay":
        sealed.insert(1, sealed[0])
    elif mut == "wrongctr":
        i = rr.randrange(len(sealed)); sealed[i] = ref.seal_frame(key, ctr + i + 2 ** 32, frames[i])
    elif mut == "skipctr":
        sealed = [ref.seal_frame(key, ctr + i + (1 if i >= 1 else 0), p) for i, p in enumerate(frames)]
    stream = b"".join(sealed)
    if mut == "trunc" and len(stream) > 3:
        stream = stream[:rr.randrange(1, len(stream))]
    n = len(stream)
    k = rr.choice([0, 1, 2, 5])
    cuts = sorted({rr.randrange(0, n + 1) for _ in range(k)}) if n else []
    pts = [0] + cuts + [n]
    return stream, [stream[a:b] for a, b in zip(pts, pts[1:])]


async def _impl_out(c05, case):
    proto, link, conn, _ = c05.make_proto(b"\x07" * 32, case["key"], 0, case["ctr"])
    res = []
    for p in case["payloads"]:
        before = len(link.writes)
        task = asyncio.ensure_future(proto.send_bytes(p))
        await asyncio.sleep(0)
        if task.done() and task.exception() is not None:
            res.append(("crash", b"", proto.c2a_counter))
            break
        res.append(("ok", b"".join(link.writes[before:]), proto.c2a_counter))
        task.cancel()
        try:
            await task
        except BaseException:  # noqa
            pass
        if getattr(link, "ended", False):
            break
        # the next request starts from the counter this one left, on a fresh protocol object: what a cancelled request does
        # to a live object is the session stream's business, here only the bytes are compared
        ctr = proto.c2a_counter
        proto, link, conn, _ = c05.make_proto(b"\x07" * 32, case["key"], 0, ctr)
    return res


def _impl_in(c05, case, reads):
    proto, link, conn, rec = c05.make_proto(case["key"], b"\0" * 32, case["ctr"], 0, record=True)
    per = []
    for seg in reads:
        n0 = len(rec.parts)
        link.deliver(seg)
        per.append((bool(link.ended), [bytes(x) for x in rec.parts[n0:]]))
    return per, (None if link.ended else proto.a2c_counter)


HEAD = """From Coq Require Import List NArith Bool.
From AHK Require Import Lib.Res Lib.ByteStr Model.Frame Model.ChaChaPoly Proofs.FrameReal.
Import ListNotations.
Local Open Scope N_scope.
Definition eqb_b := ChaChaPoly.beq_bytes.
Fixpoint eqb_bl (a b : list bytes) : bool :=
  match a, b with [], [] => true | x :: a', y :: b' => eqb_b x y && eqb_bl a' b' | _, _ => false end.
(* out: requests sent one after the other from counter ctr; want = per request (crashed?, bytes, counter after) *)
Fixpoint chk_out (key : bytes) (ctr : N) (ps : list bytes) (want : list (bool * bytes * N)) : bool :=
  match ps, want with
  | _, [] => true
  | p :: ps', (crashed, w, c') :: want' =>
      match ip_send ctr p with
      | Ok _ => let r := ip_send_frames cp_aead key ctr p in
                negb crashed && eqb_b (concat (fst r)) w && N.eqb (snd r) c' && chk_out key (snd r) ps' want'
      | _ => crashed
      end
  | [], _ :: _ => false
  end.
(* in: reads fed one after the other; want = per read (dead afterwards?, plaintexts delivered by that read); compared as the
   concatenation per read: an authentic EMPTY frame hands no bytes to the HTTP layer (InsecureHomeKitProtocol.data_received loops
   `while data`), so it is visible only through the counter, which chk_fin compares *)
Fixpoint chk_in (key : bytes) (s : rstate) (reads : list bytes) (want : list (bool * list bytes)) : bool :=
  match reads, want with
  | [], [] => true
  | d :: reads', (dead, outs) :: want' =>
      let (s', o) := ip_feed (cp_open key) s d in
      eqb_b (concat o) (concat outs) && Bool.eqb dead (match s' with Dead => true | _ => false end) && chk_in key s' reads' want'
  | _, _ => false
  end.
Definition fin_ctr (key : bytes) (ctr : N) (reads : list bytes) : option N :=
  match fst (ip_feed_all (cp_open key) (Live [] ctr) reads) with Dead => None | Live _ c => Some c end.
Definition chk_fin key ctr reads (want : option N) : bool :=
  match fin_ctr key ctr reads, want with Some a, Some b => N.eqb a b | None, None => true | _, _ => false end.
"""


def run(ctx, c05):
    out_cases, in_cases, r = _gen(ctx)
    body, tags = [], []

    in_reads = [_build_in(c) for c in in_cases]

    async def both():
        o = [await _impl_out(c05, c) for c in out_cases]
        i = [_impl_in(c05, c, reads) for c, (_, reads) in zip(in_cases, in_reads)]
        return o, i
    import logging
    loop = asyncio.new_event_loop()
    loop.set_exception_handler(lambda l, c: None)
    prev_disable = logging.root.manager.disable
    logging.disable(logging.CRITICAL)
    try:
        out_impl, in_impl = loop.run_until_complete(both())
    finally:
        logging.disable(prev_disable)
        loop.close()
    for ci, (c, res) in enumerate(zip(out_cases, out_impl)):
        want = "; ".join("(%s, %s, %d)" % ("true" if k == "crash" else "false", _cb(w), ctr) for k, w, ctr in res)
        body.append("Eval vm_compute in (if chk_out %s %d [%s] [%s] then 1 else 0)." %
                    (_cb(c["key"]), c["ctr"], "; ".join(_cb(p) for p in c["payloads"]), want))
        tags.append(("out", ci))
    in_built = []
    for ci, c in enumerate(in_cases):
        stream, reads = in_reads[ci]
        per, fin = in_impl[ci]
        in_built.append((stream, reads, per, fin))
        want = "; ".join("(%s, [%s])" % ("true" if dead else "false", "; ".join(_cb(x) for x in outs_)) for dead, outs_ in per)
        rd = "; ".join(_cb(s) for s in reads)
        body.append("Eval vm_compute in (if chk_in %s (Live [] %d) [%s] [%s] && chk_fin %s %d [%s] %s then 1 else 0)." %
                    (_cb(c["key"]), c["ctr"], rd, want, _cb(c["key"]), c["ctr"], rd,
                     "None" if fin is None else "(Some %d)" % fin))
        tags.append(("in", ci))
    nsh = 8
    per_sh = (len(body) + nsh - 1) // nsh
    shards = [body[i:i + per_sh] for i in range(0, len(body), per_sh)]

    def ev(i):
        return coq_eval(ctx["verif"], ctx["pid"], f"c05real{i}", HEAD + "\n".join(shards[i]) + "\n", timeout=900)
    with concurrent.futures.ThreadPoolExecutor(len(shards)) as ex:
        outs_ = list(ex.map(ev, range(len(shards))))
    codes = [int(x) for o in outs_ for x in re.findall(r"=\s*(\d+)\s*:\s*N", o)]
    viols = []
    info = dict(out_cases=len(out_cases), in_cases=len(in_cases),
                out_payload_bytes=sorted({len(p) for c in out_cases for p in c["payloads"]})[:40],
                out_start_counters=sorted({c["ctr"] for c in out_cases}),
                in_mutations={m: sum(1 for c in in_cases if c["mut"] == m) for m in sorted({c["mut"] for c in in_cases})},
                in_dead=sum(1 for b in in_built if b[3] is None), in_live=sum(1 for b in in_built if b[3] is not None),
                evaluated_by="vm_compute inside Coq over Proofs/FrameReal.v (cp_aead), no extraction",
                disagreements=None)
    if len(codes) != len(tags):
        viols.append(violation("realbytes:model-eval-failed", f"vm_compute returned {len(codes)} answers for {len(tags)} cases", False,
                               broken="correspondence Proofs/FrameReal.v (ip_send_frames cp_aead / ip_feed (cp_open key)) vs SecureHomeKitProtocol"))
        return info, viols
    bad = [t for t, c in zip(tags, codes) if c != 1]
    info["disagreements"] = len(bad)
    from ref import hapframe as ref
    for kind, ci in bad[:6]:
        if kind == "out":
            c, res = out_cases[ci], out_impl[ci]
            ctr = c["ctr"]
            found = None
            for p, (k, w, cafter) in zip(c["payloads"], res):
                nfr = (len(p) + 1023) // 1024
                if ctr + nfr > 2 ** 64:
                    if k != "crash":
                        found = f"a {len(p)}-byte request at counter {ctr} did not raise although a counter >= 2^64 is needed"
                    break
                chunks = [p[i:i + 1024] for i in range(0, len(p), 1024)]
                exp = b"".join(ref.seal_frame(c["key"], ctr + i, ch) for i, ch in enumerate(chunks))
                if k == "crash":
                    found = f"a {len(p)}-byte request at counter {ctr} raised"
                elif w != exp:
                    found = (f"{len(p)}-byte request at counter {ctr}: {len(w)} bytes written, a conformant accessory expects "
                             f"{len(exp)} bytes (first difference at offset {next((i for i, (a, b) in enumerate(zip(w, exp)) if a != b), min(len(w), len(exp)))})")
                elif cafter != ctr + nfr:
                    found = f"{len(p)}-byte request at counter {ctr}: counter afterwards {cafter}, expected {ctr + nfr}"
                if found:
                    break
                ctr += nfr
            payload = dict(stream="realbytes-out", c2a_key=hx(c["key"]), start_counter=c["ctr"],
                           payloads=[hx(p)[:4200] for p in c["payloads"]],
                           impl=[(k, hx(w)[:4400], ca) for k, w, ca in res])
            if found:
                viols.append(violation("realbytes:send-not-what-accessory-expects", "send_bytes: " + found, True, **payload))
            else:
                viols.append(violation("realbytes:send-model-mismatch", "written bytes differ from ip_send_frames cp_aead (model at the real "
                                       "cipher) while the reference accessory accepts them", False,
                                       broken="correspondence Proofs/FrameReal.v ip_send_frames cp_aead <-> send_bytes", **payload))
        else:
            c = in_cases[ci]
            stream, reads, per, fin = in_built[ci]
            rx = ref.RefReceiver(c["key"], c["ctr"])
            found = None
            for seg, (dead, outs2) in zip(reads, per):
                exp_out = rx.feed(seg)
                exp_dead = rx.dead
                if b"".join(bytes(x) for x in outs2) != b"".join(exp_out) or dead != exp_dead:
                    found = (f"read of {len(seg)} bytes: delivered {[len(x) for x in outs2]} dead={dead}, a reference receiver delivers "
                             f"{[len(x) for x in exp_out]} dead={exp_dead}")
                    break
            payload = dict(stream="realbytes-in", a2c_key=hx(c["key"]), start_counter=c["ctr"], mutation=c["mut"],
                           frame_sizes=[len(f) for f in c["frames"]], reads=[hx(s)[:3000] for s in reads],
                           impl=[(d, [hx(x)[:200] for x in o]) for d, o in per], impl_final_counter=fin)
            if found:
                viols.append(violation("realbytes:recv-" + c["mut"], "data_received: " + found, True, **payload))
            else:
                viols.append(violation("realbytes:recv-model-mismatch", "per-read deliveries differ from ip_feed (cp_open key) while a "
                                       "reference receiver agrees with the implementation", False,
                                       broken="correspondence Proofs/FrameReal.v ip_feed (cp_open key) <-> data_received", **payload))
    return info, viols
