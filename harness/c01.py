"""C01 correspondence: aiohomekit.protocol.get_session_keys (+ transport glue) vs Model/Verify.v.

Every scenario (DESIGN.md Appendix B) is
  (a) realised in bytes: the REAL generator is driven by the independent reference accessory
      (harness/ref/accessory.py) whose honest replies are mutated at sub-TLV, field and byte level;
  (b) interpreted symbolically: the same exchange, as terms, through the extracted Coq model
      (build/drv_c01) running against the Coq specification accessory;
  (c) judged by a bytes-only oracle (ref.accessory.oracle_verify) that re-evaluates the C01
      acceptance condition independently of both.
Observable: first request kind, accessory state, Done/Fail (coarse), accessory's verdict on M3,
agreement of the derived keys with the accessory's.  A second pass drives the real transport code
(IP _connect_once, CoAP do_pair_verify, BLE _async_pair_verify) and checks the installed keys
functionally against the accessory's keys.
"""
from __future__ import annotations

import asyncio
import contextlib
import itertools

from common import Coverage, Driver, violation
from ref import accessory as R
from ref.accessory import (T_ENC, T_ERROR, T_ID, T_METHOD, T_PK, T_SID, T_SIG, T_STATE, Universe, V,
                           VerifyAccessory, lit, msg, reply_term)
from ref.tlv8 import ref_decode, ref_encode

ACC_LTSK, CTRL_LTSK, OTHER_LTSK = 11, 12, 13
ACC_LTSK2, CTRL_LTSK2 = 14, 15       # second pairing records of the record-sequence family
ACC_EPH, CTRL_EPH, OTHER_CTRL_EPH, OTHER_ACC_EPH = 21, 22, 23, 24
TRANSPORTS = ["ip", "ble", "coap"]

IDS = [  # (accessory id, controller id)
    (b"AA:BB:CC:DD:EE:FF", b"4d8b2f9a-31c7-4d0e-9f53-6a1e0c7b2d11"),
    (b"A", b"c"),
    ("café:01".encode(), b"ios"),
    (b"", b"x" * 36),
]


class HarnessError(Exception):
    pass


# ------------------------------------------------------------------ seams
@contextlib.contextmanager
def fixed_x25519(sk: bytes):
    """X25519PrivateKey.generate() -> the harness-chosen key (no source hook)."""
    from cryptography.hazmat.primitives.asymmetric import x25519
    cls = x25519.X25519PrivateKey
    orig = cls.__dict__["generate"]
    cls.generate = classmethod(lambda c: cls.from_private_bytes(sk))
    try:
        yield
    finally:
        cls.generate = orig


# ------------------------------------------------------------------ scenarios
class Scn:
    def __init__(self, family, transport, cfg=0, acc=None, resume=None, m2=(), m4=(), honest=False, detail="",
                 prior=False, real_eph=False, record=None, seq=None):
        self.family, self.transport, self.cfg = family, transport, cfg
        self.prior, self.real_eph = prior, real_eph or prior
        # record: overrides of the pairing record handed to get_session_keys
        #         (acc_id, ltsk = name whose public key is the stored AccessoryLTPK, ios_id, ios_ltsk)
        # seq:    (sequence name, position): scenarios of one sequence run back to back in one process
        self.record, self.seq = record or {}, seq
        self.acc = acc or {}
        self.resume = resume            # dict(ctrl=(sid, secret_name)|None, acc=(sid, secret_name)|None, new_sid=bytes)
        self.m2, self.m4 = list(m2), list(m4)
        self.honest, self.detail = honest, detail

    def ident(self):
        return f"{self.family}|{self.transport}|{self.cfg}|{self.detail}"


# mutation ops: (stage, function, label).  Stages: 'sub' (draft before sealing), 'top' (field list),
# 'raw' (encoded bytes).  Written once; the symbolic reading follows from the dual values.
def top(fn, label):
    return ("top", fn, label)


def sub(fn, label):
    return ("sub", fn, label)


def raw(fn, label):
    return ("raw", fn, label)


def l_drop(t):
    def f(items, ctx):
        out, done = [], False
        for k, v in items:
            if k == t and not done:
                done = True
                continue
            out.append((k, v))
        return out
    return f


def l_dup_adj(t):
    def f(items, ctx):
        out = []
        for k, v in items:
            out.append((k, v))
            if k == t:
                out.append((k, v))
        return out
    return f


def l_dup_end(t):
    def f(items, ctx):
        return items + [(k, v) for k, v in items if k == t][:1]
    return f


def l_perm(order):
    def f(items, ctx):
        return [items[i] for i in order]
    return f


def l_set(t, mk):
    def f(items, ctx):
        return [(k, mk(ctx, v) if k == t else v) for k, v in items]
    return f


def l_add(pos, t, b):
    def f(items, ctx):
        it = list(items)
        it.insert(len(it) if pos < 0 else pos, (t, lit(b)))
        return it
    return f


def l_retype(t, t2):
    def f(items, ctx):
        return [(t2 if k == t else k, v) for k, v in items]
    return f


def r_flipbit(i, bit):
    return lambda b, ctx: b if i >= len(b) else b[:i] + bytes([b[i] ^ (1 << bit)]) + b[i + 1:]


def r_xor(i, mask):
    return lambda b, ctx: b if i >= len(b) else b[:i] + bytes([b[i] ^ mask]) + b[i + 1:]


def r_trunc(n):
    return lambda b, ctx: b[:n]


def r_append(x):
    return lambda b, ctx: b + x


def d_attr(name, mk):
    def f(draft, ctx):
        setattr(draft, name, mk(ctx, getattr(draft, name)))
    return f


def d_items(fn):
    def f(draft, ctx):
        draft.sub_items = fn(draft.sub_items, ctx)
    return f


def d_rawflip(i, bit):
    def f(draft, ctx):
        b = ctx.U.tlv(draft.sub_items).b if draft.sub_raw is None else draft.sub_raw
        draft.sub_raw = b[:i] + bytes([b[i] ^ (1 << bit)]) + b[i + 1:]
    return f


def flip_v(i, bit):
    return lambda ctx, v: ctx.U.abstract(v.b[:i] + bytes([v.b[i] ^ (1 << bit)]) + v.b[i + 1:])


def const_v(b):
    return lambda ctx, v: lit(b)


class Ctx:
    pass


# ------------------------------------------------------------------ one concrete + symbolic run
PREV = {1: (30, 31), 2: (32, 33)}     # names of previous-session secrets: dh(a, pub b)


def prev_secret(U, n) -> V:
    a, b = PREV[n]
    return U.dh(a, U.xpub(b))


def decode_for(transport, raw_bytes, expected):
    """the transports' own decoding step (aiohomekit TLV), exceptions propagate"""
    from aiohomekit.protocol.tlv import TLV
    if transport == "ble":
        return dict(TLV.decode_bytes(raw_bytes))
    return TLV.decode_bytes(raw_bytes, expected=expected)


def apply_ops(ops, stage, obj, ctx):
    for st, fn, _ in ops:
        if st == stage:
            r = fn(obj, ctx)
            if stage != "sub":
                obj = r
    return obj


def realise(ops, out, ctx, expected=None):
    """honest reply (draft or item list) + ops -> (raw bytes, symbolic items or None if not TLV8)"""
    U = ctx.U
    if hasattr(out, "build"):
        apply_ops(ops, "sub", out, ctx)
        items = out.build(U)
    else:
        items = out
    items = apply_ops(ops, "top", items, ctx)
    rb = ref_encode([(t, v.b) for t, v in items])
    if any(st == "raw" for st, _, _ in ops):
        rb = apply_ops(ops, "raw", rb, ctx)
        sym = U.abstract_items(rb, expected)
    else:
        sym = items
    return rb, sym


MASK = lambda b: bytes(b[:31]) + bytes([b[31] & 0x7F]) if len(b) == 32 else bytes(b)  # noqa: E731


class Peer:
    """The reference accessory plus the scenario's adversary, answering the requests it ACTUALLY receives:
    the controller's ephemeral public key is taken from the M1 on the wire (no dependence on a key seam)."""

    def __init__(self, s: Scn, U=None, ctrl_name=CTRL_EPH, live_session=None):
        self.s, self.ctrl_name = s, ctrl_name
        self.U = U = U or Universe("c01")
        acc_id, ios_id = IDS[s.cfg]
        r = dict(acc_id=acc_id, ltsk=ACC_LTSK, ios_id=ios_id, ios_ltsk=CTRL_LTSK)
        r.update(s.record)
        self.record = r
        acc_id, ios_id = r["acc_id"], r["ios_id"]
        self.acc_id, self.ios_id = acc_id, ios_id
        self.ctx = ctx = Ctx()
        ctx.U = U
        self.stored_ltpk = U.edpub(r["ltsk"])
        self.pd = {"AccessoryPairingID": acc_id.decode(), "AccessoryLTPK": self.stored_ltpk.b.hex(),
                   "iOSPairingId": ios_id.decode(), "iOSDeviceLTSK": U.edsk(r["ios_ltsk"]).hex(),
                   "iOSDeviceLTPK": U.edpub(r["ios_ltsk"]).b.hex()}
        # by default the accessory is the one the record describes and knows the record's controller
        a = dict(acc_id=acc_id, ltsk=r["ltsk"], eph=ACC_EPH, ctrl_id=ios_id, ctrl_ltsk=r["ios_ltsk"])
        a.update(s.acc)
        self.a = a
        self.session = self.new_sid = self.rs_ctrl = None
        if s.resume:
            if s.resume.get("acc"):
                sid, n = s.resume["acc"]
                self.session = (lit(sid), prev_secret(U, n))
            self.new_sid = lit(s.resume.get("new_sid", b"\x09" * 8))
            if s.resume.get("ctrl"):
                sid, n = s.resume["ctrl"]
                self.rs_ctrl = (lit(sid), prev_secret(U, n))
        if live_session is not None:     # (sid, secret, new sid) the accessory remembers from an earlier LIVE session
            sec = live_session[1]
            self.session = (lit(live_session[0]), sec if isinstance(sec, V) else lit(sec))
            self.new_sid = lit(live_session[2])
        self.acc = VerifyAccessory(U, a["acc_id"], a["ltsk"], a["eph"], a["ctrl_id"], U.edpub(a["ctrl_ltsk"]),
                                   self.session, self.new_sid)
        ctx.acc, ctx.scn = self.acc, s
        self.n = 0
        self.m1 = self.m2 = self.m3 = self.m4 = None
        self.m2_items = self.m4_items = None
        self.sym_m2 = self.sym_m4 = "honest"
        self.m3acc = None
        self.m1kind = "?"
        self.eph_sk = None          # known only when the (optional) key seam was effective
        self.eph_pk = None
        self.reused_name = None     # the M1 public key was already seen under another name in this universe

    def controller_args(self):
        if not self.rs_ctrl:
            return ()
        prev = self.rs_ctrl[1].b
        return (self.rs_ctrl[0].b,
                lambda salt, info, length=32: R.hkdf_sha512(prev, bytes(salt), bytes(info), length))

    def respond(self, request: bytes, expected=None) -> bytes:
        self.n += 1
        U, s = self.U, self.s
        flt = None if (s.transport == "ble" or expected is None) else [int(x) for x in expected]
        if self.n == 1:
            self.m1 = bytes(request)
            dec = ref_decode(self.m1) or []
            d1 = dict(dec)
            pk = d1.get(T_PK)
            self.eph_pk = pk
            if pk is not None and len(pk) == 32:
                if pk == R.x25519_pub(U.xsk(self.ctrl_name)):
                    self.eph_sk = U.xsk(self.ctrl_name)
                    U.xpub(self.ctrl_name)
                elif pk in U.reg:
                    self.reused_name = U.reg[pk]
                else:
                    U._reg(V(pk, (f"pub({self.ctrl_name})",)))
            self.m1kind = "resume" if T_METHOD in d1 else "plain"
            if self.m1kind == "plain" and (dec != [(T_STATE, b"\x01"), (T_PK, pk)] or pk is None or len(pk) != 32):
                self.m1kind = "other"
            _, out = self.acc.on_m1(self.m1)
            self.ctx.C = self.acc.C
            self.m2, sym = realise(s.m2, out, self.ctx, flt)
            self.m2_items = sym
            self.sym_m2 = None if sym is None else reply_term(sym)
            return self.m2
        if self.n == 2:
            self.m3 = bytes(request)
            self.m3acc, out4 = self.acc.on_m3(self.m3)
            self.m4, sym = realise(s.m4, out4, self.ctx, flt)
            self.m4_items = sym
            self.sym_m4 = None if sym is None else (reply_term(sym) if s.m4 else "honest")
            return self.m4
        raise HarnessError("the controller sent a third request")

    def dh(self, P: bytes):
        """DH(controller ephemeral, P) for the oracle: directly when the ephemeral secret is known, otherwise
        from the other side when P is (up to the masked top bit) a public key whose secret the harness holds"""
        if self.eph_sk is not None:
            return R.x25519_dh(self.eph_sk, P)
        if self.eph_pk is None or len(P) != 32:
            return None
        for n in (ACC_EPH, OTHER_ACC_EPH, OTHER_CTRL_EPH, CTRL_EPH):
            if MASK(R.x25519_pub(self.U.xsk(n))) == MASK(P):
                return R.x25519_dh(self.U.xsk(n), self.eph_pk)
        return None


def drive_generator(peer: Peer, rec, use_seam=True):
    """the real get_session_keys against the peer, replies decoded as the transports decode them"""
    from aiohomekit.protocol import get_session_keys
    s = peer.s
    done_val = None
    cm = fixed_x25519(peer.U.xsk(peer.ctrl_name)) if use_seam else contextlib.nullcontext()
    with cm:
        gen = get_session_keys(peer.pd, *peer.controller_args())
        req, exp2 = gen.send(None)
    rec["expected_lists"] = [int(x) for x in exp2]
    m2_raw = peer.respond(ref_encode([(int(t), bytes(v)) for t, v in req]), exp2)
    stage = "m2"
    try:
        dec = decode_for(s.transport, m2_raw, exp2)
        try:
            req3, exp4 = gen.send(dec)
        except StopIteration as st:
            done_val = st.value
        else:
            m4_raw = peer.respond(ref_encode([(int(t), bytes(v)) for t, v in req3]), exp4)
            stage = "m4"
            dec4 = decode_for(s.transport, m4_raw, exp4)
            try:
                gen.send(dec4)
                raise HarnessError("generator yielded a third request")
            except StopIteration as st:
                done_val = st.value
    except HarnessError:
        raise
    except Exception as e:  # noqa: BLE001 - any exception is the coarse outcome Fail
        rec["exc"] = f"{stage}:{type(e).__name__}"
    return done_val


def run_scenario(s: Scn, glue=None):
    """Runs the implementation against the reference accessory.  Returns a record with the
    canonical implementation line, the model request, and everything the oracle needs."""
    U = Universe("c01")
    rec = dict(scn=s, exc=None, prior=None, key_reused=False)
    prior = None
    if s.prior:
        # an earlier, honest exchange in the same process, with whatever ephemeral key the implementation
        # chooses (no seam); its replies are what the adversary replays into the exchange under test
        prior = Peer(Scn("prior", s.transport, s.cfg, resume=s.resume, honest=True), U, OTHER_CTRL_EPH)
        prec = dict(exc=None)
        pdone = drive_generator(prior, prec, use_seam=False)
        rec["prior"] = dict(m1=prior.m1.hex(), m2=prior.m2.hex(), m3=prior.m3.hex() if prior.m3 else None,
                            m4=prior.m4.hex() if prior.m4 else None, done=pdone is not None, exc=prec["exc"])
    peer = Peer(s, U)
    if prior is not None:
        peer.ctx.prior_m2, peer.ctx.prior_m4 = prior.m2_items, prior.m4_items
    acc = peer.acc
    done_val = drive_generator(peer, rec, use_seam=not s.real_eph)
    rec.update(pd=peer.pd, eph_sk=peer.eph_sk.hex() if peer.eph_sk else None, m1=peer.m1, m2=peer.m2, m3=peer.m3, m4=peer.m4)
    if prior is not None and prior.eph_pk == peer.eph_pk:
        rec["key_reused"] = True
    result, keys_ok = "fail", None
    if done_val is not None:
        result = "done"
        sid_out, derive = done_val
        got = dict(c2a=derive(b"Control-Salt", b"Control-Write-Encryption-Key"),
                   a2c=derive(b"Control-Salt", b"Control-Read-Encryption-Key"))
        if s.transport == "coap":
            got["evt"] = derive(b"Event-Salt", b"Event-Read-Encryption-Key")
        rec["keys"] = {k: bytes(v).hex() for k, v in got.items()}
        rec["sid"] = bytes(sid_out).hex()
        if acc.secret is None:
            keys_ok = False
        else:
            want = R.session_keys(acc.secret, s.transport)
            keys_ok = all(bytes(got[k]) == want[k] for k in want) and (acc.state != "resumed" or bytes(sid_out) == acc.sid)
            rec["sid_ok"] = bytes(sid_out) == acc.sid
    b = lambda x: "-" if x is None else ("1" if x else "0")  # noqa: E731
    rec["impl"] = f"m1={peer.m1kind} acc={acc.state} result={result} m3acc={b(peer.m3acc)} keys={b(keys_ok)}"
    # ---- model request
    if peer.sym_m2 is None or peer.reused_name is not None:
        rec["model_req"] = None      # not TLV8 (the transport's decoder fails first) / names not injective
    else:
        a, session, rs_ctrl, new_sid = peer.a, peer.session, peer.rs_ctrl, peer.new_sid
        rs_sid = msg(rs_ctrl[0]) if rs_ctrl else "-"
        rs_sec = msg(rs_ctrl[1]) if rs_ctrl else "-"
        ss_sid = msg(session[0]) if session else "-"
        ss_sec = msg(session[1]) if session else "-"
        hx = lambda x: x.hex() if x else "-"  # noqa: E731
        rec["model_req"] = " ".join([
            "pv", s.transport, hx(peer.acc_id), msg(peer.stored_ltpk), hx(peer.ios_id), str(peer.record["ios_ltsk"]), str(CTRL_EPH),
            rs_sid, rs_sec,
            hx(a["acc_id"]), str(a["ltsk"]), str(a["eph"]), hx(a["ctrl_id"]), msg(U.edpub(a["ctrl_ltsk"])),
            ss_sid, ss_sec, msg(new_sid if new_sid is not None else lit(b"\x09" * 8)),
            peer.sym_m2, peer.sym_m4 if peer.sym_m4 is not None else "honest"])
        rec["m4_not_tlv"] = peer.sym_m4 is None
    rec["m2_unmutated"] = not s.m2
    # ---- oracle
    kind_, secret_, why = R.oracle_verify(peer.m2, peer.m4, s.transport, peer.acc_id, peer.stored_ltpk.b, peer.dh,
                                          peer.eph_pk, peer.rs_ctrl[1].b if peer.rs_ctrl else None)
    rec["just"] = (kind_, secret_) if kind_ else None
    rec["why_not"] = why
    rec["acc_secret"] = acc.secret
    rec["acc_state"] = acc.state
    rec["seam_effective"] = peer.eph_sk is not None
    return rec


# ------------------------------------------------------------------ scenario generation
def honest_shape(transport, cfg):
    """lengths of the honest M2, of its plaintext and of M4, from the reference accessory alone
    (deterministic keys => the honest replies are fixed byte strings)"""
    U = Universe("c01")
    acc_id, ios_id = IDS[cfg]
    acc = VerifyAccessory(U, acc_id, ACC_LTSK, ACC_EPH, ios_id, U.edpub(CTRL_LTSK))
    _, d = acc.on_m1(ref_encode([(T_STATE, b"\x01"), (T_PK, U.xpub(CTRL_EPH).b)]))
    m2 = ref_encode([(t, v.b) for t, v in d.build(U)])
    return len(m2), len(U.tlv(d.sub_items).b), 3


def gen_scenarios(tier, rnd):
    S = []
    full = tier == "thorough"
    # ---- honest, every transport and identity set; accessory variants
    for tr in TRANSPORTS:
        for cfg in range(len(IDS)):
            S.append(Scn("honest", tr, cfg, honest=True))
        S.append(Scn("acc:wrong-ltsk", tr, acc=dict(ltsk=OTHER_LTSK)))
        S.append(Scn("acc:wrong-id", tr, acc=dict(acc_id=b"AA:BB:CC:DD:EE:F0")))
        S.append(Scn("acc:other-eph", tr, acc=dict(eph=OTHER_ACC_EPH), honest=True))
        S.append(Scn("acc:controller-unknown", tr, acc=dict(ctrl_ltsk=OTHER_LTSK)))
        S.append(Scn("acc:controller-other-id", tr, acc=dict(ctrl_id=b"someone-else")))
    # ---- record sequences: several exchanges of ONE process with different pairing records; each exchange is judged
    #      against ITS OWN record (the model and the oracle are history-free - any state the implementation keeps
    #      between exchanges shows up as a disagreement on a later step)
    for tr in TRANSPORTS:
        def seq(name, steps):
            for i, (label, record, accd, honest) in enumerate(steps):
                S.append(Scn("record-sequence:" + name, tr, 0, acc=accd, record=record, honest=honest,
                             seq=(f"{name}:{tr}", i), detail=f"step{i}:{label}"))
        ida, idb = f"5E:0A:{tr}".encode(), f"5E:0B:{tr}".encode()
        R1, R2 = dict(acc_id=ida, ltsk=ACC_LTSK), dict(acc_id=ida, ltsk=ACC_LTSK2)
        seq("same-id-new-ltpk", [("R1-honest", R1, {}, True), ("R2-honest", R2, {}, True),
                                 ("R2-peer-holds-old-ltsk", R2, dict(ltsk=ACC_LTSK), False),
                                 ("R1-honest-again", R1, {}, True), ("R1-peer-holds-R2-ltsk", R1, dict(ltsk=ACC_LTSK2), False)])
        R1, R2 = dict(acc_id=idb, ltsk=ACC_LTSK2), dict(acc_id=idb, ltsk=ACC_LTSK)
        seq("same-id-new-ltpk:reverse", [("R1-peer-holds-R2-ltsk", R1, dict(ltsk=ACC_LTSK), False), ("R1-honest", R1, {}, True),
                                         ("R2-peer-holds-old-ltsk", R2, dict(ltsk=ACC_LTSK2), False), ("R2-honest", R2, {}, True)])
        idc, idd = f"5E:0C:{tr}".encode(), f"5E:0D:{tr}".encode()
        R1, R2 = dict(acc_id=idc, ltsk=ACC_LTSK), dict(acc_id=idd, ltsk=ACC_LTSK)
        seq("same-ltpk-new-id", [("R1-honest", R1, {}, True), ("R2-honest", R2, {}, True),
                                 ("R2-peer-names-old-id", R2, dict(acc_id=idc), False),
                                 ("R1-peer-names-R2-id", R1, dict(acc_id=idd), False), ("R1-honest-again", R1, {}, True)])
        ide, idf = f"5E:0E:{tr}".encode(), f"5E:0F:{tr}".encode()
        ios = f"controller-{tr}".encode()
        R1 = dict(acc_id=ide, ltsk=ACC_LTSK, ios_id=ios, ios_ltsk=CTRL_LTSK)
        R2 = dict(acc_id=idf, ltsk=ACC_LTSK2, ios_id=ios, ios_ltsk=CTRL_LTSK)
        R3 = dict(acc_id=idf, ltsk=ACC_LTSK2, ios_id=ios, ios_ltsk=CTRL_LTSK2)      # controller identity re-keyed
        seq("same-ios-identity", [("R1-honest", R1, {}, True), ("R2-honest", R2, {}, True),
                                  ("R2-accessory-of-R1-answers", R2, dict(acc_id=ide, ltsk=ACC_LTSK), False),
                                  ("R1-accessory-of-R2-answers", R1, dict(acc_id=idf, ltsk=ACC_LTSK2), False),
                                  ("R3-rekeyed-controller-honest", R3, {}, True),
                                  ("R3-accessory-knows-old-controller-key", R3, dict(ctrl_ltsk=CTRL_LTSK), False),
                                  ("R1-honest-again", R1, {}, True)])
    # ---- wrong-id:case-variant: the peer names (and its genuine long-term key signs) an identifier that differs
    #      from the stored one only in letter case; identifiers are byte strings, so this is another identifier
    for tr in TRANSPORTS:
        for k, stored in enumerate((b"AA:BB:CC:DD:EE:FF", b"aA:Bb:cc:DD:e0:1f", "Caf\u00e9-Lamp".encode())):
            variants = {}
            for i, ch in enumerate(stored):
                if (65 <= ch <= 90) or (97 <= ch <= 122):
                    variants[f"pos{i}"] = stored[:i] + bytes([ch ^ 0x20]) + stored[i + 1:]
            variants["upper"], variants["lower"] = stored.upper(), stored.lower()
            variants["swapcase"] = stored.swapcase()
            S.append(Scn("wrong-id:case-variant:control", tr, 0, record=dict(acc_id=stored), honest=True, detail=f"id{k}:exact"))
            for name, var in sorted(variants.items()):
                if var != stored:
                    S.append(Scn("wrong-id:case-variant", tr, 0, record=dict(acc_id=stored), acc=dict(acc_id=var),
                                 detail=f"id{k}:{name}"))
    for tr in TRANSPORTS:
        # replies recorded in an EARLIER real exchange of the same process (ephemeral keys as the implementation
        # chooses them, no seam) replayed verbatim into a second exchange: pv_replayed_exchange_fails
        rep2 = [top(lambda items, ctx: ctx.prior_m2, "recorded-m2")]
        rep4 = [top(lambda items, ctx: ctx.prior_m4 if ctx.prior_m4 is not None else items, "recorded-m4")]
        for cfg in range(len(IDS)):
            S.append(Scn("replayed-exchange:real-ephemeral", tr, cfg, m2=rep2, m4=rep4, prior=True, detail="m2+m4"))
        S.append(Scn("replayed-exchange:real-ephemeral:resume", tr, 0, m2=rep2, prior=True, detail="resume-m2",
                     resume=dict(ctrl=(b"\x01\x02\x03\x04\x05\x06\x07\x08", 1), acc=(b"\x01\x02\x03\x04\x05\x06\x07\x08", 1))))
        S.append(Scn("honest:real-ephemeral", tr, 0, honest=True, real_eph=True))

    def other_key(ctx, v):
        return ctx.U.hkdf(lit(b"attacker"), lit(b"s"), lit(b"i"))

    def key_other_eph(ctx, v):     # session key of another exchange (other controller ephemeral)
        sh = ctx.U.dh(ctx.acc.eph, ctx.U.xpub(OTHER_CTRL_EPH))
        return ctx.U.hkdf(sh, lit(R.L_PVE_SALT), lit(R.L_PVE_INFO))

    def sig_over(parts, key=None):
        def mk(ctx, v):
            P, idv, E = ctx.U.xpub(ctx.acc.eph), lit(ctx.acc.acc_id), ctx.C
            src = dict(P=P, I=idv, E=E, O=lit(b"AA:BB:CC:DD:EE:F0"), X=ctx.U.xpub(OTHER_CTRL_EPH), N=lit(b""))
            m = V(b"", ())
            for p in parts:
                m = m + src[p]
            return ctx.U.sign(key or ctx.acc.ltsk, m)
        return mk

    def replayed(items, ctx):
        """the right accessory's honest M2, recorded in an exchange with another controller key"""
        acc2 = VerifyAccessory(ctx.U, ctx.acc.acc_id, ctx.acc.ltsk, ctx.acc.eph, ctx.acc.ctrl_id, ctx.acc.ctrl_ltpk)
        m1o = ref_encode([(T_STATE, b"\x01"), (T_PK, ctx.U.xpub(OTHER_CTRL_EPH).b)])
        _, d = acc2.on_m1(m1o)
        return d.build(ctx.U)

    def pk_mk(kind):
        def mk(ctx, v):
            if kind == "other-valid":
                return ctx.U.xpub(OTHER_ACC_EPH)
            if kind == "len31":
                return ctx.U.abstract(v.b[:31])
            if kind == "len33":
                return ctx.U.abstract(v.b + b"\x00")
            if kind == "zero":
                return lit(bytes(32))
            if kind == "empty":
                return lit(b"")
            if kind == "controller-own":
                return ctx.C
            raise KeyError(kind)
        return mk

    def enc_mk(kind):
        def mk(ctx, v):
            if kind == "random":
                return lit(bytes((i * 37 + 11) & 0xFF for i in range(len(v.b))))
            if kind == "empty":
                return lit(b"")
            if kind == "trunc-tag":
                return ctx.U.abstract(v.b[:-1])
            if kind == "tag-only":
                return ctx.U.abstract(v.b[-16:])
            if kind == "extended":
                return ctx.U.abstract(v.b + b"\x00")
            raise KeyError(kind)
        return mk

    for tr in TRANSPORTS:
        M = []   # (family, ops)
        # -- top-level field surgery
        for t, nm in ((T_STATE, "state"), (T_PK, "pk"), (T_ENC, "enc")):
            M.append((f"m2:drop:{nm}", [top(l_drop(t), "drop")]))
            M.append((f"m2:dup-adjacent:{nm}", [top(l_dup_adj(t), "dup")]))
            M.append((f"m2:dup-end:{nm}", [top(l_dup_end(t), "dup-end")]))
        for order in itertools.permutations(range(3)):
            if order != (0, 1, 2):
                M.append(("m2:reorder", [top(l_perm(order), "perm" + "".join(map(str, order)))]))
        for k in ("other-valid", "len31", "len33", "zero", "empty", "controller-own"):
            M.append((f"m2:pk:{k}", [top(l_set(T_PK, pk_mk(k)), k)]))
        for k in ("random", "empty", "trunc-tag", "tag-only", "extended"):
            M.append((f"m2:enc:{k}", [top(l_set(T_ENC, enc_mk(k)), k)]))
        for st in (b"\x01", b"\x03", b"\x04", b"\x00", b"", b"\x02\x00", b"\x00\x02"):
            M.append(("m2:state:value", [top(l_set(T_STATE, const_v(st)), "state=" + st.hex())]))
        for code in (1, 2, 3, 4, 5, 6, 7, 0, 255):
            M.append(("m2:add-error:end", [top(l_add(-1, T_ERROR, bytes([code])), f"err{code}")]))
            M.append(("m2:add-error:front", [top(l_add(0, T_ERROR, bytes([code])), f"err{code}")]))
            M.append(("m2:add-error:nostate", [top(l_drop(T_STATE), "nostate"), top(l_add(-1, T_ERROR, bytes([code])), f"err{code}")]))
        M.append(("m2:add-error:empty", [top(l_add(-1, T_ERROR, b""), "err-empty")]))
        M.append(("m2:unknown-field:end", [top(l_add(-1, 0x42, b"zz"), "unk-end")]))
        M.append(("m2:unknown-field:front", [top(l_add(0, 0x42, b"zz"), "unk-front")]))
        M.append(("m2:unknown-field:middle", [top(l_add(2, 0x42, b"zz"), "unk-mid")]))
        M.append(("m2:retype:pk-as-salt", [top(l_retype(T_PK, 2), "retype")]))
        M.append(("m2:replayed-other-exchange", [top(replayed, "replay")]))
        # -- AEAD key / nonce / aad
        M.append(("m2:enc:under-other-key", [sub(d_attr("key", other_key), "otherkey")]))
        M.append(("m2:enc:under-other-exchange-key", [sub(d_attr("key", key_other_eph), "otherephkey")]))
        for lab in (b"PV-Msg03", b"PV-Msg01", b"PS-Msg06", b"PR-Msg02", b"pv-msg02"):
            M.append(("m2:enc:under-other-nonce", [sub(d_attr("nonce", const_v(R.nonce12(lab))), lab.decode())]))
        M.append(("m2:enc:with-aad", [sub(d_attr("aad", const_v(b"x")), "aad")]))
        # -- sub-TLV surgery
        for t, nm in ((T_ID, "id"), (T_SIG, "sig")):
            M.append((f"m2:sub:drop:{nm}", [sub(d_items(l_drop(t)), "drop")]))
            M.append((f"m2:sub:dup-adjacent:{nm}", [sub(d_items(l_dup_adj(t)), "dup")]))
            M.append((f"m2:sub:dup-end:{nm}", [sub(d_items(l_dup_end(t)), "dup-end")]))
        M.append(("m2:sub:reorder", [sub(d_items(l_perm((1, 0))), "swap")]))
        M.append(("m2:sub:unknown-field", [sub(d_items(l_add(-1, 0x42, b"zz")), "unk")]))
        M.append(("m2:sub:extra-state", [sub(d_items(l_add(0, T_STATE, b"\x02")), "state")]))
        M.append(("m2:sub:empty", [sub(d_items(lambda it, ctx: []), "empty")]))
        M.append(("m2:sub:sig:by-other-key", [sub(d_items(l_set(T_SIG, sig_over("PIE", OTHER_LTSK))), "otherkey")]))
        M.append(("m2:sub:sig:by-controller-key", [sub(d_items(l_set(T_SIG, sig_over("PIE", CTRL_LTSK))), "ctrlkey")]))
        for perm in ("PEI", "IPE", "IEP", "EPI", "EIP"):
            M.append(("m2:sub:sig:over-permuted", [sub(d_items(l_set(T_SIG, sig_over(perm))), perm)]))
        M.append(("m2:sub:sig:over-other-id", [sub(d_items(l_set(T_SIG, sig_over("POE"))), "POE")]))
        M.append(("m2:sub:sig:over-other-eph", [sub(d_items(l_set(T_SIG, sig_over("PIX"))), "PIX")]))
        M.append(("m2:sub:sig:over-no-id", [sub(d_items(l_set(T_SIG, sig_over("PE"))), "PE")]))
        M.append(("m2:sub:sig:over-prefix", [sub(d_items(l_set(T_SIG, sig_over("PI"))), "PI")]))
        M.append(("m2:sub:sig:random", [sub(d_items(l_set(T_SIG, const_v(bytes(range(64))))), "rnd")]))
        M.append(("m2:sub:sig:len63", [sub(d_items(l_set(T_SIG, lambda ctx, v: ctx.U.abstract(v.b[:63]))), "63")]))
        M.append(("m2:sub:sig:len65", [sub(d_items(l_set(T_SIG, lambda ctx, v: ctx.U.abstract(v.b + b"\x00"))), "65")]))
        M.append(("m2:sub:sig:empty", [sub(d_items(l_set(T_SIG, const_v(b""))), "empty")]))
        M.append(("m2:sub:id:other", [sub(d_items(l_set(T_ID, const_v(b"AA:BB:CC:DD:EE:F0"))), "other")]))
        M.append(("m2:sub:id:other-and-signed", [sub(d_items(l_set(T_ID, const_v(b"AA:BB:CC:DD:EE:F0"))), "other"),
                                                sub(d_items(l_set(T_SIG, sig_over("POE"))), "POE")]))
        M.append(("m2:sub:id:empty", [sub(d_items(l_set(T_ID, const_v(b""))), "empty")]))
        M.append(("m2:sub:id:prefix", [sub(d_items(l_set(T_ID, lambda ctx, v: lit(v.b[:-1]))), "prefix")]))
        M.append(("m2:sub:id:extended", [sub(d_items(l_set(T_ID, lambda ctx, v: lit(v.b + b"\x00"))), "ext")]))
        M.append(("m2:sub:id:non-utf8", [sub(d_items(l_set(T_ID, const_v(b"\xff\xfe\x80"))), "nonutf8")]))
        M.append(("m2:sub:id:case", [sub(d_items(l_set(T_ID, lambda ctx, v: lit(v.b.lower()))), "lower")]))
        # -- M4
        M4 = []
        for code in (1, 2, 3, 4, 5, 6, 7, 0, 255):
            M4.append(("m4:add-error", [top(l_add(-1, T_ERROR, bytes([code])), f"err{code}")]))
            M4.append(("m4:add-error:nostate", [top(l_drop(T_STATE), "nostate"), top(l_add(-1, T_ERROR, bytes([code])), f"err{code}")]))
            M4.append(("m4:add-error:front", [top(l_add(0, T_ERROR, bytes([code])), f"err{code}")]))
        for st in (b"\x01", b"\x02", b"\x03", b"\x05", b"\x00", b"", b"\x04\x00"):
            M4.append(("m4:state:value", [top(l_set(T_STATE, const_v(st)), "state=" + st.hex())]))
        M4.append(("m4:nostate", [top(l_drop(T_STATE), "nostate")]))
        M4.append(("m4:unknown-field:front", [top(l_add(0, 0x42, b"z"), "unk")]))
        M4.append(("m4:unknown-field:end", [top(l_add(-1, 0x42, b"z"), "unk")]))
        M4.append(("m4:dup-state", [top(l_dup_adj(T_STATE), "dup")]))
        M4.append(("m4:empty", [top(lambda it, ctx: [], "empty")]))
        for fam, ops in M:
            S.append(Scn(fam, tr, 0, m2=ops, detail="+".join(o[2] for o in ops)))
        for fam, ops in M4:
            S.append(Scn(fam, tr, 0, m4=ops, detail="+".join(o[2] for o in ops)))
        # M4 error from an accessory that really rejected M3 + adversary hiding it
        S.append(Scn("m4:rejecting-accessory:error-stripped", tr, acc=dict(ctrl_ltsk=OTHER_LTSK),
                     m4=[top(l_drop(T_ERROR), "strip-error")]))
        # -- byte level: every single-bit flip and two byte substitutions of every byte of M2 / M4,
        #    and every single-bit flip of the plaintext sub-TLV (re-encrypted)
        n2, npt, n4 = honest_shape(tr, 0)
        sweep_bits = range(8) if (full or tr == "ip") else (0, 7)
        step = 1 if (full or tr != "coap") else 3
        for i in range(0, n2, step):
            for bit in sweep_bits:
                S.append(Scn("m2:raw:flipbit", tr, 0, m2=[raw(r_flipbit(i, bit), "flip")], detail=f"byte{i}bit{bit}"))
            if full or tr == "ip":
                S.append(Scn("m2:raw:xorbyte", tr, 0, m2=[raw(r_xor(i, 0xFF), "xor")], detail=f"byte{i}^ff"))
                S.append(Scn("m2:raw:xorbyte", tr, 0, m2=[raw(r_xor(i, 0x55), "xor")], detail=f"byte{i}^55"))
        for i in range(n4):
            for bit in range(8):
                S.append(Scn("m4:raw:flipbit", tr, 0, m4=[raw(r_flipbit(i, bit), "flip")], detail=f"byte{i}bit{bit}"))
        for n in range(0, n2, 1 if full else 7):
            S.append(Scn("m2:raw:truncate", tr, 0, m2=[raw(r_trunc(n), "trunc")], detail=f"len{n}"))
        S.append(Scn("m2:raw:append-byte", tr, 0, m2=[raw(r_append(b"\x06"), "append")], detail="06"))
        if full or tr == "ble":
            for i in range(npt):
                for bit in (range(8) if full else (0, 3, 7)):
                    S.append(Scn("m2:sub:raw:flipbit", tr, 0, m2=[sub(d_rawflip(i, bit), "ptflip")], detail=f"pt{i}bit{bit}"))
        # bit flips inside identifier / signature values on the other identity sets
        for cfg in (1, 2):
            for i in range(len(IDS[cfg][0])):
                S.append(Scn("m2:sub:id:flipbit", tr, cfg, m2=[sub(d_items(l_set(T_ID, flip_v(i, 0))), "idflip")], detail=f"id{i}"))
        # ---- resume
        sid = b"\x01\x02\x03\x04\x05\x06\x07\x08"
        RS = dict(ctrl=(sid, 1), acc=(sid, 1))
        S.append(Scn("resume:honest", tr, resume=RS, honest=(tr == "ble")))
        S.append(Scn("resume:accessory-forgot-session", tr, resume=dict(ctrl=(sid, 1)), honest=True))
        S.append(Scn("resume:accessory-other-secret", tr, resume=dict(ctrl=(sid, 1), acc=(sid, 2)), honest=True))
        S.append(Scn("resume:accessory-other-sid", tr, resume=dict(ctrl=(sid, 1), acc=(b"\x08" * 8, 1)), honest=True))
        S.append(Scn("resume:empty-session-id", tr, resume=dict(ctrl=(b"", 1), acc=(b"", 1)), honest=True))

        def res_tag(secret_n, label=R.L_RES_RESP, nonce=b"PR-Msg02", pt=b"", nsid=None):
            def mk(ctx, v):
                U = ctx.U
                ns = lit(nsid) if nsid is not None else ctx.acc.new_sid
                return U.seal(U.hkdf(prev_secret(U, secret_n), ctx.C + ns, lit(label)), lit(R.nonce12(nonce)), lit(b""), lit(pt))
            return mk
        RM = []
        RM.append(("resume:wrong-secret", [top(l_set(T_ENC, res_tag(2)), "secret2")]))
        RM.append(("resume:tag:request-label", [top(l_set(T_ENC, res_tag(1, label=R.L_RES_REQ)), "reqlabel")]))
        RM.append(("resume:tag:secret-label", [top(l_set(T_ENC, res_tag(1, label=R.L_RES_SECRET)), "seclabel")]))
        RM.append(("resume:tag:nonce-pr01", [top(l_set(T_ENC, res_tag(1, nonce=b"PR-Msg01")), "pr01")]))
        RM.append(("resume:tag:nonempty-plaintext", [top(l_set(T_ENC, res_tag(1, pt=b"x")), "pt")]))
        RM.append(("resume:tag:nonempty-plaintext-tlv", [top(l_set(T_ENC, res_tag(1, pt=b"\x06\x01\x02")), "pt-tlv")]))
        RM.append(("resume:tag:for-other-sid", [top(l_set(T_ENC, res_tag(1, nsid=b"\x07" * 8)), "othersid")]))
        RM.append(("resume:tag:empty", [top(l_set(T_ENC, const_v(b"")), "empty")]))
        for n in range(1, 16):       # a proper, non-empty prefix of the GENUINE 16-byte tag
            RM.append(("resume:tag:prefix", [top(l_set(T_ENC, lambda ctx, v, n=n: ctx.U.abstract(v.b[:n])), f"first{n}")]))
        RM.append(("resume:tag:extended", [top(l_set(T_ENC, lambda ctx, v: ctx.U.abstract(v.b + b"\x00")), "17bytes")]))
        RM.append(("resume:tag:extended", [top(l_set(T_ENC, lambda ctx, v: ctx.U.abstract(v.b + v.b)), "32bytes")]))
        # one-byte guesses of a peer that does not know the secret: the one equal to the genuine tag's first byte
        # (computed from the reference) and a few others
        RM.append(("resume:tag:one-byte-guess", [top(l_set(T_ENC, lambda ctx, v: lit(v.b[:1])), "matching-first-byte")]))
        for d_ in (1, 0x80, 0xFF, 0x55):
            RM.append(("resume:tag:one-byte-guess", [top(l_set(T_ENC, lambda ctx, v, d_=d_: lit(bytes([v.b[0] ^ d_]))), f"other^{d_:02x}")]))
        RM.append(("resume:tag:random", [top(l_set(T_ENC, const_v(bytes(range(16)))), "rnd")]))
        for mv in (b"\x05", b"\x00", b"\x02", b"", b"\x06\x00", b"\x00\x06", b"\x06\x01"):
            RM.append(("resume:method:value", [top(l_set(T_METHOD, const_v(mv)), "method=" + mv.hex())]))
        for t, nm in ((T_METHOD, "method"), (T_SID, "sid"), (T_ENC, "tag"), (T_STATE, "state")):
            RM.append((f"resume:drop:{nm}", [top(l_drop(t), "drop")]))
        RM.append(("resume:sid:empty", [top(l_set(T_SID, const_v(b"")), "empty")]))
        RM.append(("resume:sid:other", [top(l_set(T_SID, const_v(b"\x07" * 8)), "other")]))
        RM.append(("resume:add-error", [top(l_add(-1, T_ERROR, b"\x02"), "err2")]))
        RM.append(("resume:add-error:nostate", [top(l_drop(T_STATE), "nostate"), top(l_add(-1, T_ERROR, b"\x02"), "err2")]))
        RM.append(("resume:state:value", [top(l_set(T_STATE, const_v(b"\x04")), "state=04")]))
        RM.append(("resume:reorder", [top(l_perm((3, 2, 1, 0)), "rev")]))
        for fam, ops in RM:
            S.append(Scn(fam, tr, resume=RS, m2=ops, detail="+".join(o[2] for o in ops)))
        if tr != "coap" or full:
            for i in range(3 + 3 + 10 + 18):
                for bit in (range(8) if (tr == "ble" or full) else (0, 5)):
                    S.append(Scn("resume:raw:flipbit", tr, resume=RS, m2=[raw(r_flipbit(i, bit), "flip")], detail=f"byte{i}bit{bit}"))
        # a resume reply offered to a controller that holds a derive but sent no resume request
        S.append(Scn("resume:unsolicited-reply", tr, resume=dict(ctrl=(b"", 1)),
                     m2=[top(lambda it, ctx: [(T_STATE, lit(b"\x02")), (T_METHOD, lit(b"\x06")), (T_SID, lit(b"\x09" * 8)),
                                              (T_ENC, res_tag(1, nsid=b"\x09" * 8)(ctx, None))], "forged-resume")]))
    if full:
        # random double mutations
        for _ in range(20000):
            tr = rnd.choice(TRANSPORTS)
            n2 = honest_shape(tr, 0)[0]
            ops = [raw(r_flipbit(rnd.randrange(n2), rnd.randrange(8)), "flip") for _ in range(2)]
            S.append(Scn("m2:raw:flip2", tr, 0, m2=ops, detail=f"rnd{_}"))
    return S


_shape_cache = {}
_honest_shape = honest_shape


def honest_shape(transport, cfg):  # noqa: F811 - memoised
    k = (transport, cfg)
    if k not in _shape_cache:
        _shape_cache[k] = _honest_shape(transport, cfg)
    return _shape_cache[k]


# ------------------------------------------------------------------ BLE: how a pairing reply is cut into GATT payloads
BLE_DELIVERIES = ["single", "fragmented", "siblings-first", "siblings-last"]


class BlePieces:
    """HAP-BLE delivers a long pairing reply in pieces: FragmentData items acknowledged one by one, then FragmentLast;
    items such as State / Error may travel NEXT TO a fragment item of any piece.  `mode`:
      single          the whole reply in one payload
      fragmented      every item inside the fragment stream (two FragmentData pieces + FragmentLast)
      siblings-first  State / Error beside the FIRST (non-final) FragmentData piece, the rest inside the stream
      siblings-last   State / Error beside the FragmentLast piece
    All modes denote the same reply (used only when the reply's item types are distinct)."""

    def __init__(self, respond, mode="single"):
        self.respond, self.mode, self.queue, self.log = respond, mode, [], []

    def pieces(self, reply: bytes):
        items = ref_decode(reply)
        if self.mode == "single" or not items or len({t for t, _ in items}) != len(items) \
                or any(t in (12, 13) for t, _ in items):
            return [reply]
        sib = [(t, v) for t, v in items if t in (T_STATE, T_ERROR)] if self.mode != "fragmented" else []
        rest = ref_encode([(t, v) for t, v in items if (t, v) not in sib])
        a, b = rest[:len(rest) // 3], rest[len(rest) // 3: 2 * len(rest) // 3]
        c = rest[len(a) + len(b):]
        first = ([] if self.mode != "siblings-first" else sib) + [(12, a)]
        last = [(13, c)] + ([] if self.mode != "siblings-last" else sib)
        return [ref_encode(first), ref_encode([(12, b)]), ref_encode(last)]

    def write(self, body: bytes) -> bytes:
        if self.queue and bytes(body) == b"\x0c\x00":        # acknowledgement of a FragmentData piece
            out = self.queue.pop(0)
        else:
            self.queue = self.pieces(self.respond(bytes(body)))
            out = self.queue.pop(0)
        self.log.append(out.hex())
        return out


# ------------------------------------------------------------------ in-memory TCP peer for the IP transport
HTTP_RULES = ["always-200", "400-on-error", "405-on-error", "470-on-error"]


class IpWire:
    """The accessory's end of the TCP connection.  The REAL HTTP layer of HomeKitConnection runs on top of it
    (post_tlv -> post -> request -> protocol.send_bytes, the response parser, the 4xx -> HttpErrorResponse path):
    plaintext pair-verify requests are answered by the reference accessory's reply wrapped in an HTTP response whose
    STATUS follows `rule` (an accessory may signal a rejected exchange with 4xx around the error TLV, as the
    project's own test accessory does); everything else written (encrypted frames) is recorded.  A closed
    transport stays closed."""

    def __init__(self, conn, hub, rule="always-200"):
        self.conn, self.hub, self.rule = conn, hub, rule
        self.frames, self.closed, self.http_log = [], False, []

    def _status(self, reply: bytes) -> int:
        if self.rule == "always-200":
            return 200
        has_err = any(t == T_ERROR for t, _ in (ref_decode(reply) or []))
        return int(self.rule[:3]) if has_err else 200

    def _on(self, data: bytes):
        if self.closed:
            return
        if data.startswith(b"POST /pair-verify"):
            _, _, body = data.partition(b"\r\n\r\n")
            reply = self.hub["peer"].respond(body)
            status = self._status(reply)
            self.http_log.append(status)
            resp = (b"HTTP/1.1 %d X\r\nContent-Type: application/pairing+tlv8\r\nContent-Length: %d\r\n\r\n"
                    % (status, len(reply))) + reply
            proto = self.conn.protocol
            asyncio.get_running_loop().call_soon(proto.data_received, resp)
        else:
            self.frames.append(data)

    def write(self, data):
        self._on(bytes(data))

    def writelines(self, lines):
        self._on(b"".join(bytes(x) for x in lines))

    def close(self):
        self.closed = True

    def write_eof(self):
        pass

    def is_closing(self):
        return self.closed

    def set_protocol(self, p):
        pass

    def get_extra_info(self, *a, **k):
        return None


def ip_base_connect(ipc, hub, rule_of):
    async def fake_base_connect(this):
        this.transport = IpWire(this, hub, rule_of())
        this.protocol = ipc.InsecureHomeKitProtocol(this)
        this.protocol.connection_made(this.transport)
        this.connected_host = "127.0.0.1"
        this.host_header = "Host: 127.0.0.1"
    return fake_base_connect


# ------------------------------------------------------------------ real transport glue
async def glue_ip(s: Scn, peer, rule="always-200"):
    """SecureHomeKitConnection._connect_once over an in-memory TCP peer (real HTTP layer); keys checked functionally."""
    import aiohomekit.controller.ip.connection as ipc
    hub = dict(peer=peer)
    conn = ipc.SecureHomeKitConnection(None, dict(peer.pd, AccessoryIP="127.0.0.1", AccessoryPort=1))
    orig = ipc.HomeKitConnection._connect_once
    ipc.HomeKitConnection._connect_once = ip_base_connect(ipc, hub, lambda: rule)
    try:
        with fixed_x25519(peer.U.xsk(CTRL_EPH)):
            try:
                await asyncio.wait_for(conn._connect_once(), 5)
            except HarnessError:
                raise
            except Exception as e:  # noqa: BLE001
                return "fail", None, type(e).__name__
    finally:
        ipc.HomeKitConnection._connect_once = orig
    want = R.session_keys(peer.acc.secret, "ip") if peer.acc.secret else None
    ok = await _ip_functional(conn, conn.transport.frames, want) if (want and conn.transport) else False
    return "done", ok, None


async def _ip_functional(conn, frames, want):
    """functional key check: a request frame must open under the accessory's c2a key, and a
    response sealed under its a2c key must be accepted"""
    frames.clear()
    task = asyncio.ensure_future(conn.protocol.send_bytes(b"GET /x HTTP/1.1\r\n\r\n"))
    await asyncio.sleep(0)
    await asyncio.sleep(0)
    ok = False
    if want and frames:
        f = b"".join(frames)
        ln = int.from_bytes(f[:2], "little")
        pt = R.aead_open(want["c2a"], bytes(4) + (0).to_bytes(8, "little"), f[:2], f[2:2 + ln + 16])
        ok = pt == b"GET /x HTTP/1.1\r\n\r\n"
        if ok:
            body = b"HTTP/1.1 200 OK\r\nContent-Length: 2\r\n\r\nok"
            lb = len(body).to_bytes(2, "little")
            try:
                conn.protocol.data_received(lb + R.aead_seal(want["a2c"], bytes(4) + (0).to_bytes(8, "little"), lb, body))
                resp = await asyncio.wait_for(task, 0.5)
                ok = getattr(resp, "code", None) == 200
            except Exception:  # noqa: BLE001
                ok = False
    if not task.done():
        task.cancel()
        with contextlib.suppress(BaseException):
            await task
    return ok


async def glue_coap(s: Scn, peer):
    import aiohomekit.controller.coap.connection as cc

    class Resp:
        def __init__(self, payload):
            self.payload = payload

    class Req:
        def __init__(self, payload):
            async def r():
                return Resp(payload)
            self.response = r()

    class FakeCtx:
        def request(self, message):
            return Req(peer.respond(bytes(message.payload)))

        async def shutdown(self):
            pass

    class FakeContext:
        @staticmethod
        async def create_server_context(root, bind=None):
            return FakeCtx()

        @staticmethod
        async def create_client_context():
            return FakeCtx()

    conn = cc.CoAPHomeKitConnection(None, "::1", 5683)
    orig = cc.Context
    cc.Context = FakeContext
    try:
        with fixed_x25519(peer.U.xsk(CTRL_EPH)):
            try:
                await conn.do_pair_verify(peer.pd)
            except HarnessError:
                raise
            except Exception as e:  # noqa: BLE001
                return "fail", None, type(e).__name__
    finally:
        cc.Context = orig
    want = R.session_keys(peer.acc.secret, "coap") if peer.acc.secret else None
    ok = False
    if want:
        n0 = bytes(4) + (0).to_bytes(8, "little")
        try:
            ok = (R.aead_open(want["c2a"], n0, b"", conn.enc_ctx.encrypt(b"ping")) == b"ping"
                  and conn.enc_ctx.decrypt(R.aead_seal(want["a2c"], n0, b"", b"pong")) == b"pong"
                  and conn.enc_ctx.decrypt_event(R.aead_seal(want["evt"], n0, b"", b"evt")) == b"evt")
        except Exception:  # noqa: BLE001
            ok = False
    return "done", ok, None


async def glue_ble(s: Scn, peer, delivery="single"):
    import aiohomekit.controller.ble.client as bc
    import aiohomekit.controller.ble.pairing as bp
    rs_ctrl = peer.controller_args()
    link = BlePieces(peer.respond, delivery)

    async def fake_char_write(client, ek, dk, handle, iid, body):
        return link.write(bytes(body))

    class FakeClient:
        address = "00:00"

        async def get_characteristic(self, *a, **k):
            return object()

        async def get_characteristic_iid(self, *a, **k):
            return 1

    p = bp.BlePairing.__new__(bp.BlePairing)
    p._ble_request_lock = asyncio.Lock()
    p.client = FakeClient()
    p.pairing_data = peer.pd
    p._session_id = rs_ctrl[0] if rs_ctrl else None
    p._derive = rs_ctrl[1] if rs_ctrl else None
    p._encryption_key = p._decryption_key = None
    orig = bc.char_write
    bc.char_write = fake_char_write
    try:
        with fixed_x25519(peer.U.xsk(CTRL_EPH)):
            try:
                await p._async_pair_verify()
            except HarnessError:
                raise
            except Exception as e:  # noqa: BLE001
                return "fail", None, type(e).__name__
    finally:
        bc.char_write = orig
    want = R.session_keys(peer.acc.secret, "ble") if peer.acc.secret else None
    ok = False
    if want:
        n0 = bytes(4) + (0).to_bytes(8, "little")
        try:
            ok = (R.aead_open(want["c2a"], n0, b"", bytes(p._encryption_key.encrypt(b"ping"))) == b"ping"
                  and bytes(p._decryption_key.decrypt(R.aead_seal(want["a2c"], n0, b"", b"pong"))) == b"pong")
        except Exception:  # noqa: BLE001
            ok = False
    return "done", ok, None


# ------------------------------------------------------------------ sequences of sessions on ONE live connection object
N0 = bytes(4) + (0).to_bytes(8, "little")


def _transcript(peer, ended=None):
    sec = peer.acc.secret
    return dict(m1=peer.m1.hex() if peer.m1 else None, m2=peer.m2.hex() if peer.m2 else None,
                m3=peer.m3.hex() if peer.m3 else None, m4=peer.m4.hex() if peer.m4 else None,
                accessory_state=peer.acc.state,
                accessory_keys={k: v.hex() for k, v in R.session_keys(sec, peer.s.transport).items()} if sec else None,
                session_then_ended_by=ended)


async def coap_sequence(mode):
    """One CoAPHomeKitConnection object: pair-verify, the session ends the way `mode` says, pair-verify again.
    After EVERY successful verify all three keys (read, write, event) must be this session's and the previous
    session's keys must be dead."""
    import aiohomekit.controller.coap.connection as cc
    from aiocoap.error import NetworkError
    from aiocoap.numbers.codes import Code
    hub = dict(peer=None, fail=None)
    loop = asyncio.get_running_loop()

    class Resp:
        def __init__(self, payload, code=Code.CHANGED):
            self.payload, self.code = payload, code

    class Req:
        def __init__(self, resp):
            self.response = loop.create_future()
            if resp is not None:
                self.response.set_result(resp)

    class FakeCtx:
        def request(self, message):
            f = hub["fail"]
            if f == "network-error":
                raise NetworkError("unreachable")
            if f == "timeout":
                return Req(None)
            if f == "not-found":
                return Req(Resp(b"", Code.NOT_FOUND))
            if f == "garbage-response":
                return Req(Resp(bytes(range(40))))
            return Req(Resp(hub["peer"].respond(bytes(message.payload))))

        async def shutdown(self):
            pass

    class FakeContext:
        @staticmethod
        async def create_server_context(root, bind=None):
            return FakeCtx()

        @staticmethod
        async def create_client_context():
            return FakeCtx()

    conn = cc.CoAPHomeKitConnection(None, "::1", 5683)
    saved = cc.Context
    cc.Context = FakeContext
    sessions, problems = [], []
    old = None
    try:
        plan = [("honest", {}, mode)]
        if mode == "failed-verify-between":
            plan = [("honest", {}, "network-error"), ("wrong-ltsk", dict(ltsk=OTHER_LTSK), None)]
        plan.append(("honest", {}, None))
        for k, (label, accd, end) in enumerate(plan):
            peer = Peer(Scn("session-sequence", "coap", 0, acc=accd, honest=not accd))
            hub["peer"], hub["fail"] = peer, None
            exc = None
            try:
                await conn.do_pair_verify(peer.pd)
            except Exception as e:  # noqa: BLE001
                exc = type(e).__name__
            t = _transcript(peer, end)
            t.update(label=label, verify_exception=exc)
            sessions.append(t)
            if accd:
                if exc is None:
                    problems.append(f"session {k}: verify against a wrong-LTSK accessory succeeded")
                continue
            if exc is not None or peer.acc.secret is None:
                problems.append(f"session {k}: honest pair-verify on the live connection failed ({exc})")
                break
            want = R.session_keys(peer.acc.secret, "coap")
            ec = conn.enc_ctx
            checks = {}
            if old is not None:
                try:
                    ec.decrypt_event(R.aead_seal(old["evt"], N0, b"", b"stale"))
                    checks["stale_event_key_accepted"] = True
                    problems.append(f"session {k}: an event sealed under the PREVIOUS session's event key is accepted")
                except Exception:  # noqa: BLE001
                    checks["stale_event_key_accepted"] = False
            for name, fn in (("event", lambda: ec.decrypt_event(R.aead_seal(want["evt"], N0, b"", b"evt")) == b"evt"),
                             ("write", lambda: R.aead_open(want["c2a"], N0, b"", ec.encrypt(b"ping")) == b"ping"),
                             ("read", lambda: ec.decrypt(R.aead_seal(want["a2c"], N0, b"", b"pong")) == b"pong")):
                try:
                    okk = bool(fn())
                except Exception:  # noqa: BLE001
                    okk = False
                checks[name + "_key_is_this_sessions"] = okk
                if not okk:
                    problems.append(f"session {k}: the controller's {name} key is not the one derived from this exchange")
            t["checks"] = checks
            old = want
            # ---- the session ends
            if end in ("network-error", "timeout", "not-found", "garbage-response"):
                hub["fail"] = end
                try:
                    await conn.enc_ctx.post_bytes(b"\x00\x01\x02", timeout=0.02)
                except Exception as e:  # noqa: BLE001
                    t["end_exception"] = type(e).__name__
                hub["fail"] = None
            elif end == "reconnect-soon":
                await conn.reconnect_soon()
    finally:
        cc.Context = saved
    return sessions, problems


async def ip_sequence(mode):
    """One SecureHomeKitConnection object, _connect_once twice (as the reconnect loop does), over the in-memory
    TCP peer: the real HTTP layer runs, error replies come with a 4xx status."""
    import aiohomekit.controller.ip.connection as ipc
    hub = dict(peer=None)
    rule = "470-on-error" if mode == "rejected-with-4xx-between" else "always-200"
    peer0 = Peer(Scn("session-sequence", "ip", 0, honest=True))
    conn = ipc.SecureHomeKitConnection(None, dict(peer0.pd, AccessoryIP="127.0.0.1", AccessoryPort=1))
    orig = ipc.HomeKitConnection._connect_once
    ipc.HomeKitConnection._connect_once = ip_base_connect(ipc, hub, lambda: rule)
    sessions, problems = [], []
    try:
        mid = {"failed-verify-between": [("wrong-ltsk", dict(ltsk=OTHER_LTSK))],
               "rejected-with-4xx-between": [("accessory-rejects-m3", dict(ctrl_ltsk=OTHER_LTSK))]}.get(mode, [])
        plan = [("honest", {})] + mid + [("honest", {})]
        for k, (label, accd) in enumerate(plan):
            peer = Peer(Scn("session-sequence", "ip", 0, acc=accd, honest=not accd))
            hub["peer"] = peer
            exc = None
            try:
                await asyncio.wait_for(conn._connect_once(), 5)
            except Exception as e:  # noqa: BLE001
                exc = type(e).__name__
            t = _transcript(peer, "reconnect")
            t["http_status_of_replies"] = list(conn.transport.http_log) if conn.transport else None
            t.update(label=label, verify_exception=exc)
            sessions.append(t)
            if accd:
                if exc is None:
                    problems.append(f"session {k}: pair-verify against an accessory that {label} succeeded "
                                    f"(is_secure={conn.is_secure})")
                continue
            if exc is not None or peer.acc.secret is None:
                problems.append(f"session {k}: honest pair-verify on the live connection failed ({exc})")
                break
            okk = await _ip_functional(conn, conn.transport.frames, R.session_keys(peer.acc.secret, "ip"))
            t["checks"] = dict(read_and_write_keys_are_this_sessions=okk)
            if not okk:
                problems.append(f"session {k}: the installed read/write keys are not the ones derived from this exchange")
    finally:
        ipc.HomeKitConnection._connect_once = orig
    return sessions, problems


async def ble_sequence(mode):
    """One BlePairing object, _async_pair_verify repeatedly: the second verify offers a resume of the first."""
    import aiohomekit.controller.ble.client as bc
    import aiohomekit.controller.ble.pairing as bp
    hub = dict(peer=None)

    link = BlePieces(lambda b: hub["peer"].respond(b), "siblings-first" if mode == "rejected-in-pieces-between" else "fragmented")

    async def fake_char_write(client, ek, dk, handle, iid, body):
        return link.write(bytes(body))

    class FakeClient:
        address = "00:00"

        async def get_characteristic(self, *a, **k):
            return object()

        async def get_characteristic_iid(self, *a, **k):
            return 1

    peer0 = Peer(Scn("session-sequence", "ble", 0, honest=True))
    p = bp.BlePairing.__new__(bp.BlePairing)
    p._ble_request_lock = asyncio.Lock()
    p.client = FakeClient()
    p.pairing_data = peer0.pd
    p._session_id = p._derive = p._encryption_key = p._decryption_key = None
    orig = bc.char_write
    bc.char_write = fake_char_write
    sessions, problems = [], []
    last = old = None
    try:
        plan = [("honest", {}, False)]
        if mode == "failed-verify-between":
            plan.append(("wrong-ltsk", dict(ltsk=OTHER_LTSK), False))
        if mode == "rejected-in-pieces-between":
            plan.append(("accessory-rejects-m3", dict(ctrl_ltsk=OTHER_LTSK), False))
        plan.append(("honest", {}, mode != "accessory-forgot"))
        plan.append(("honest", {}, True))
        for k, (label, accd, remembers) in enumerate(plan):
            live = None
            if remembers and last is not None:
                live = (last.acc.sid, last.acc.secret, bytes([0x40 + k]) * 8)
            peer = Peer(Scn("session-sequence", "ble", 0, acc=accd, honest=not accd), live_session=live)
            hub["peer"] = peer
            exc = None
            try:
                await p._async_pair_verify()
            except Exception as e:  # noqa: BLE001
                exc = type(e).__name__
            t = _transcript(peer, "disconnect")
            t.update(label=label, verify_exception=exc, accessory_remembers_previous_session=bool(live))
            sessions.append(t)
            if accd:
                if exc is None:
                    problems.append(f"session {k}: verify against a wrong-LTSK accessory succeeded")
                continue
            if exc is not None or peer.acc.secret is None:
                problems.append(f"session {k}: honest pair-verify on the live pairing object failed ({exc})")
                break
            if live and peer.acc.state != "resumed":
                problems.append(f"session {k}: the controller did not offer a valid resume of the previous session")
            want = R.session_keys(peer.acc.secret, "ble")
            checks = {}
            if old is not None:
                try:
                    p._decryption_key.decrypt(R.aead_seal(old["a2c"], N0, b"", b"stale"))
                    checks["stale_read_key_accepted"] = True
                    problems.append(f"session {k}: data sealed under the PREVIOUS session's key is accepted")
                except Exception:  # noqa: BLE001
                    checks["stale_read_key_accepted"] = False
            try:
                okk = (R.aead_open(want["c2a"], N0, b"", bytes(p._encryption_key.encrypt(b"ping"))) == b"ping"
                       and bytes(p._decryption_key.decrypt(R.aead_seal(want["a2c"], N0, b"", b"pong"))) == b"pong")
            except Exception:  # noqa: BLE001
                okk = False
            checks["read_and_write_keys_are_this_sessions"] = okk
            if not okk:
                problems.append(f"session {k}: the installed read/write keys are not the ones derived from this exchange")
            t["checks"] = checks
            last, old = peer, want
    finally:
        bc.char_write = orig
    return sessions, problems


# ------------------------------------------------------------------ random HISTORIES vs the history machine (VerifyHist.v)
def _nonce(n):
    return bytes(4) + n.to_bytes(8, "little")


def watch_inflight(peer, live_now):
    """sample what the object REPORTS at every request the peer receives, i.e. while the attempt is in flight
    (M1 sent / M3 sent, the replies outstanding): Model/VerifyConn.g_inflight"""
    peer.inflight = []
    orig = peer.respond

    def respond(request, expected=None):
        try:
            peer.inflight.append(bool(live_now()))
        except Exception as e:  # noqa: BLE001
            peer.inflight.append("error:" + type(e).__name__)
        return orig(request, expected)
    peer.respond = respond


def inflight_of(peer):
    """None when the peer was never asked, else: did the object report a session at any of those moments"""
    fl = getattr(peer, "inflight", None)
    if not fl:
        return None
    return any(x is True or isinstance(x, str) for x in fl)


class LiveBase:
    """one live connection / pairing object of the real code + the harness's view of the link"""
    transport = "?"

    def __init__(self, U=None):
        self.U = U
        self.hub = dict(peer=None, fail=None)
        self.n_send = self.n_recv = self.n_evt = 0

    def fresh_counters(self):
        self.n_send = self.n_recv = self.n_evt = 0

    def which(self, ct, aad, sessions, n):
        """index of the session whose c2a key opens what the controller just encrypted (the library's own
        resynchronisation heuristics may have moved its counters: a small window is searched and adopted)"""
        for m in [n] + [x for x in range(0, 24) if x != n]:
            for j, ks in sessions.items():
                if R.aead_open(ks["c2a"], _nonce(m), aad, ct) is not None:
                    self.n_send = m
                    return j
        return "unknown"

    def feed(self, fn, key, n):
        """fn(sealed) with the peer's counter searched in a small window; returns the counter that worked or None"""
        for m in [n] + [x for x in range(0, 24) if x != n]:
            try:
                if fn(R.aead_seal(key, _nonce(m), b"", b"pong")) == b"pong":
                    return m
            except Exception:  # noqa: BLE001
                pass
        return None


class LiveCoap(LiveBase):
    transport = "coap"

    async def __aenter__(self):
        import aiohomekit.controller.coap.connection as cc
        from aiocoap.error import NetworkError
        from aiocoap.numbers.codes import Code
        hub, loop = self.hub, asyncio.get_running_loop()

        class Resp:
            def __init__(self, payload, code=Code.CHANGED):
                self.payload, self.code = payload, code

        class Req:
            def __init__(self, resp):
                self.response = loop.create_future()
                if resp is not None:
                    self.response.set_result(resp)

        class FakeCtx:
            def request(self, message):
                f = hub["fail"]
                if f == "network-error":
                    raise NetworkError("unreachable")
                if f == "timeout":
                    return Req(None)
                if f == "not-found":
                    return Req(Resp(b"", Code.NOT_FOUND))
                if f == "garbage-response":
                    return Req(Resp(bytes(range(40))))
                return Req(Resp(hub["peer"].respond(bytes(message.payload))))

            async def shutdown(self):
                pass

        class FakeContext:
            @staticmethod
            async def create_server_context(root, bind=None):
                return FakeCtx()

            @staticmethod
            async def create_client_context():
                return FakeCtx()
        self.cc, self.saved = cc, cc.Context
        cc.Context = FakeContext
        self.conn = cc.CoAPHomeKitConnection(None, "::1", 5683)
        return self

    async def __aexit__(self, *a):
        self.cc.Context = self.saved

    def live_now(self):
        return self.conn.is_connected

    async def verify(self, peer):
        self.hub["peer"], self.hub["fail"] = peer, None
        try:
            await self.conn.do_pair_verify(peer.pd)
        except Exception as e:  # noqa: BLE001
            return type(e).__name__
        self.fresh_counters()
        return None

    async def drop(self, mode):
        if self.conn.enc_ctx is None or self.conn.enc_ctx.coap_ctx is None:
            return "not-live"
        self.hub["fail"] = mode
        try:
            await self.conn.enc_ctx.post_bytes(b"\x00\x01\x02", timeout=0.02)
        except Exception as e:  # noqa: BLE001
            return type(e).__name__
        finally:
            self.hub["fail"] = None
            self.n_send += 1

    async def reset(self):
        if self.conn.enc_ctx is not None and self.conn.enc_ctx.coap_ctx is None:
            return "skipped"        # reconnect_soon would crash on the missing coap_ctx: not part of this machine
        await self.conn.reconnect_soon()

    async def probe(self, sessions):
        live = bool(self.conn.is_connected)
        ec = self.conn.enc_ctx
        if ec is None:
            return live, None, None, []
        notes = []
        j = self.which(ec.encrypt(b"probe"), b"", sessions, self.n_send)
        self.n_send += 1
        if j != "unknown":
            m = self.feed(ec.decrypt, sessions[j]["a2c"], self.n_recv)
            if m is not None:
                self.n_recv = m + 1
            else:
                notes.append(f"write key is session {j}'s but the read key is not")
            m = self.feed(ec.decrypt_event, sessions[j]["evt"], self.n_evt)
            if m is not None:
                self.n_evt = m + 1
            else:
                notes.append(f"write key is session {j}'s but the event key is not")
        return live, j, None, notes


class LiveIp(LiveBase):
    transport = "ip"

    async def __aenter__(self):
        import aiohomekit.controller.ip.connection as ipc
        self.rule = "always-200"
        peer0 = Peer(Scn("history", "ip", 0, honest=True), self.U, 98)
        self.ipc, self.orig = ipc, ipc.HomeKitConnection._connect_once
        ipc.HomeKitConnection._connect_once = ip_base_connect(ipc, self.hub, lambda: self.rule)
        self.conn = ipc.SecureHomeKitConnection(None, dict(peer0.pd, AccessoryIP="127.0.0.1", AccessoryPort=1))
        self.conn._start_connector = lambda: None      # the reconnect loop is C10's; here the harness decides
        return self

    async def __aexit__(self, *a):
        self.ipc.HomeKitConnection._connect_once = self.orig

    def live_now(self):
        return self.conn.is_connected

    async def verify(self, peer, rule="always-200"):
        self.hub["peer"], self.rule = peer, rule
        try:
            await asyncio.wait_for(self.conn._connect_once(), 5)
        except Exception as e:  # noqa: BLE001
            # what _reconnect does with a failed attempt (repaired behaviour: no transport is kept)
            self.conn._drop_transport()
            return type(e).__name__
        self.fresh_counters()
        return None

    async def drop(self, mode):
        if self.conn.protocol is not None:
            self.conn._connection_lost(None, self.conn.protocol)

    async def reset(self):
        await self.drop(None)

    async def probe(self, sessions):
        live = bool(self.conn.is_connected)
        if not live or self.conn.protocol is None:
            return live, None, None, []
        tr_ = self.conn.transport
        tr_.frames.clear()
        task = asyncio.ensure_future(self.conn.protocol.send_bytes(b"GET /x HTTP/1.1\r\n\r\n"))
        await asyncio.sleep(0)
        await asyncio.sleep(0)
        f = b"".join(tr_.frames)
        notes, j = [], "unknown"
        if len(f) > 18:
            ln = int.from_bytes(f[:2], "little")
            j = self.which(f[2:2 + ln + 16], f[:2], sessions, self.n_send)
        self.n_send += 1
        if j != "unknown":
            body = b"HTTP/1.1 200 OK\r\nContent-Length: 2\r\n\r\nok"
            lb = len(body).to_bytes(2, "little")
            try:
                self.conn.protocol.data_received(lb + R.aead_seal(sessions[j]["a2c"], _nonce(self.n_recv), lb, body))
                resp = await asyncio.wait_for(task, 0.5)
                okr = getattr(resp, "code", None) == 200
            except Exception:  # noqa: BLE001
                okr = False
            if okr:
                self.n_recv += 1
            else:
                notes.append(f"write key is session {j}'s but the read key is not")
        if not task.done():
            task.cancel()
            with contextlib.suppress(BaseException):
                await task
        return live, j, None, notes


class LiveBle(LiveBase):
    transport = "ble"

    async def __aenter__(self):
        import aiohomekit.controller.ble.client as bc
        import aiohomekit.controller.ble.pairing as bp
        hub = self.hub

        self.link = BlePieces(lambda b: hub["peer"].respond(b), "single")

        async def fake_char_write(client, ek, dk, handle, iid, body):
            return self.link.write(bytes(body))

        class FakeClient:
            address = "00:00"
            is_connected = True

            async def get_characteristic(self, *a, **k):
                return object()

            async def get_characteristic_iid(self, *a, **k):
                return 1
        peer0 = Peer(Scn("history", "ble", 0, honest=True), self.U, 98)
        p = bp.BlePairing.__new__(bp.BlePairing)
        p._ble_request_lock = asyncio.Lock()
        p.client = FakeClient()
        p.pairing_data = peer0.pd
        p._session_id = p._derive = p._encryption_key = p._decryption_key = None
        self.p, self.bc, self.orig = p, bc, bc.char_write
        bc.char_write = fake_char_write
        return self

    async def __aexit__(self, *a):
        self.bc.char_write = self.orig

    def live_now(self):
        return self.p._encryption_key

    async def verify(self, peer, delivery="single"):
        self.hub["peer"] = peer
        self.link.mode, self.link.queue = delivery, []
        try:
            await self.p._async_pair_verify()
        except Exception as e:  # noqa: BLE001
            return type(e).__name__
        self.fresh_counters()
        return None

    async def drop(self, mode):
        self.p._async_reset_connection_state()

    async def reset(self):
        await self.drop(None)

    async def probe(self, sessions, sids=None):
        p = self.p
        live = bool(p._encryption_key)
        r = None
        if p._session_id is not None:
            r = "unknown"
            for j, sid in (sids or {}).items():
                if bytes(p._session_id) == sid:
                    r = j
                    break
        if not p._encryption_key:
            return live, None, r, []
        notes = []
        j = self.which(bytes(p._encryption_key.encrypt(b"probe")), b"", sessions, self.n_send)
        self.n_send += 1
        if j != "unknown":
            try:
                okr = bytes(p._decryption_key.decrypt(R.aead_seal(sessions[j]["a2c"], _nonce(self.n_recv), b"", b"pong"))) == b"pong"
            except Exception:  # noqa: BLE001
                okr = False
            if okr:
                self.n_recv += 1
            else:
                notes.append(f"write key is session {j}'s but the read key is not")
        return live, j, r, notes


HIST_EVENTS = dict(
    coap=["honest", "honest", "honest", "wrong-ltsk", "m4-error", "rejected", "replay", "drop", "drop", "reset"],
    ip=["honest", "honest", "honest", "wrong-ltsk", "m4-error", "rejected", "rejected", "replay", "drop", "reset"],
    ble=["honest", "honest", "honest", "honest", "forgot", "wrong-ltsk", "m4-error", "rejected", "replay", "resume-forged",
         "drop", "drop"])
COAP_DROPS = ["network-error", "timeout", "not-found", "garbage-response"]


def gen_histories(tier, rnd):
    n = 25 if tier == "quick" else 300
    out = []
    for tr in TRANSPORTS:
        fixed = [["honest", "drop", "honest", "replay"], ["honest", "wrong-ltsk", "honest"], ["rejected", "honest", "rejected"],
                 ["honest", "honest", "drop", "m4-error", "honest"], ["wrong-ltsk", "drop", "honest", "reset", "honest"]]
        if tr == "ble":
            fixed += [["honest", "drop", "honest", "drop", "honest"], ["honest", "drop", "forgot", "drop", "resume-forged", "drop", "honest"]]
        for h in fixed:
            out.append((tr, h))
        for _ in range(n):
            out.append((tr, [rnd.choice(HIST_EVENTS[tr]) for _ in range(rnd.randrange(3, 8))]))
    return out


def py_spec(tr, log):
    """the latest-success rule, written independently of the Coq machine: (live, keys index, resume index)
    after an event log of ('ok', i) | ('fail',) | ('drop',) | ('reset',)"""
    live, keys, res = False, None, None
    out = []
    for i, ev in enumerate(log):
        if ev[0] == "ok":
            live, keys = True, i
            res = i if tr == "ble" else None
        elif ev[0] == "fail":
            if tr == "ip":
                live, keys = False, None
            elif tr == "coap" and live:
                live, keys = False, None
        elif ev[0] == "drop" or (ev[0] == "reset" and tr != "coap"):
            live = False
            if tr != "coap":
                keys = None
        elif ev[0] == "reset":
            live, keys = False, None
        out.append((live, keys, res))
    return out


async def run_history(tr, kinds, rnd):
    """one random history on one live object; returns (impl states, model request, log, transcript)"""
    U = Universe("c01-hist")
    live_cls = dict(coap=LiveCoap, ip=LiveIp, ble=LiveBle)[tr]
    sessions, sids, impl, log, events, script = {}, {}, [], [], [], []
    last_ok = None          # (peer) of the latest successful verify, for the accessory's memory and for replays
    recorded = []           # successful full verifies: (m2 items, m4 items) to replay
    async with live_cls(U) as lv:
        for i, kind in enumerate(kinds):
            entry = dict(event=kind)
            infl = None
            if kind in ("drop", "reset"):
                mode = rnd.choice(COAP_DROPS) if (tr == "coap" and kind == "drop") else None
                r = await (lv.drop(mode) if kind == "drop" else lv.reset())
                if r == "skipped":
                    entry["event"] = kind = "noop"
                    events.append(None)
                    log.append(("noop",))
                else:
                    entry.update(mode=mode, raised=r)
                    events.append("D" if kind == "drop" else "R")
                    log.append((kind,))
            else:
                accd, m2ops, m4ops, live_s = dict(eph=200 + i), [], [], None
                if kind == "wrong-ltsk":
                    accd["ltsk"] = OTHER_LTSK
                if kind == "rejected":                      # an authentic accessory that does not know this controller
                    accd["ctrl_ltsk"] = OTHER_LTSK
                if kind == "m4-error":
                    m4ops = [top(l_add(-1, T_ERROR, b"\x02"), "err2")]
                if kind == "replay":
                    if not recorded:
                        accd["ltsk"] = OTHER_LTSK          # nothing to replay yet: a plain impostor instead
                    else:
                        rm2, rm4 = rnd.choice(recorded)
                        m2ops = [top(lambda items, ctx, rm2=rm2: rm2, "recorded-m2")]
                        m4ops = [top(lambda items, ctx, rm4=rm4: rm4, "recorded-m4")]
                if tr == "ble" and kind in ("honest", "resume-forged", "m4-error", "replay") and last_ok is not None:
                    live_s = (last_ok.acc.sid, last_ok.acc.secret_v, bytes([0x40 + i]) * 8)
                if kind == "resume-forged":
                    def forged(items, ctx, i=i):
                        Uu = ctx.U
                        ns = lit(bytes([0x60 + i]) * 8)
                        tag = Uu.seal(Uu.hkdf(lit(b"not-the-secret"), ctx.C + ns, lit(R.L_RES_RESP)), lit(R.nonce12(b"PR-Msg02")),
                                      lit(b""), lit(b""))
                        return [(T_STATE, lit(b"\x02")), (T_METHOD, lit(b"\x06")), (T_SID, ns), (T_ENC, tag)]
                    m2ops = [top(forged, "forged-resume")]
                peer = Peer(Scn("history", tr, 0, acc=accd, m2=m2ops, m4=m4ops), U, 100 + i, live_session=live_s)
                watch_inflight(peer, lv.live_now)
                if tr == "ble":
                    dl = rnd.choice(BLE_DELIVERIES)
                    exc = await lv.verify(peer, dl)
                    entry.update(gatt_delivery=dl, gatt_payloads=lv.link.log[-6:])
                elif tr == "ip":
                    rule = rnd.choice(HTTP_RULES)
                    exc = await lv.verify(peer, rule)
                    entry.update(http_rule=rule, http_status_of_replies=list(lv.conn.transport.http_log) if lv.conn.transport else None)
                else:
                    exc = await lv.verify(peer)
                entry.update(exception=exc, reported_live_while_in_flight=list(peer.inflight), **_transcript(peer))
                infl = inflight_of(peer)
                ok = exc is None
                if ok and peer.acc.secret is not None:
                    sessions[i] = R.session_keys(peer.acc.secret, tr)
                    sids[i] = peer.acc.sid
                    last_ok = peer
                    if peer.acc.state == "verify" and not m2ops:
                        recorded.append((peer.m2_items, peer.m4_items))
                elif ok:
                    entry["note"] = "verify succeeded although the accessory holds no session secret"
                    sessions[i] = dict(c2a=bytes(32), a2c=bytes(32), evt=bytes(32))
                log.append(("ok", i) if ok else ("fail",))
                if peer.sym_m2 is None or peer.reused_name is not None:
                    events.append("?")
                else:
                    m4t = peer.sym_m4 if (peer.m4 is not None and peer.sym_m4 not in (None, "honest")) else \
                        (reply_term(peer.m4_items) if peer.m4_items else ".")
                    events.append(f"V:{100 + i}:{peer.sym_m2}:{m4t}")
                pd = peer
            if kind == "noop":
                impl.append((impl[-1][:4] if impl else (False, None, None, [])) + (None,))
            elif tr == "ble":
                impl.append(tuple(await lv.probe(sessions, sids)) + (infl if kind not in ("drop", "reset") else None,))
            else:
                impl.append(tuple(await lv.probe(sessions)) + (infl if kind not in ("drop", "reset") else None,))
            entry["observed"] = dict(live=impl[-1][0], keys_of_session=impl[-1][1], resumable_session=impl[-1][2],
                                     notes=impl[-1][3], live_while_in_flight=impl[-1][4])
            script.append(entry)
    p0 = Peer(Scn("history", tr, 0, honest=True), U, 99)
    hx = lambda x: x.hex() if x else "-"  # noqa: E731
    req = None
    if "?" not in events:
        req = " ".join(["hist", tr, hx(p0.acc_id), msg(p0.stored_ltpk), hx(p0.ios_id), str(p0.record["ios_ltsk"])]
                       + [e for e in events if e is not None])
    return impl, req, log, script


def history_pass(tier, rnd):
    out = []

    async def main():
        for tr, kinds in gen_histories(tier, rnd):
            out.append((tr, kinds) + await run_history(tr, kinds, rnd))
    import logging
    lg = logging.getLogger("aiohomekit.controller.coap.connection")
    lvl = lg.level
    lg.setLevel(logging.CRITICAL + 1)
    try:
        asyncio.run(main())
    finally:
        lg.setLevel(lvl)
    return out


# ------------------------------------------------------------------ fifth pass: the connection life cycle through the
# real ENTRY POINTS (Model/VerifyConn.v): which link the keys were proved on, whether pair-verify runs, every way a link ends
LINK_CONNECTS = ["honest", "honest", "honest", "forgot", "wrong-ltsk", "m4-error", "rejected"]
LINK_ENDS = dict(
    ble=["callback", "close", "close-no-callback", "close-raises-eof", "close-raises-bleak", "close-after-operation"],
    ip=["lost", "close"],
    coap=COAP_DROPS + ["reset"])


class IpWire2(IpWire):
    """IpWire with the selector-transport contract for close(): connection_lost is delivered (once, via call_soon) to
    the protocol attached at that time"""

    def __init__(self, conn, hub, rule):
        super().__init__(conn, hub, rule)
        self.proto, self.lost = None, False

    def set_protocol(self, p):
        self.proto = p

    def _deliver(self):
        if not self.lost and self.proto is not None:
            self.lost = True
            self.proto.connection_lost(None)

    def close(self):
        if not self.closed:
            self.closed = True
            asyncio.get_running_loop().call_soon(self._deliver)

    def peer_reset(self):
        """the accessory / the network ends the TCP connection"""
        self.closed = True
        self._deliver()


class LinkIp(LiveIp):
    """ONE SecureHomeKitConnection driven through ensure_connection() / reconnect_soon() and the REAL _reconnect loop,
    with an owner whose post-connect set-up can fail"""

    async def __aenter__(self):
        import logging
        import aiohomekit.controller.ip.connection as ipc
        from aiohomekit.exceptions import AccessoryDisconnectedError
        hub = self.hub
        hub.update(refuse=False, setup_fail=False)
        self.rule = "always-200"
        peer0 = Peer(Scn("link", "ip", 0, honest=True), self.U, 98)

        class Owner:
            name, description = "c01-link", None
            calls = []

            async def connection_made(self, secure):
                self.calls.append(secure)
                if secure and hub["setup_fail"]:
                    hub["setup_fail"] = False
                    raise AccessoryDisconnectedError("post-connect set-up failed (scripted)")

            def event_received(self, event):
                pass

        async def fake_base_connect(this):
            if hub["refuse"]:
                raise ConnectionError("connection refused (scripted)")
            this.transport = IpWire2(this, hub, self.rule)
            this.protocol = ipc.InsecureHomeKitProtocol(this)
            this.transport.set_protocol(this.protocol)
            this.protocol.connection_made(this.transport)
            this.connected_host = "127.0.0.1"
            this.host_header = "Host: 127.0.0.1"
            if this.owner:
                await this.owner.connection_made(False)
        self.ipc, self.orig = ipc, ipc.HomeKitConnection._connect_once
        ipc.HomeKitConnection._connect_once = fake_base_connect
        self.lg = logging.getLogger("aiohomekit")
        self.lvl = self.lg.level
        self.lg.setLevel(logging.CRITICAL + 1)      # the loop logs every (expected) failed attempt with a traceback
        self.conn = ipc.SecureHomeKitConnection(Owner(), dict(peer0.pd, AccessoryIP="127.0.0.1", AccessoryPort=1))
        self.waiters = []
        return self

    async def __aexit__(self, *a):
        with contextlib.suppress(Exception):
            await asyncio.wait_for(self.conn.close(), 5)
        for w in self.waiters:
            w.cancel()
        await asyncio.gather(*self.waiters, return_exceptions=True)
        self.ipc.HomeKitConnection._connect_once = self.orig
        self.lg.setLevel(self.lvl)

    def _backing_off(self):
        f = self.conn._reconnect_future
        return f is not None and not f.done()

    async def settle(self):
        for _ in range(5000):
            c = self.conn._connector
            if c is None or c.done() or self._backing_off():
                return
            await asyncio.sleep(0)
        raise HarnessError("IP connector neither finished nor backed off")

    async def connect(self, peer, rule="always-200", setup_fail=False):
        hub, conn = self.hub, self.conn
        hub.update(peer=peer, refuse=False, setup_fail=setup_fail)
        self.rule = rule
        if self._backing_off():
            conn.reconnect_soon()              # what a zeroconf sighting does: the next attempt starts now
            await asyncio.sleep(0)
        else:
            w = asyncio.ensure_future(conn.ensure_connection())
            self.waiters.append(w)
            await asyncio.sleep(0)
        await self.settle()
        hub.update(refuse=True, setup_fail=False)      # attempts the loop makes on its own later do not reach a peer
        if peer.n and conn.is_connected:
            self.fresh_counters()
        err = conn.last_connector_error
        return type(err).__name__ if err is not None else None

    async def end(self, mode):
        conn = self.conn
        self.hub["refuse"] = True
        if mode == "close":
            await asyncio.wait_for(conn.close(), 5)
        elif conn.transport is not None:
            conn.transport.peer_reset()
        for _ in range(3):
            await asyncio.sleep(0)
        await self.settle()


class LinkCoap(LiveCoap):
    """ONE CoAPHomeKitConnection driven through connect() (`if self.is_connected: return`)"""

    async def __aenter__(self):
        await super().__aenter__()

        async def no_info():        # connect()'s get_accessory_info request is outside C01
            return None
        self.conn.get_accessory_info = no_info
        return self

    async def connect(self, peer):
        self.hub["peer"], self.hub["fail"] = peer, None
        try:
            await self.conn.connect(peer.pd)
        except Exception as e:  # noqa: BLE001
            return type(e).__name__
        if peer.n:
            self.fresh_counters()
        return None

    async def end(self, mode):
        if mode == "reset":
            return await self.reset()
        return await self.drop(mode)


class LinkBle(LiveBase):
    """ONE real BlePairing (real constructor) driven through _populate_accessories_and_characteristics (which decides
    whether pair-verify runs), close() / close_after_operation() and the disconnected callback; every new link is a
    new client object handed out by establish_connection"""
    transport = "ble"

    async def __aenter__(self):
        import aiohomekit.controller.ble.client as bc
        import aiohomekit.controller.ble.pairing as bp
        from aiohomekit.characteristic_cache import CharacteristicCacheMemory
        from aiohomekit.controller.ble.controller import BleController
        from aiohomekit.model import Accessories, AccessoriesState, Accessory
        from bleak.exc import BleakError
        hub, me = self.hub, self
        self.link = BlePieces(lambda b: hub["peer"].respond(b), "single")
        self.clients = []

        async def fake_char_write(client, ek, dk, handle, iid, body):
            if client is not me.p.client or not client.is_connected:
                raise HarnessError("pair-verify written to a client that is not the current link")
            return me.link.write(bytes(body))

        class FakeClient:
            def __init__(self, cb):
                self.address, self.is_connected, self.cb, self.disconnect_mode = "00:00", True, cb, "ok"

            async def get_characteristic(self, *a, **k):
                return object()

            async def get_characteristic_iid(self, *a, **k):
                return 1

            async def disconnect(self):
                m = self.disconnect_mode
                if m == "raises-eof":          # dead D-Bus socket: no callback is delivered either
                    raise EOFError("dbus connection died")
                if m == "raises-bleak":
                    raise BleakError("disconnect failed")
                self.is_connected = False
                if m != "no-callback":
                    self.cb(self)

        class FakeDevice:
            address, name = "AA:BB:CC:DD:EE:FF", "c01-link"

        async def fake_establish(device, name, disconnected_callback, **kw):
            c = FakeClient(disconnected_callback)
            me.clients.append(c)
            return c
        peer0 = Peer(Scn("link", "ble", 0, honest=True), self.U, 98)
        pd = dict(peer0.pd, AccessoryAddress="AA:BB:CC:DD:EE:FF", Connection="BLE")
        p = bp.BlePairing(BleController(CharacteristicCacheMemory()), pd, device=FakeDevice())
        accs = Accessories()
        accs.add_accessory(Accessory.create_with_info(1, "c01", "c01", "c01", "0001", "1.0"))
        p._accessories_state = AccessoriesState(accs, 1, None, 1)      # GATT database already known
        p.description = None
        self.p, self.bc, self.bp = p, bc, bp
        self.saved = (bc.char_write, bp.establish_connection)
        bc.char_write, bp.establish_connection = fake_char_write, fake_establish
        return self

    async def __aexit__(self, *a):
        self.bc.char_write, self.bp.establish_connection = self.saved

    def live_now(self):
        return self.p.is_connected

    async def connect(self, peer, delivery="single"):
        self.hub["peer"] = peer
        self.link.mode, self.link.queue = delivery, []
        try:
            await asyncio.wait_for(self.p._populate_accessories_and_characteristics(), 5)
        except HarnessError:
            raise
        except Exception as e:  # noqa: BLE001
            return type(e).__name__
        if peer.n:
            self.fresh_counters()
        return None

    async def end(self, mode):
        p = self.p
        c = p.client
        if mode == "callback":                 # the accessory / the stack drops the link
            if c is not None and c.is_connected:
                c.is_connected = False
                c.cb(c)
            return None
        if c is not None:
            c.disconnect_mode = {"close": "ok", "close-after-operation": "ok", "close-no-callback": "no-callback",
                                 "close-raises-eof": "raises-eof", "close-raises-bleak": "raises-bleak"}[mode]
        try:
            await asyncio.wait_for(p.close_after_operation() if mode == "close-after-operation" else p.close(), 5)
        except Exception as e:  # noqa: BLE001
            return type(e).__name__
        return None

    async def probe(self, sessions, sids=None):
        p = self.p
        live = bool(p.is_connected)
        r = None
        if p._session_id is not None:
            r = "unknown"
            for j, sid in (sids or {}).items():
                if bytes(p._session_id) == sid:
                    r = j
                    break
        if not p._encryption_key:
            return live, None, r, []
        notes = []
        j = self.which(bytes(p._encryption_key.encrypt(b"probe")), b"", sessions, self.n_send)
        self.n_send += 1
        if j != "unknown":
            try:
                okr = bytes(p._decryption_key.decrypt(R.aead_seal(sessions[j]["a2c"], _nonce(self.n_recv), b"", b"pong"))) == b"pong"
            except Exception:  # noqa: BLE001
                okr = False
            if okr:
                self.n_recv += 1
            else:
                notes.append(f"write key is session {j}'s but the read key is not")
        return live, j, r, notes


def gen_link_histories(tier, rnd):
    n = 14 if tier == "quick" else 200
    out = []
    for tr in TRANSPORTS:
        ends = LINK_ENDS[tr]
        fixed = [["honest", "honest", e, "honest", "honest"] for e in ends]                  # every way a link ends, then re-use
        fixed += [["honest", e, "wrong-ltsk", "honest"] for e in ends[:3]]                   # an impostor's link after the end
        fixed += [["wrong-ltsk", "honest", ends[0], "m4-error", ends[-1], "honest"], ["rejected", ends[0], "honest", "honest"]]
        if tr == "ip":
            fixed += [["honest+setup-failed", "wrong-ltsk", "honest"], ["honest", "lost", "honest+setup-failed", "honest"],
                      ["honest+setup-failed", "honest+setup-failed", "m4-error", "honest", "close", "honest"]]
        for h in fixed:
            out.append((tr, h))
        pool = LINK_CONNECTS + ends + ends + (["honest+setup-failed"] * 2 if tr == "ip" else [])
        for _ in range(n):
            out.append((tr, [rnd.choice(pool) for _ in range(rnd.randrange(3, 9))]))
    return out


def py_link_spec(tr, log):
    """independent statement of what C01 demands of the object over a life-cycle history:
    log entries ('connect', would_succeed, setup_fails) | ('end', kind).  Per event:
    (live, session whose keys are installed, resumable session, did pair-verify run, live while in flight)"""
    live, keys, res, out = False, None, None, []
    for i, ev in enumerate(log):
        ran = infl = None
        if ev[0] == "connect":
            ran = (keys is None) if tr == "ble" else (not live)      # a session that is up is not verified again
            if ran:
                infl = False                                         # nothing is reported before the peer has proved itself
                if ev[1]:
                    live, keys = True, i
                    res = i if tr == "ble" else None
                    if ev[2]:                                        # the attempt is dropped by the reconnect loop
                        live, keys = False, None
                elif tr == "ip":
                    live, keys = False, None
        elif tr == "coap" and ev[1] != "reset":
            live = False                                             # the context stays attached, the session is over
        else:
            live, keys = False, None                                 # the link is gone: its keys go with it
        out.append((live, keys, res, ran, infl))
    return out


async def run_link_history(tr, kinds, rnd):
    """one life-cycle history on one live object through its entry points; returns (impl, model request, owner map, log, script)"""
    U = Universe("c01-link")
    live_cls = dict(coap=LinkCoap, ip=LinkIp, ble=LinkBle)[tr]
    sessions, sids, impl, log, script = {}, {}, [], [], []
    tokens, owner, ctok = [], [], []       # model events, harness event owning each, index of the C token per harness event
    last_ok = None
    async with live_cls(U) as lv:
        for i, kind in enumerate(kinds):
            entry = dict(event=kind)
            ran = infl = None
            if kind in LINK_ENDS[tr]:
                r = await lv.end(kind)
                skipped = r == "skipped"    # CoAP reconnect_soon on a context without coap_ctx would crash: not this machine
                entry.update(raised=r)
                tokens.append("R" if (kind == "reset" and not skipped) else "E")
                owner.append(i)
                ctok.append(None)
                log.append(("end", "already-over" if skipped else kind))
            else:
                base, _, sf = kind.partition("+")
                accd, m4ops, live_s = dict(eph=200 + i), [], None
                if base == "wrong-ltsk":
                    accd["ltsk"] = OTHER_LTSK
                if base == "rejected":
                    accd["ctrl_ltsk"] = OTHER_LTSK
                if base == "m4-error":
                    m4ops = [top(l_add(-1, T_ERROR, b"\x02"), "err2")]
                if tr == "ble" and base == "honest" and last_ok is not None:
                    live_s = (last_ok.acc.sid, last_ok.acc.secret_v, bytes([0x40 + i]) * 8)
                peer = Peer(Scn("link", tr, 0, acc=accd, m4=m4ops), U, 100 + i, live_session=live_s)
                watch_inflight(peer, lv.live_now)
                if tr == "ble":
                    dl = rnd.choice(BLE_DELIVERIES)
                    exc = await lv.connect(peer, dl)
                    entry.update(gatt_delivery=dl, links_established=len(lv.clients))
                elif tr == "ip":
                    rule = rnd.choice(HTTP_RULES)
                    exc = await lv.connect(peer, rule, bool(sf))
                    entry.update(http_rule=rule, owner_setup_fails=bool(sf))
                else:
                    exc = await lv.connect(peer)
                ran, infl = peer.n > 0, inflight_of(peer)
                entry.update(exception=exc, pair_verify_ran=ran, reported_live_while_in_flight=list(peer.inflight),
                             **(_transcript(peer) if ran else {}))
                # would this attempt open a session?  judged from the ACCESSORY's side: it resumed, or it accepted the
                # controller's proof and its M4 was delivered unaltered (when nothing ran: by the kind of accessory)
                acc_ok = (peer.acc.secret is not None and not m4ops and
                          (peer.acc.state == "resumed" or peer.m3acc is True)) if ran else base in ("honest", "forgot")
                if ran and acc_ok:
                    sessions[i] = R.session_keys(peer.acc.secret, tr)
                    sids[i] = peer.acc.sid
                    last_ok = peer
                log.append(("connect", bool(acc_ok), bool(sf)))
                ctok.append(len(tokens))
                if not ran:
                    tokens.append("C:0:.:.")
                elif peer.sym_m2 is None or peer.reused_name is not None:
                    tokens.append("?")
                else:
                    m4t = peer.sym_m4 if (peer.m4 is not None and peer.sym_m4 not in (None, "honest")) else \
                        (reply_term(peer.m4_items) if peer.m4_items else ".")
                    tokens.append(f"C:{100 + i}:{peer.sym_m2}:{m4t}")
                owner.append(i)
                if sf and ran:
                    tokens.append("E")      # the reconnect loop drops the attempt whose set-up failed: that link is over
                    owner.append(i)
            pr = await (lv.probe(sessions, sids) if tr == "ble" else lv.probe(sessions))
            impl.append(tuple(pr) + (ran, infl))
            entry["observed"] = dict(live=pr[0], keys_of_session=pr[1], resumable_session=pr[2], notes=pr[3],
                                     pair_verify_ran=ran, live_while_in_flight=infl)
            script.append(entry)
    p0 = Peer(Scn("link", tr, 0, honest=True), U, 99)
    hx = lambda x: x.hex() if x else "-"  # noqa: E731
    req = None
    if "?" not in tokens:
        req = " ".join(["conn", tr, hx(p0.acc_id), msg(p0.stored_ltpk), hx(p0.ios_id), str(p0.record["ios_ltsk"])] + tokens)
    return impl, req, (owner, ctok), log, script


def link_pass(tier, rnd):
    out = []

    async def main():
        for tr, kinds in gen_link_histories(tier, rnd):
            out.append((tr, kinds) + await run_link_history(tr, kinds, rnd))
    import logging
    lg = logging.getLogger("aiohomekit.controller.coap.connection")
    lvl = lg.level
    lg.setLevel(logging.CRITICAL + 1)
    try:
        asyncio.run(main())
    finally:
        lg.setLevel(lvl)
    return out


def judge_link_histories(hs, answers, cov, viol):
    """oracle (py_link_spec) first, then the extracted life-cycle machine (Model/VerifyConn.c_trace)"""
    n_ev = 0
    for tr_, kinds, impl, req, (owner, ctok), log, script in hs:
        n_ev += len(kinds)
        model = next(answers).split(" ") if req else None
        spec = py_link_spec(tr_, log)
        cov.case(f"link|{tr_}|{kinds}", True, transport="link-" + tr_, family="link-history",
                 sample=dict(scenario=f"link:{tr_}", events=kinds, observed=[list(x[:3]) + list(x[4:]) for x in impl], model=model)
                 if len(kinds) == 5 and kinds[0] == kinds[1] == "honest" else None,
                 link_len=len(kinds), **{"link_events": "+".join(sorted(set(kinds)))[:70]})
        for kd in kinds:
            cov.hist["link_event_kind"][f"{tr_}:{kd}"] += 1
        payload = dict(scenario=f"link:{tr_}", transport=tr_, events=kinds, script=script, model=model,
                       how_to_replay="one live object driven through its entry points (BlePairing._populate_accessories_and_"
                                     "characteristics + close()/close_after_operation()/disconnected callback with a fake client "
                                     "whose disconnect() behaves as stated; SecureHomeKitConnection.ensure_connection()/"
                                     "reconnect_soon() over the real _reconnect loop with an owner whose connection_made(True) "
                                     "raises when owner_setup_fails; CoAPHomeKitConnection.connect()): apply the events in order, "
                                     "a connect is answered by a fresh accessory of the stated kind with m2/m4; sample "
                                     "is_connected at every request the accessory receives and after each event, and probe "
                                     "which session's keys are installed (accessory_keys)")
        bad = None
        for k, st_ in enumerate(impl):
            live, keys, res, notes, ran, infl = st_
            sl, sk, sr, sran, sinfl = spec[k]
            if infl:
                bad = (k, "session-reported-in-flight",
                       f"during event {k} ({kinds[k]}), with M1/M3 sent and the peer's replies still outstanding, the object "
                       "already reported an open session (is_connected): the peer of THIS link has proved nothing yet")
                break
            if sran is not None and bool(ran) != sran:
                bad = (k, "pair-verify-skipped" if sran else "pair-verify-repeated",
                       f"event {k} ({kinds[k]}): the entry point {'did not run' if sran else 'ran'} pair-verify; the object "
                       f"{'has no session proved on the current link' if sran else 'already has a live session'} "
                       f"(observed live={live}, keys of session {keys})")
                break
            if notes:
                bad = (k, "mixed-keys", "; ".join(notes))
                break
            if (bool(live), keys, res if tr_ == "ble" else None) != (sl, sk, sr):
                bad = (k, "stale-or-missing-keys",
                       f"after event {k} ({kinds[k]}) the object is live={live} with the keys of session {keys} (resumable: "
                       f"{res}); C01 over links gives live={sl}, session {sk} (resumable: {sr}): keys are proved per link and "
                       "go with it, however the link ended")
                break
        if bad and bad[1] == "stale-or-missing-keys" and kinds[bad[0]].endswith("+setup-failed") and impl[bad[0]][:2] == (True, bad[0]):
            # the attempt whose set-up failed was NOT dropped: its session was proved on its own link, so C01 is not
            # violated (that the loop must not keep it is C10's business) - only the machine disagrees
            viol.append(violation(f"model-mismatch:link:{tr_}:setup-failed-attempt-kept",
                                  f"life-cycle history {kinds}: {bad[2]}", False, **payload))
        elif bad:
            viol.append(violation(f"link:{tr_}:{bad[1]}:{kinds[bad[0]]}", f"life-cycle history {kinds} on one live {tr_} object: {bad[2]}",
                                  True, **payload))
        elif model is not None:
            last_of = {}
            for pos_, o in enumerate(owner):
                last_of[o] = pos_
            f = lambda x: "-" if x in ("-", None) else str(owner[int(x)])  # noqa: E731
            g = lambda x: "-" if x is None else str(x)  # noqa: E731
            mw, iw = [], []
            for k, st_ in enumerate(impl):
                w = model[last_of[k]].split(",")
                c = model[ctok[k]].split(",") if ctok[k] is not None else ["-"] * 7
                mw.append(f"{w[0]},{f(w[1])},{f(w[2])},{c[3]},{c[4]}")
                live, keys, res, notes, ran, infl = st_
                iw.append(f"{1 if live else 0},{g(keys)},{g(res) if tr_ == 'ble' else '-'},"
                          f"{'-' if ran is None else int(bool(ran))},{'-' if infl is None else int(bool(infl))}")
            if mw != iw:
                viol.append(violation(f"model-mismatch:link:{tr_}",
                                      f"life-cycle machine and implementation disagree on {kinds}: impl {iw} model {mw}", False,
                                      **payload))
    return n_ev


SEQUENCE_MODES = dict(
    coap=["network-error", "timeout", "not-found", "garbage-response", "reconnect-soon", "verify-while-connected",
          "failed-verify-between"],
    ip=["reconnect", "failed-verify-between", "rejected-with-4xx-between"],
    ble=["resume", "accessory-forgot", "failed-verify-between", "rejected-in-pieces-between"])


def sequence_pass():
    out = []

    async def main():
        for tr, fn in (("coap", coap_sequence), ("ip", ip_sequence), ("ble", ble_sequence)):
            for mode in SEQUENCE_MODES[tr]:
                sessions, problems = await fn(mode)
                out.append((tr, mode, sessions, problems))
    import logging
    lg = logging.getLogger("aiohomekit.controller.coap.connection")
    lvl = lg.level
    lg.setLevel(logging.CRITICAL + 1)      # the library logs its (expected) resynchronisation failures at ERROR
    try:
        asyncio.run(main())
    finally:
        lg.setLevel(lvl)
    return out


def glue_pass(scns, recs):
    """second pass over selected scenarios through the real transport coroutines, each against a fresh,
    live reference accessory (the replies are computed for the requests actually received)"""
    out = []

    async def main():
        for s, rec in zip(scns, recs):
            if s.prior:
                out.append(None)
                continue
            if s.transport == "ble":
                d2 = ref_decode(rec["m2"]) or []
                d4 = ref_decode(rec["m4"]) if rec["m4"] else []
                if any(t in (12, 13) for t, _ in d2 + (d4 or [])):
                    out.append(None)          # fragment reassembly path: C15's ble_reassembly, excluded here
                    continue
                res = []
                for dl in BLE_DELIVERIES:     # how the reply is cut into GATT payloads is a scenario dimension
                    res.append(await glue_ble(s, Peer(s), dl) + ("gatt-" + dl,))
                out.append(res)
            elif s.resume:
                out.append(None)              # IP / CoAP glue never offers a resume
            elif s.transport == "ip":
                res = []
                for rule in HTTP_RULES:      # the HTTP status of error replies is a scenario dimension
                    res.append(await glue_ip(s, Peer(s), rule) + (rule,))
                out.append(res)
            else:
                out.append(await glue_coap(s, Peer(s)))
    asyncio.run(main())
    return out


# ------------------------------------------------------------------ extraction cross-check (vm_compute)
class _TermToGallina:
    """The drivers' term syntax (ocaml/drv_c01.ml parse_msg) rendered as a Gallina expression of type msg.
    Mirrors the OCaml parser case by case: x<hex> is a literal, dh/srpkc/srpks call the model's evaluators."""

    def __init__(self, s):
        self.s, self.i = s, 0

    def peek(self):
        return self.s[self.i] if self.i < len(self.s) else "\0"

    def eat(self, c):
        if self.peek() != c:
            raise ValueError(f"expected {c} at {self.i} in {self.s[:80]}")
        self.i += 1

    def while_(self, ok):
        st = self.i
        while self.i < len(self.s) and ok(self.s[self.i]):
            self.i += 1
        return self.s[st:self.i]

    def number(self):
        d = self.while_(str.isdigit)
        if not d:
            raise ValueError("number")
        return f"{int(d)}%N"

    def msg(self):
        self.eat("[")
        if self.peek() == "]":
            self.i += 1
            return "(@nil atom)"
        parts = [self.elem()]
        while self.peek() == ";":
            self.i += 1
            parts.append(self.elem())
        self.eat("]")
        return "(" + " ++ ".join(parts) + ")"

    def elem(self):
        if self.peek() == "x":
            self.i += 1
            h = self.while_(lambda c: c in "0123456789abcdef")
            return "(lit [" + "; ".join(f"{b}%N" for b in bytes.fromhex(h)) + "])"
        ident = self.while_(str.isalpha)
        self.eat("(")
        sig = {"pub": ("[APub {}]", "n"), "sig": ("[ASig {} {}]", "nm"), "aead": ("[AAead {} {} {} {}]", "mmmm"),
               "dh": ("(s_dh {} {})", "nm"), "hkdf": ("[AHkdf {} {} {} {}]", "mmmn"), "hash": ("[AHash {}]", "m"),
               "tlv": ("[ATlv {} {}]", "nm"), "junk": ("[AJunk {} {}]", "nn"), "srpA": ("[ASrpA {}]", "n"),
               "srpB": ("[ASrpB {} {} {}]", "nmm"), "srpkc": ("(srp_kc {} {} {} {})", "mmnm"),
               "srpks": ("(srp_ks {} {} {} {})", "mmnm")}.get(ident)
        if sig is None:
            raise ValueError("unknown constructor " + ident)
        args = []
        for k, kind in enumerate(sig[1]):
            if k:
                self.eat(",")
            args.append(self.number() if kind == "n" else self.msg())
        self.eat(")")
        return sig[0].format(*args)


def coq_msg(s):
    p = _TermToGallina(s)
    m = p.msg()
    if p.i != len(s):
        raise ValueError("trailing input in " + s[:80])
    return m


def coq_hexbytes(h):
    return "[" + "; ".join(f"{b}%N" for b in (b"" if h == "-" else bytes.fromhex(h))) + "]"


def coq_reply(s):
    if s == "honest":
        return "None"
    if s == ".":
        return "(Some (@nil sitem))"
    items = []
    for it in s.split("|"):
        t, m = it.split("=", 1)
        items.append(f"({int(t)}%N, {coq_msg(m)})")
    return "(Some [" + "; ".join(items) + "])"


def coq_resume(sid, secret):
    if sid == "-" or secret == "-":
        return "None"
    return f"(Some {{| rs_sid := {coq_msg(sid)}; rs_secret := {coq_msg(secret)} |}})"


def coq_request(line):
    """one `pv ...` driver request as the Gallina term `show_pv ...` (same arguments, same order as drv_c01.ml)"""
    w = line.split(" ")
    if len(w) != 19 or w[0] != "pv":
        raise ValueError("not a pv request")
    (_, tr, acc_id, ltpk, ios_id, ltsk, eph, rs_sid, rs_secret, ac_id, ac_ltsk, ac_eph, ctrl_id, ctrl_ltpk,
     ss_sid, ss_secret, new_sid, m2, m4) = w
    pd = (f"{{| pd_acc_id := {coq_hexbytes(acc_id)}; pd_acc_ltpk := {coq_msg(ltpk)}; pd_ios_id := {coq_hexbytes(ios_id)}; "
          f"pd_ios_ltsk := {int(ltsk)}%N |}}")
    a = (f"{{| ac_id := {coq_hexbytes(ac_id)}; ac_ltsk := {int(ac_ltsk)}%N; ac_eph := {int(ac_eph)}%N; "
         f"ac_ctrl_id := {coq_hexbytes(ctrl_id)}; ac_ctrl_ltpk := {coq_msg(ctrl_ltpk)}; "
         f"ac_session := {coq_resume(ss_sid, ss_secret)}; ac_new_sid := {coq_msg(new_sid)} |}}")
    return (f"(show_pv {dict(ip='TIP', ble='TBLE', coap='TCOAP')[tr]} {pd} {int(eph)}%N {coq_resume(rs_sid, rs_secret)} "
            f"{a} {coq_reply(m2)} {coq_reply(m4)})")


XC_PRELUDE = """From Coq Require Import List NArith Bool.
From AHK Require Import Lib.Res Lib.ByteStr Model.Tlv Model.Sym Model.Verify.
Import ListNotations.
Fixpoint items_eqb (a b : list sitem) : bool :=
  match a, b with
  | [], [] => true
  | (k, v) :: r, (k', v') :: s => N.eqb k k' && msg_eqb v v' && items_eqb r s
  | _, _ => false
  end.
Definition show_fail (f : fail) : N :=
  match f with FInvalid => 0 | FErr _ => 1 | FAuthTag => 2 | FParse => 3 | FWrongId => 4 | FSig => 5 | FProof => 6
  | FCrash => 7 end%N.
Definition show_ob (o : option bool) : N := match o with None => 2 | Some true => 1 | Some false => 0 end%N.
Definition show_pv (tr : transport) (pd : pairing) (eph : N) (rs : option resume_st) (a : acc)
           (m2x m4x : option (list sitem)) : list N :=
  let t := pv_exchange tr pd eph rs a m2x m4x in
  [ (if items_eqb (tr_m1 t) (m1_plain eph) then 0 else 1);
    (match snd (acc_m2 a (tr_m1 t)) with AVerify _ _ => 0 | AResumed _ _ => 1 | ARejected => 2 end);
    (match m2x with None => 1 | Some x => if items_eqb x (tr_m2_spec t) then 1 else 0 end);
    (match tr_result t with PDone _ _ => 0 | PSend _ _ => 1 | PUnsupported => 2 | PFail f => 10 + show_fail f end);
    show_ob (tr_m3_accepted t); show_ob (tr_keys_agree t) ]%N.
"""
XC_FAIL = ["invalid", "error-item", "authtag", "parse", "wrongid", "signature", "proof", "crash"]


def xc_expected(answer):
    """the driver's answer line as the list of numbers show_pv yields (None if it is not an answer line)"""
    try:
        p = dict(x.split("=", 1) for x in answer.split(" "))
        res = p["result"]
        rc = 10 + XC_FAIL.index(res[5:]) if res.startswith("fail:") else {"done": 0, "send": 1, "unsupported": 2}[res]
        ob = {"-": 2, "1": 1, "0": 0}
        if set(p) != {"m1", "acc", "m2spec", "result", "m3acc", "keys"}:
            return None
        return [{"plain": 0, "resume": 1}[p["m1"]], {"verify": 0, "resumed": 1, "rejected": 2}[p["acc"]],
                {"0": 0, "1": 1}[p["m2spec"]], rc, ob[p["m3acc"]], ob[p["keys"]]]
    except (KeyError, ValueError):
        return None


def xc_sample(pairs, n=24):
    """deterministic sample of the run's (request, answer) stream: the shortest request of every distinct driver
    answer (rotating over the transports), topped up with further (transport, answer, resume-state, substituted-M4)
    classes, evenly spaced"""
    groups = {}
    for req, ans in pairs:
        w = req.split(" ")
        if len(w) != 19 or len(req) > 6000:
            continue
        k = (ans, w[1], w[7] != "-", w[18] != "honest")
        if k not in groups or len(req) < len(groups[k][0]):
            groups[k] = (req, ans)
    picked = []
    for i, ans in enumerate(sorted({k[0] for k in groups})):
        ks = sorted(k for k in groups if k[0] == ans)
        pref = [k for k in ks if k[1] == TRANSPORTS[i % 3]] or ks
        picked.append(pref[0])
    picked = picked[:n]
    rest = [k for k in sorted(groups) if k not in picked]
    room = n - len(picked)
    if room > 0 and rest:
        step = max(1, len(rest) // room)
        picked += rest[::step][:room]
    return [groups[k] for k in picked]


def vm_crosscheck(ctx, sample):
    """Evaluate the sampled requests inside Coq (`Eval vm_compute`) through the SAME model functions the extracted
    driver calls (pv_exchange, acc_m2, m1_plain, msg_eqb, s_dh, srp_kc, srp_ks) and compare every field of the
    driver's answer.  Takes extraction + ocaml/drv.ml + ocaml/drv_c01.ml out of the single-point-of-trust position.
    Returns (number of requests evaluated, list of disagreements)."""
    import re
    from common import coq_eval
    body = [XC_PRELUDE] + [f"Eval vm_compute in {coq_request(req)}." for req, _ in sample]
    out = coq_eval(ctx["verif"], "C01", "crosscheck", "\n".join(body) + "\n", timeout=600)
    blocks = out.split("= ")[1:]
    bad = []
    if len(blocks) != len(sample):
        bad.append(dict(request=None, driver=None, vm_compute=f"{len(blocks)} results for {len(sample)} requests"))
    for (req, ans), blk in zip(sample, blocks):
        got = [int(x) for x in re.findall(r"(\d+)%N", blk.split(":")[0])]
        if xc_expected(ans) != got:
            bad.append(dict(request=req, driver=ans, vm_compute=got))
    return len(blocks), bad


# ------------------------------------------------------------------ run
def replay_payload(s, rec, model=None, extra=None):
    p = dict(scenario=s.ident(), transport=s.transport, pairing_data=rec["pd"], controller_eph_sk=rec["eph_sk"],
             sequence=(dict(name=s.seq[0], position=s.seq[1], earlier_exchanges_in_this_process=rec.get("seq_history"),
                            note="exchanges of this sequence run back to back in one process with DIFFERENT pairing records; "
                                 "--replay re-runs the sequence up to this step") if s.seq else None),
             prior_exchange=rec.get("prior"), key_reused=rec.get("key_reused"),
             m1=rec["m1"].hex() if rec["m1"] else None, m2=rec["m2"].hex() if rec["m2"] is not None else None,
             m3=rec["m3"].hex() if rec["m3"] else None, m4=rec["m4"].hex() if rec["m4"] is not None else None,
             impl=rec["impl"], impl_exception=rec["exc"], model=model,
             oracle_justifies_done=bool(rec["just"]), oracle_reason=rec.get("why_not"), impl_keys=rec.get("keys"),
             accessory_keys={k: v.hex() for k, v in R.session_keys(rec["acc_secret"], s.transport).items()} if rec["acc_secret"] else None,
             how_to_replay="(replayed-exchange scenarios: no patching; run prior_exchange first: g0 = get_session_keys("
                           "pairing_data), feed prior m2/m4; then a second generator gets the same m2/m4.)  Otherwise: "
                           "patch X25519PrivateKey.generate to return controller_eph_sk, g = get_session_keys(pairing_data"
                           "[, session_id, derive]); g.send(None); g.send(TLV.decode_bytes(m2, expected) (dict(...) on BLE)); "
                           "g.send(TLV.decode_bytes(m4, expected))")
    if s.resume:
        p["resume"] = {k: (v[0].hex(), f"HKDF over X25519({PREV[v[1]]})") if isinstance(v, tuple) else v.hex()
                       for k, v in s.resume.items()}
    if extra:
        p.update(extra)
    return p


def coarse(model_line):
    """m1=.. acc=.. m2spec=.. result=fail:cls .. -> comparable line + fail class"""
    parts = dict(x.split("=", 1) for x in model_line.split(" "))
    res = parts["result"]
    cls = None
    if res.startswith("fail:"):
        cls = res[5:]
        res = "fail"
    return f"m1={parts['m1']} acc={parts['acc']} result={res} m3acc={parts['m3acc']} keys={parts['keys']}", cls, parts


def run(ctx):
    from common import rng
    tier = ctx["tier"]
    rnd = rng(ctx["seed"], "c01")
    drv = Driver(ctx["driver"])
    cov = Coverage("distinct (transport, identity set, resume state, M2 bytes, M4 bytes) on which the generator "
                   "consumed at least M2 (i.e. not rejected by the transport's TLV decoder)")
    viol = []
    scns = gen_scenarios(tier, rnd)
    if ctx.get("replay"):
        # --replay <file>: re-run exactly the scenario a replay file names (deterministic keys), all three ways
        import json
        want = json.load(open(ctx["replay"])).get("scenario")
        ctx = dict(ctx, replay_scenario=want)
        if str(want).startswith("session-sequence:"):
            scns = [s for s in scns if s.family == "honest" and s.cfg == 0][:1]
        scns = [s for s in scns if s.ident() == want or str(want).startswith("session-sequence:")] or \
               [s for s in gen_scenarios("thorough", rng(ctx["seed"], "c01")) if s.ident() == want]
        if not scns:
            return dict(coverage=dict(evaluations=0, distinct_nontrivial=0, rule="replay", samples=[]),
                        violations=[violation("replay:unknown-scenario", f"no scenario named {want}", False)])
        first = scns[0]
        if first.seq:
            pool = gen_scenarios(tier, rng(ctx["seed"], "c01"))
            scns = [s for s in pool if s.seq and s.seq[0] == first.seq[0] and s.seq[1] <= first.seq[1]]
        else:
            scns = scns[:1]
    recs = [run_scenario(s) for s in scns]
    hist = {}
    for s_, r_ in zip(scns, recs):        # earlier steps of a record sequence, for self-contained replays
        if s_.seq:
            h = hist.setdefault(s_.seq[0], [])
            r_["seq_history"] = list(h)
            h.append(dict(step=s_.detail, pairing_data=r_["pd"], m1=r_["m1"].hex(), m2=r_["m2"].hex(),
                          m3=r_["m3"].hex() if r_["m3"] else None, m4=r_["m4"].hex() if r_["m4"] else None, impl=r_["impl"]))
    lines = [r["model_req"] for r in recs if r["model_req"]]
    model_answers = drv.batch(lines)
    answers = iter(model_answers)
    n_model = 0
    exp_lists = set()
    for s, rec in zip(scns, recs):
        exp_lists.add(tuple(rec["expected_lists"]))
        model_line = next(answers) if rec["model_req"] else None
        impl = rec["impl"]
        impl_done = " result=done" in impl
        just = rec["just"]
        mcoarse = mcls = None
        if model_line is not None:
            n_model += 1
            if not model_line.startswith("m1="):
                viol.append(violation("model-driver-error", f"driver answered {model_line[:200]} for {s.ident()}", False,
                                      request=rec["model_req"]))
                continue
            mcoarse, mcls, parts = coarse(model_line)
            if rec["m4_not_tlv"] and " result=fail" in impl and rec["exc"] and rec["exc"].startswith("m4:"):
                # M4 was not TLV8: the transport decoder failed before the generator saw it
                mcoarse = impl
            if parts["result"] == "unsupported":
                viol.append(violation("model-unsupported:" + s.family, "scenario outside the symbolic abstraction", False,
                                      scenario=s.ident()))
                continue
            if rec["m2_unmutated"] and parts["m2spec"] != "1":
                viol.append(violation("bridge:spec-accessory-differs:" + s.family,
                                      "the reference accessory's symbolic M2 differs from the Coq specification accessory's",
                                      False, scenario=s.ident(), request=rec["model_req"]))
        else:
            mcoarse = f"m1={impl.split(' ')[0][3:]} acc={rec['acc_state']} result=fail m3acc=- keys=-"
        cov.case(f"{s.transport}|{s.cfg}|{s.resume}|{rec['m2'].hex()}|{rec['m4'].hex() if rec['m4'] else ''}",
                 model_line is not None,
                 sample=dict(scenario=s.ident(), impl=impl, model=model_line) if s.family in SAMPLE_FAMILIES else None,
                 transport=s.transport, family=s.family.split(":")[0] + ":" + (s.family.split(":") + [""])[1],
                 outcome=("done" if impl_done else "fail:" + str(rec["exc"]).split(":")[-1]),
                 model_outcome=(mcls or ("done" if mcoarse and "result=done" in mcoarse else "transport-parse-error")))
        # ---- property oracle first
        bad = None
        if s.prior and rec["key_reused"]:
            viol.append(violation("ephemeral-key-reused:" + s.transport,
                                  "two pair-verify exchanges of one process sent the SAME controller Curve25519 public key in "
                                  f"M1: the session key and the accessory's signature are not bound to a fresh key [{s.ident()}]",
                                  True, **replay_payload(s, rec, model_line)))
        if s.prior and impl_done:
            bad = ("replayed-exchange-accepted:" + s.transport,
                   "M2/M4 recorded from an earlier exchange were replayed verbatim, with nobody holding the accessory's "
                   "long-term key taking part, and the implementation returned session keys")
        elif impl_done and not just:
            bad = ("accepted-unauthentic:" + str(rec["why_not"]) + ":" + s.transport + (":" + s.family if s.seq else ""),
                   "the implementation returned session keys although the delivered replies fail the C01 acceptance "
                   f"condition, evaluated independently on the bytes (reason: {rec['why_not']})")
        elif s.honest and not s.m2 and not s.m4 and not (impl_done and " keys=1" in impl and " m3acc=0" not in impl):
            bad = ("honest-run-failed:" + s.family + ":" + s.transport,
                   "against a specification-conformant accessory the run must end Done, the accessory must accept M3 "
                   "and both ends must hold the same keys")
        elif impl_done and just and rec["acc_secret"] == just[1] and " keys=1" not in impl:
            bad = ("keys-differ:" + s.family + ":" + s.transport,
                   "Done with an authentic exchange but the controller's keys differ from the accessory's")
        if bad:
            viol.append(violation(bad[0], bad[1] + f" [{s.ident()}]", True, **replay_payload(s, rec, model_line)))
        elif mcoarse != impl:
            viol.append(violation("model-mismatch:" + s.family + ":" + s.transport,
                                  f"model and implementation disagree on {s.ident()}: impl '{impl}' model '{mcoarse}'",
                                  False, **replay_payload(s, rec, model_line)))
    # ---- third pass: sequences of sessions on one live connection / pairing object
    n_seq = 0
    if not ctx.get("replay") or str(ctx.get("replay_scenario", "")).startswith("session-sequence:"):
        for tr_, mode, sessions, problems in sequence_pass():
            n_seq += 1
            cov.case(f"sequence|{tr_}|{mode}", True, transport="sequence-" + tr_, family="session-sequence",
                     sample=dict(scenario=f"session-sequence:{tr_}:{mode}", sessions=len(sessions), problems=problems),
                     outcome="ok" if not problems else "violated")
            if problems:
                viol.append(violation(f"session-sequence:{tr_}:{mode}",
                                      f"sessions on ONE live {tr_} connection object (session ended by: {mode}): after every "
                                      "successful pair-verify all derived keys must be this exchange's and the previous "
                                      "session's keys must be dead: " + "; ".join(problems), True,
                                      scenario=f"session-sequence:{tr_}:{mode}", transport=tr_, sessions=sessions,
                                      how_to_replay="one connection object (CoAPHomeKitConnection.do_pair_verify / "
                                                    "SecureHomeKitConnection._connect_once / BlePairing._async_pair_verify); run "
                                                    "the listed sessions in order against an accessory answering m2/m4, end each "
                                                    "session as stated, then check encrypt/decrypt/decrypt_event against "
                                                    "accessory_keys of the LAST session"))
    cov.extra["session_sequences"] = n_seq
    # ---- fourth pass: random histories on one live object vs the history machine (Model/VerifyHist.v)
    n_hist = n_hist_events = 0
    if not ctx.get("replay"):
        hs = history_pass(tier, rng(ctx["seed"], "c01-hist"))
        reqs = [h[3] for h in hs if h[3]]
        ans = iter(drv.batch(reqs))
        for tr_, kinds, impl, req, log, script in hs:
            n_hist += 1
            n_hist_events += len(kinds)
            model = next(ans).split(" ") if req else None
            spec = py_spec(tr_, log)
            real = [k for k in range(len(log)) if log[k][0] != "noop"]
            cov.case(f"history|{tr_}|{kinds}", True, transport="history-" + tr_, family="history",
                     sample=dict(scenario=f"history:{tr_}", events=kinds, observed=[list(x[:3]) for x in impl], model=model)
                     if n_hist % 40 == 1 else None, hist_len=len(kinds),
                     **{"hist_event": "+".join(sorted(set(kinds)))[:60]})
            bad = None
            for k, st_ in enumerate(impl):
                # a session must never be reported while the attempt is still in flight; BLE run directly through
                # _async_pair_verify on a live session legitimately keeps reporting the (same link's) old session
                if st_[4] and not (tr_ == "ble" and k and spec[k - 1][0]):
                    bad = (k, "session-reported-in-flight",
                           f"during event {k} ({kinds[k]}), with M1/M3 sent and the peer's replies still outstanding, the "
                           "object already reported an open session (is_connected): the peer of this attempt has proved nothing")
                    break
                if st_[3]:
                    bad = (k, "mixed-keys", "; ".join(st_[3]))
                    break
                if (bool(st_[0]), st_[1], st_[2] if tr_ == "ble" else None) != (spec[k][0], spec[k][1], spec[k][2]):
                    bad = (k, "stale-or-missing-keys",
                           f"after event {k} ({kinds[k]}) the object is live={st_[0]} with the keys of session {st_[1]} "
                           f"(resumable: {st_[2]}); the latest-success rule gives live={spec[k][0]}, session {spec[k][1]} "
                           f"(resumable: {spec[k][2]})")
                    break
            payload = dict(scenario=f"history:{tr_}", transport=tr_, events=kinds, script=script, model=model,
                           how_to_replay="one live object (CoAPHomeKitConnection / SecureHomeKitConnection / BlePairing); apply "
                                         "the events in order: a verify answers the controller's M1/M3 with the listed m2/m4, a "
                                         "drop ends the session as stated; after each event probe which session's keys "
                                         "encrypt/decrypt (accessory_keys) and whether the object reports itself connected")
            if bad:
                viol.append(violation(f"history:{tr_}:{bad[1]}:after-{kinds[bad[0]]}",
                                      f"history {kinds} on one live {tr_} object: {bad[2]}", True, **payload))
            elif model is not None:
                mw = [model[j] for j in range(len(model))]
                iw = []
                for k in real:
                    st_ = impl[k]
                    pos = {kk: n for n, kk in enumerate(real)}
                    f = lambda x: "-" if x is None else str(pos.get(x, x))  # noqa: E731
                    iw.append(f"{1 if st_[0] else 0},{f(st_[1])},{f(st_[2]) if tr_ == 'ble' else '-'},"
                              + ("-" if st_[4] is None else str(int(bool(st_[4])))))
                if mw != iw:
                    viol.append(violation(f"model-mismatch:history:{tr_}",
                                          f"history machine and implementation disagree on {kinds}: impl {iw} model {mw}", False,
                                          **payload))
    cov.extra["histories"] = n_hist
    cov.extra["history_events"] = n_hist_events
    # ---- fifth pass: connection life cycle through the real entry points vs Model/VerifyConn.v
    n_link = n_link_events = 0
    if not ctx.get("replay"):
        ls = link_pass(tier, rng(ctx["seed"], "c01-link"))
        n_link = len(ls)
        n_link_events = judge_link_histories(ls, iter(drv.batch([h[3] for h in ls if h[3]])), cov, viol)
    cov.extra["link_histories"] = n_link
    cov.extra["link_history_events"] = n_link_events
    # ---- second pass: the real transport coroutines
    sel = [(s, r) for s, r in zip(scns, recs)
           if s.family in GLUE_FAMILIES or (tier == "thorough" and not s.family.startswith("m2:raw"))]
    g = glue_pass([x[0] for x in sel], [x[1] for x in sel])
    n_glue = 0
    for (s, rec), res in zip(sel, g):
        if res is None:
            continue
        for one in (res if isinstance(res, list) else [res + (None,)]):
            n_glue += 1
            outcome, keys_ok, exc, rule = one
            impl_done = " result=done" in rec["impl"]
            cov.case(f"glue|{s.ident()}|{rule}", True, transport="glue-" + s.transport, glue_outcome=outcome,
                     **({"http_rule": rule} if rule else {}))
            extra = dict(glue=outcome, delivery_rule=rule,
                         note=("IP: the reply bytes m2/m4 are delivered as HTTP responses; with rule N-on-error a reply that "
                               "carries an Error item has status N (4xx), all others 200.  BLE gatt-*: m2/m4 are cut into "
                               "FragmentData / FragmentLast payloads; siblings-first = State/Error items beside the first, "
                               "non-final piece, siblings-last = beside FragmentLast") if rule else None)
            if (outcome == "done") != impl_done:
                found = outcome == "done" and not rec["just"]
                viol.append(violation(("accepted-unauthentic:glue:" + str(rec["why_not"]) if found else "glue-mismatch:" + s.family)
                                      + ":" + s.transport + (":" + ("http-" if s.transport == "ip" else "") + rule
                                                             if rule and rule not in ("always-200", "gatt-single") else ""),
                                      f"transport glue outcome {outcome} ({exc}) differs from the generator-level outcome "
                                      f"'{rec['impl']}' on {s.ident()}" + (f" [HTTP status rule {rule}]" if rule else "")
                                      + ("; the connection reports a secure session although the delivered replies fail the "
                                         f"C01 acceptance condition ({rec['why_not']})" if found else ""),
                                      found, **replay_payload(s, rec, None, extra)))
            elif outcome == "done" and not keys_ok and rec["acc_secret"] is not None:
                viol.append(violation("glue-keys-differ:" + s.transport,
                                      f"the keys installed by the {s.transport} transport glue do not interoperate with the "
                                      f"accessory's keys (Control-Write / Control-Read / Event labels) on {s.ident()}", True,
                                      **replay_payload(s, rec, None, dict(extra, glue="keys installed by the real transport code "
                                                                          "fail the functional check against accessory_keys"))))
    # ---- the bit-exact HKDF-SHA-512 model (what the free symbol THkdf stands for) against aiohomekit/crypto/hkdf.py
    if not ctx.get("replay"):
        import hkdftie
        hk_info, hk_viols = hkdftie.run(ctx, "full" if tier == "thorough" else "mini")
        cov.extra["hkdf_bit_exact"] = hk_info
        viol.extend(hk_viols)
    # ---- extraction cross-check: a sample of the same requests evaluated by the Coq kernel's VM
    if not ctx.get("replay"):
        n_xc, xc_bad = vm_crosscheck(ctx, xc_sample(list(zip(lines, model_answers))))
        cov.extra["vm_compute_crosscheck"] = {"requests": n_xc, "disagreements": len(xc_bad)}
        if xc_bad:
            viol.append(violation("extraction-vs-vm_compute",
                                  f"the extracted driver and vm_compute disagree on {len(xc_bad)} of {n_xc} sampled requests "
                                  f"(first: driver '{xc_bad[0]['driver']}', vm_compute {xc_bad[0]['vm_compute']})", False,
                                  disagreements=xc_bad[:5]))
    cov.extra["exhaustive"] = True
    cov.extra["exhaustive_part"] = ("every single-bit flip of every byte of the honest M2 (IP; BLE bits 0 and 7; thorough: all "
                               "transports, all bits) and of M4, two substitutions per M2 byte, every signature transcript "
                               "permutation, every field drop/duplicate/reorder of M2 and its sub-TLV")
    cov.extra["disagreements_checked"] = n_model
    cov.extra["model_cases"] = n_model
    cov.extra["glue_cases"] = n_glue
    cov.extra["expectation_lists_yielded_at_m1"] = sorted(map(list, exp_lists))
    cov.extra["domain_exclusions"] = [
        "replies that are not TLV8 are rejected by the transport decoder before the generator; the model is not consulted",
        "BLE replies carrying FragmentData/FragmentLast items go through C15's reassembly and are skipped in the glue pass",
        "pairing records whose LTSK/LTPK are not 32 bytes or whose identifiers are not encodable are not generated",
    ]
    cov.extra["trusted_base_extra"] = [
        "symbolic<->concrete bridge: harness/ref/accessory.py dual values + atom registry (DESIGN.md 3.2, Appendix B)",
        "reference accessory primitives: cryptography (OpenSSL) ChaCha20-Poly1305/X25519/Ed25519, hmac/hashlib HKDF-SHA-512",
    ]
    return dict(coverage=cov.to_dict(), violations=viol)


SAMPLE_FAMILIES = {"honest", "m2:sub:sig:over-permuted", "m2:replayed-other-exchange", "resume:wrong-secret",
                   "m2:pk:len31", "acc:wrong-ltsk", "m4:add-error:nostate", "resume:honest", "m2:enc:under-other-nonce"}
GLUE_FAMILIES = {"honest", "acc:wrong-ltsk", "acc:wrong-id", "acc:other-eph", "acc:controller-unknown", "resume:honest",
                 "resume:accessory-forgot-session", "resume:wrong-secret", "resume:tag:nonempty-plaintext",
                 "m2:sub:sig:by-other-key", "m2:sub:sig:over-permuted", "m2:replayed-other-exchange", "m2:sub:id:other",
                 "m2:enc:under-other-nonce", "m2:add-error:end", "m2:add-error:nostate", "m4:add-error", "m4:add-error:nostate",
                 "m2:drop:pk", "m2:drop:enc", "m2:pk:len31", "m2:pk:len33", "m2:unknown-field:end", "m2:unknown-field:front",
                 "m4:state:value", "m4:nostate", "m2:state:value", "m2:reorder"}
