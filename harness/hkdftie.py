"""Correspondence for the shared bit-exact HKDF-SHA-512 model (coq/theories/Model/Hkdf.v).

`hkdf_derive ikm salt info len` is evaluated INSIDE Coq (`vm_compute`) and compared - in Gallina - with what
aiohomekit.crypto.hkdf.hkdf_derive(input, salt, info, length) returned on the same arguments (ValueError = None).
An independent oracle (RFC 5869 written with hmac/hashlib only) decides whether a disagreement is the
implementation's fault.  `run(ctx)` returns (info, violations); used by C01 and C03.
"""
import re, hmac, hashlib
from common import coq_eval, rng, violation, hx

LABELS = [(b"Pair-Verify-Encrypt-Salt", b"Pair-Verify-Encrypt-Info"), (b"Control-Salt", b"Control-Read-Encryption-Key"),
          (b"Control-Salt", b"Control-Write-Encryption-Key"), (b"Pair-Setup-Encrypt-Salt", b"Pair-Setup-Encrypt-Info"),
          (b"Pair-Setup-Controller-Sign-Salt", b"Pair-Setup-Controller-Sign-Info"), (b"Event-Salt", b"Event-Read-Encryption-Key"),
          (b"Pair-Verify-ResumeSessionID-Salt", b"Pair-Verify-ResumeSessionID-Info")]


def _cb(b) -> str:
    return "[" + ";".join(str(x) for x in bytes(b)) + "]"


def ref_hkdf(ikm, salt, info, length):
    if length > 255 * 64:
        return None
    prk = hmac.new(salt, ikm, hashlib.sha512).digest()
    out, t, i = b"", b"", 1
    while len(out) < length:
        t = hmac.new(prk, t + info + bytes([i]), hashlib.sha512).digest()
        out += t
        i += 1
    return out[:length]


def run(ctx, scale="full"):
    from aiohomekit.crypto.hkdf import hkdf_derive
    r = rng(ctx["seed"], "hkdftie")
    thorough = ctx["tier"] == "thorough"
    cases = []
    for salt, info in LABELS:
        cases.append((r.randbytes(32), salt, info, 32))
    cases.append((b"1" * 32, b"Pair-Verify-Encrypt-Salt", b"Pair-Verify-Encrypt-Info", 32))
    # boundary sizes: HMAC key block 128 (longer salts are hashed), SHA-512 padding 111/112, output blocks of 64
    n = 40 if thorough else (12 if scale == "full" else 4)
    for _ in range(n):
        cases.append((r.randbytes(r.choice([0, 1, 32, 64, 111, 112, 127, 128, 129, 200])),
                      r.randbytes(r.choice([0, 16, 64, 127, 128, 129, 200])),
                      r.randbytes(r.choice([0, 1, 24, 46, 47, 48, 100])),
                      r.choice([0, 1, 16, 32, 63, 64, 65, 128, 129, 200])))
    cases.append((b"k", b"", b"", 255 * 64 + 1))       # ValueError
    cases.append((b"k", b"s", b"i", 100000))
    if thorough:
        cases.append((b"k", b"s", b"i", 255 * 64))    # the largest legal output (255 HMACs)
    body = ["From Coq Require Import List NArith Bool.", "From AHK Require Import Lib.ByteStr Model.ChaChaPoly Model.Hkdf.",
            "Import ListNotations.", "Local Open Scope N_scope.",
            "Definition chk ikm salt info (len : nat) (some : bool) (out : bytes) : N := match hkdf_derive ikm salt info len with "
            "| Some o => if some && beq_bytes o out then 1 else 0 | None => if some then 0 else 1 end."]
    impl = []
    for ikm, salt, info, length in cases:
        try:
            o = hkdf_derive(ikm, salt, info, length)
            impl.append(("some", bytes(o)))
        except ValueError:
            impl.append(("none", b""))
        body.append(f"Eval vm_compute in chk {_cb(ikm)} {_cb(salt)} {_cb(info)} {length}%nat "
                    f"{'true' if impl[-1][0] == 'some' else 'false'} {_cb(impl[-1][1])}.")
    out = coq_eval(ctx["verif"], ctx["pid"], "hkdftie", "\n".join(body) + "\n", timeout=900)
    codes = [int(x) for x in re.findall(r"=\s*(\d+)\s*:\s*N", out)]
    viols = []
    if len(codes) != len(cases):
        viols.append(violation("hkdf:model-eval-failed", f"vm_compute returned {len(codes)} answers for {len(cases)} cases",
                               False, broken="correspondence Model/Hkdf.v vs aiohomekit/crypto/hkdf.py"))
        return dict(cases=len(cases), disagreements=None), viols
    bad = [i for i, c in enumerate(codes) if c != 1]
    for i in bad[:5]:
        ikm, salt, info, length = cases[i]
        exp = ref_hkdf(ikm, salt, info, length)
        got = impl[i]
        payload = dict(ikm=hx(ikm), salt=hx(salt), info=hx(info), length=length, impl=[got[0], hx(got[1])],
                       reference=None if exp is None else hx(exp))
        if (exp is None) != (got[0] == "none") or (exp is not None and exp != got[1]):
            viols.append(violation("hkdf:differs-from-rfc5869", "aiohomekit.crypto.hkdf.hkdf_derive disagrees with RFC 5869 "
                                   "HKDF-SHA-512 (model and an hmac/hashlib computation agree with each other)", True, **payload))
        else:
            viols.append(violation("hkdf:model-mismatch", "Model/Hkdf.v disagrees with the implementation and the reference",
                                   False, broken="correspondence Model/Hkdf.v (hkdf_derive)", **payload))
    info = dict(scale=scale, cases=len(cases), disagreements=len(bad),
                lengths=sorted({c[3] for c in cases}), salt_sizes=sorted({len(c[1]) for c in cases}),
                ikm_sizes=sorted({len(c[0]) for c in cases}), info_sizes=sorted({len(c[2]) for c in cases}),
                note="model evaluated by vm_compute inside Coq; compared in Gallina with the implementation's answers")
    return info, viols
