"""Check runner: proof stage + correspondence stage + verdict + evidence.

  runner.py --setup
  runner.py <ID> [--tier quick|thorough] [--replay <file>]

Verdict logic (DESIGN.md section 1):
  proofs for <ID> compile, no Admitted/Axiom/..., Print Assumptions as expected
    AND model == implementation on every generated case
    AND the property oracle accepts every implementation result it is run on
         -> exit 0 (after KNOWN-FINDING lines for listed findings)
  otherwise -> VIOLATION line(s), exit 1.
"""
from __future__ import annotations

import fcntl
import glob
import hashlib
import importlib
import json
import os
import re
import subprocess
import sys
import time
import traceback

VERIF = os.path.dirname(os.path.dirname(os.path.abspath(__file__)))
REPO = os.environ.get("VERIF_REPO", "/repo")
COQ = os.path.join(VERIF, "coq")
TH = os.path.join(COQ, "theories")
BUILD = os.path.join(VERIF, "build")
sys.path.insert(0, REPO)
sys.path.insert(0, os.path.join(VERIF, "harness"))

FORBIDDEN = re.compile(
    r"\b(Admitted|admit|Axiom|Axioms|Parameter|Parameters|Conjecture|Conjectures|"
    r"Unset\s+Guard\s+Checking|Unset\s+Positivity\s+Checking|Unset\s+Universe\s+Checking|"
    r"bypass_check|type-in-type|impredicative-set|Admit\s+Obligations|give_up|native_compute)\b"
)

GLOBAL_TRUSTED = [
    "Coq 8.16.1 kernel (coqc full .vo build; vm_compute used in Examples/finite sweeps; no native_compute)",
    "hand-written Gallina model of the anchored code (Model/*.v); tie to /repo = differential correspondence check",
    "extraction: ExtrOcamlBasic only (Extract Inductive bool/option/list/prod/unit/sumbool/sumor; no Extract Constant), OCaml 4.13.1, ocaml/drv.ml + per-property driver",
    "harness: generators, canonicalisers, exception->class maps, reference oracles (harness/ref), CPython 3.12 and the third-party libraries aiohomekit runs on",
]


def sh(cmd, timeout=600, cwd=None, env=None, check=False):
    p = subprocess.run(cmd, shell=isinstance(cmd, str), cwd=cwd, env=env, timeout=timeout,
                       stdout=subprocess.PIPE, stderr=subprocess.STDOUT, text=True)
    if check and p.returncode != 0:
        raise RuntimeError(f"command failed ({p.returncode}): {cmd}\n{p.stdout[-4000:]}")
    return p.returncode, p.stdout


class Lock:
    def __init__(self, name):
        os.makedirs(BUILD, exist_ok=True)
        self.path = os.path.join(BUILD, name + ".lock")

    def __enter__(self):
        self.f = open(self.path, "w")
        fcntl.flock(self.f, fcntl.LOCK_EX)
        return self

    def __exit__(self, *a):
        fcntl.flock(self.f, fcntl.LOCK_UN)
        self.f.close()


# ----------------------------------------------------------------------------
# Coq build
# ----------------------------------------------------------------------------

def ready_props():
    p = os.path.join(VERIF, "manifest.d", "READY")
    if os.path.exists(p):
        return sorted(set(open(p).read().split()))
    return sorted(os.path.basename(f)[:-2] for f in glob.glob(os.path.join(TH, "Props", "C*.v")))


def coq_files():
    """Everything the claimed properties' Props files depend on (transitively), plus all of Lib."""
    out = sorted(glob.glob(os.path.join(TH, "Lib", "*.v")))
    for pid in ready_props():
        for f in deps_of(pid):
            if f not in out:
                out.append(f)
    return out


def gen_makefile():
    files = [os.path.relpath(f, COQ) for f in coq_files()]
    proj = "-Q theories AHK\n" + "\n".join(files) + "\n"
    pj = os.path.join(COQ, "_CoqProject")
    old = open(pj).read() if os.path.exists(pj) else ""
    if old != proj or not os.path.exists(os.path.join(COQ, "Makefile")):
        open(pj, "w").write(proj)
        sh("coq_makefile -f _CoqProject -o Makefile", cwd=COQ, check=True, timeout=120)


def coq_make(target=None, jobs=16, timeout=3000):
    """Full .vo build (never -vos)."""
    with Lock("coqmake"):
        gen_makefile()
        cmd = f"timeout {timeout} make -j{jobs} " + (target or "")
        rc, out = sh(cmd, cwd=COQ, timeout=timeout + 30)
        return rc, out


def build_driver(pid, force=False):
    """Separate Extraction of Extract/<pid>.v into build/gen/<pid>, link with drv.ml + drv_<pid>.ml."""
    low = pid.lower()
    ext = os.path.join(TH, "Extract", pid + ".v")
    drv = os.path.join(VERIF, "ocaml", f"drv_{low}.ml")
    if not (os.path.exists(ext) and os.path.exists(drv)):
        return None
    exe = os.path.join(BUILD, f"drv_{low}")
    for d in requires_of(ext):
        rc, out = coq_build(pid, root=d)
        if rc != 0:
            raise RuntimeError("coq build for extraction failed: " + out[-1500:])
    srcs = [drv, os.path.join(VERIF, "ocaml", "drv.ml")] + deps_of(pid, root=ext)
    if (not force and os.path.exists(exe)
            and os.path.getmtime(exe) >= max(os.path.getmtime(s) for s in srcs)):
        return exe
    with Lock("drv_" + low):
        gen = os.path.join(BUILD, "gen", pid)
        os.makedirs(gen, exist_ok=True)
        for f in glob.glob(os.path.join(gen, "*")):
            os.remove(f)
        with open(ext) as src, open(os.path.join(gen, "ExtractMain.v"), "w") as dst:
            dst.write(src.read())
        sh(f"timeout 600 coqc -Q {TH} AHK ExtractMain.v", cwd=gen, check=True, timeout=630)
        for f in (os.path.join(VERIF, "ocaml", "drv.ml"), drv):
            with open(f) as src, open(os.path.join(gen, os.path.basename(f)), "w") as dst:
                dst.write(src.read())
        mls = [os.path.basename(f) for f in glob.glob(os.path.join(gen, "*.ml"))]
        mlis = [os.path.basename(f) for f in glob.glob(os.path.join(gen, "*.mli"))]
        rc, order = sh("ocamlfind ocamldep -sort " + " ".join(mlis + mls), cwd=gen, check=True)
        order = [f for f in order.split() if f.endswith((".ml", ".mli"))]
        # main program last
        main = f"drv_{low}.ml"
        order = [f for f in order if f != main] + [main]
        sh("ocamlfind ocamlopt -w -a -O2 -o " + exe + " " + " ".join(order), cwd=gen, timeout=600)
        if not os.path.exists(exe) or os.path.getmtime(exe) < os.path.getmtime(drv):
            sh("ocamlfind ocamlopt -w -a -o " + exe + " " + " ".join(order), cwd=gen, check=True, timeout=600)
    return exe


def all_props():
    return ready_props()


def setup():
    t0 = time.time()
    rc, out = coq_make()
    if rc != 0:
        print(out[-6000:])
        print("SETUP FAILED: coq build")
        return 1
    for pid in all_props():
        try:
            build_driver(pid, force=True)
        except Exception as e:  # noqa
            print(f"SETUP FAILED: driver {pid}: {e}")
            return 1
    # independent re-check of the compiled property files (axiom list kept for the evidence)
    if os.environ.get("VERIF_SKIP_COQCHK") != "1":
        vos = " ".join("AHK.Props." + p for p in all_props())
        rc, out = sh(f"timeout 2400 coqchk -silent -o -Q theories AHK {vos}", cwd=COQ, timeout=2500)
        open(os.path.join(BUILD, "coqchk.txt"), "w").write(f"rc={rc}\n" + out)
        if rc != 0:
            print(out[-3000:])
            print("SETUP FAILED: coqchk")
            return 1
    print(f"setup ok in {time.time() - t0:.0f}s")
    return 0


# ----------------------------------------------------------------------------
# proof stage
# ----------------------------------------------------------------------------

def strip_comments(src):
    out, depth, i = [], 0, 0
    while i < len(src):
        if src.startswith("(*", i):
            depth += 1
            i += 2
        elif src.startswith("*)", i) and depth:
            depth -= 1
            i += 2
        else:
            if not depth:
                out.append(src[i])
            i += 1
    return "".join(out)


def requires_of(f):
    """AHK modules a Coq source requires (as file paths)."""
    src = strip_comments(open(f).read())
    out = []
    for m in re.finditer(r"From\s+AHK\s+Require\s+(?:Import\s+|Export\s+)?(.*?)\.(?=\s|$)", src, re.S):
        for mod in m.group(1).split():
            out.append(os.path.join(TH, *mod.split(".")) + ".v")
    for m in re.finditer(r"(?<![A-Za-z_])Require\s+(?:Import\s+|Export\s+)?(.*?)\.(?=\s|$)", src, re.S):
        for mod in m.group(1).split():
            if mod.startswith("AHK."):
                out.append(os.path.join(TH, *mod.split(".")[1:]) + ".v")
    return out


def deps_of(pid, root=None):
    """Coq sources Props/<pid>.v transitively requires inside AHK, in dependency (topological) order."""
    order, seen = [], set()

    def visit(f):
        if f in seen:
            return
        seen.add(f)
        if not os.path.exists(f):
            raise RuntimeError(f"missing Coq source {f}")
        for d in requires_of(f):
            visit(d)
        order.append(f)
    visit(root or os.path.join(TH, "Props", pid + ".v"))
    return order


def coq_build(pid, root=None, timeout=1500):
    """Incremental full-.vo build of exactly what a property needs (plain coqc, per-file locks).
    Independent of other properties' files, so concurrent work on them cannot disturb it."""
    log = ""
    try:
        files = deps_of(pid, root)
    except RuntimeError as e:
        return 1, str(e)
    for f in files:
        vo = f[:-2] + ".vo"
        with Lock("coqc_" + hashlib.sha1(f.encode()).hexdigest()[:16]):
            stale = (not os.path.exists(vo)) or os.path.getmtime(vo) < os.path.getmtime(f)
            if not stale:
                for d in requires_of(f):
                    dvo = d[:-2] + ".vo"
                    if os.path.exists(dvo) and os.path.getmtime(dvo) > os.path.getmtime(vo):
                        stale = True
            if stale:
                rc, out = sh(f"timeout {timeout} coqc -Q theories AHK {os.path.relpath(f, COQ)}", cwd=COQ, timeout=timeout + 30)
                log += out
                if rc != 0:
                    return rc, log + f"\n(coqc failed on {os.path.relpath(f, COQ)} rc={rc})"
    return 0, log


def proof_stage(pid, tier):
    """Returns dict(ok, obligations, discharged, theorems, axioms, problems, checker_cmd)."""
    res = dict(ok=False, obligations=0, discharged=0, theorems=[], axioms={}, problems=[], checker_cmd="")
    props = os.path.join(TH, "Props", pid + ".v")
    if not os.path.exists(props):
        res["problems"].append("no Props file")
        return res
    try:
        files = deps_of(pid)
    except RuntimeError as e:
        res["problems"].append(str(e))
        return res
    rc, out = coq_build(pid)
    res["checker_cmd"] = (f"cd {COQ} && coqc -Q theories AHK <each of the {len(files)} files Props/{pid}.v depends on, in order> "
                          f"(full .vo; setup_cmd additionally runs coq_makefile + make -j16 over everything and coqchk -o); "
                          f"coqc -Q theories AHK theories/Props/{pid}.v (Print Assumptions)")
    src = strip_comments(open(props).read())
    theorems = re.findall(r"^\s*Theorem\s+([A-Za-z0-9_']+)", src, re.M)
    res["theorems"] = theorems
    res["obligations"] = len(theorems)
    if rc != 0:
        res["problems"].append("coq build failed: " + out[-1500:])
        return res
    # forbidden constructs anywhere in what the property depends on
    for f in files:
        s = strip_comments(open(f).read())
        for m in FORBIDDEN.finditer(s):
            res["problems"].append(f"forbidden construct '{m.group(0)}' in {os.path.relpath(f, VERIF)}")
        if re.search(r"^\s*(Variable|Variables|Hypothesis|Hypotheses|Context)\b", s, re.M):
            # allowed only inside sections: crude check - every such line must be between Section and End
            depth = 0
            for line in s.splitlines():
                if re.match(r"\s*Section\s", line):
                    depth += 1
                elif re.match(r"\s*End\s", line) and depth:
                    depth -= 1
                elif re.match(r"\s*(Variable|Variables|Hypothesis|Hypotheses)\b", line) and depth == 0:
                    res["problems"].append(f"Variable/Hypothesis outside a section in {os.path.relpath(f, VERIF)}")
    # Props file discipline: every theorem closed by exact/apply of a lemma, and has a Print Assumptions
    for t in theorems:
        if not re.search(r"Print\s+Assumptions\s+" + re.escape(t) + r"\s*\.", src):
            res["problems"].append(f"theorem {t} has no Print Assumptions")
    # run coqc on the Props file to capture Print Assumptions output
    rc, out = sh(f"timeout 600 coqc -Q theories AHK theories/Props/{pid}.v", cwd=COQ, timeout=630)
    if rc != 0:
        res["problems"].append("coqc Props failed: " + out[-1500:])
        return res
    blocks = []
    cur = None
    for line in out.splitlines():
        if line.startswith("Closed under the global context"):
            blocks.append([])
            cur = None
        elif line.startswith("Axioms:"):
            cur = []
            blocks.append(cur)
        elif cur is not None and line.strip():
            if re.match(r"^\S", line):
                cur.append(line.strip())
            elif cur:
                cur[-1] += " " + line.strip()
    pa = re.findall(r"Print\s+Assumptions\s+([A-Za-z0-9_']+)", src)
    if len(blocks) != len(pa):
        res["problems"].append(f"Print Assumptions blocks {len(blocks)} != commands {len(pa)}")
    allowed = allowed_axioms(pid)
    for name, ax in zip(pa, blocks):
        res["axioms"][name] = ax
        for a in ax:
            an = a.split(":")[0].strip()
            if an not in allowed:
                res["problems"].append(f"theorem {name} depends on unexpected axiom {an}")
    if tier == "thorough" and not res["problems"]:
        # independent re-check of the compiled property file and everything it depends on
        rc, out = sh(f"timeout 1500 coqchk -silent -o -Q theories AHK AHK.Props.{pid}", cwd=COQ, timeout=1600)
        res["coqchk"] = " ".join(out.split())[-700:]
        res["checker_cmd"] += f" ; coqchk -silent -o -Q theories AHK AHK.Props.{pid}"
        if rc != 0:
            res["problems"].append("coqchk failed: " + out[-800:])
    res["discharged"] = len([t for t in theorems if t in res["axioms"]]) if not res["problems"] else 0
    res["ok"] = not res["problems"] and res["discharged"] == res["obligations"] and res["obligations"] > 0
    return res


def allowed_axioms(pid):
    """Standard-library axioms a property is recorded as relying on (coq/axioms.json)."""
    p = os.path.join(COQ, "axioms.d", pid + ".json")
    if os.path.exists(p):
        return set(json.load(open(p)))
    return set()


# ----------------------------------------------------------------------------
# findings
# ----------------------------------------------------------------------------

def load_findings(pid):
    out = []
    p = os.path.join(VERIF, "known_findings.json")
    if os.path.exists(p):
        out += json.load(open(p))["findings"]
    for q in sorted(glob.glob(os.path.join(VERIF, "known_findings.d", "*.json"))):
        out += json.load(open(q))
    return [f for f in out if f["property"] == pid and f["kind"] == "known"]


def match_finding(findings, key):
    for f in findings:
        m = f.get("match", {})
        if "key" in m and m["key"] == key:
            return f
        if "key_regex" in m and re.fullmatch(m["key_regex"], key):
            return f
    return None


# ----------------------------------------------------------------------------
# main check
# ----------------------------------------------------------------------------

def write_replay(pid, v):
    d = os.path.join(VERIF, "evidence", "replay") if REPO == "/repo" else os.path.join(BUILD, "scratch_replay")
    os.makedirs(d, exist_ok=True)
    h = hashlib.sha1(json.dumps(v, sort_keys=True, default=str).encode()).hexdigest()[:12]
    path = os.path.join(d, f"{pid}_{h}.json")
    json.dump(v, open(path, "w"), indent=1, sort_keys=True, default=str)
    return path


def run_check(pid, tier, replay=None):
    t0 = time.time()
    seed = int(os.environ.get("VERIF_SEED", "0") or 0)
    # evidence under /verif/evidence always describes a run against /repo itself; runs against a scratch
    # copy (VERIF_REPO, used for mutants and seeded changes) write elsewhere
    ev_path = (os.path.join(VERIF, "evidence", pid + ".json") if REPO == "/repo"
               else os.path.join(BUILD, "scratch_evidence", pid + ".json"))
    os.makedirs(os.path.dirname(ev_path), exist_ok=True)
    violations = []   # dicts: key, what, replay payload, found_input(bool)
    pr = proof_stage(pid, tier)
    for prob in pr["problems"]:
        violations.append(dict(key="proof:" + prob[:80], what="proof obligation no longer checks: " + prob,
                               payload=dict(kind="proof", theorem_file=f"coq/theories/Props/{pid}.v", problem=prob),
                               found_input=False))
    cov = {}
    # watchdog: a check must terminate on broken code too.  A harness that is still running after the limit
    # (default 30 min quick / 120 min thorough, VERIF_WATCHDOG_S overrides) is interrupted and the run is
    # reported as a violation without failing input (typically: the changed code waits for something forever).
    limit = int(os.environ.get("VERIF_WATCHDOG_S", "0") or 0) or (1800 if tier == "quick" else 7200)

    class HarnessTimeout(Exception):
        pass

    def on_alarm(signum, frame):
        raise HarnessTimeout(f"correspondence harness still running after {limit} s")
    try:
        import signal
        signal.signal(signal.SIGALRM, on_alarm)
        signal.alarm(limit)
    except Exception:
        pass
    try:
        exe = build_driver(pid)
        mod = importlib.import_module(pid.lower())
        ctx = dict(pid=pid, tier=tier, seed=seed, driver=exe, repo=REPO, verif=VERIF, replay=replay)
        out = mod.run(ctx)
        cov = out.get("coverage", {})
        violations += out.get("violations", [])
    except HarnessTimeout as e:
        tb = traceback.format_exc()
        violations.append(dict(key="harness-did-not-terminate", what=str(e) + " (the implementation under test probably "
                               "waits forever on some generated case): " + tb[-900:],
                               payload=dict(kind="harness-timeout", traceback=tb), found_input=False))
    except Exception:
        tb = traceback.format_exc()
        violations.append(dict(key="harness-exception", what="correspondence harness failed: " + tb[-1500:],
                               payload=dict(kind="harness", traceback=tb), found_input=False))
    try:
        signal.alarm(0)
    except Exception:
        pass
    findings = load_findings(pid)
    known_lines, real = [], []
    seen_keys = set()
    for v in violations:
        if v["key"] in seen_keys:
            continue
        seen_keys.add(v["key"])
        f = match_finding(findings, v["key"])
        if f is not None:
            known_lines.append(f"KNOWN-FINDING: property={pid} {f['what']}")
        else:
            real.append(v)
    for line in sorted(set(known_lines)):
        print(line)
    for v in real[:20]:
        path = write_replay(pid, dict(property=pid, key=v["key"], what=v["what"], **v.get("payload", {})))
        tail = "" if v.get("found_input") else " no-failing-input-found"
        print(f"VIOLATION property={pid} replay={path}{tail}")
        print(f"  {v['what'][:300]}")
    trusted = list(GLOBAL_TRUSTED)
    axs = sorted({a for l in pr["axioms"].values() for a in l})
    trusted.append("Print Assumptions: " + ("all property theorems closed under the global context" if not axs
                                             else "axioms used: " + "; ".join(axs)))
    chk = os.path.join(BUILD, "coqchk.txt")
    if os.path.exists(chk):
        trusted.append("coqchk -o (setup): " + " ".join(open(chk).read().split())[:600])
    if pr.get("coqchk"):
        trusted.append("coqchk -o (this run): " + pr["coqchk"])
    trusted += cov.pop("trusted_base_extra", [])
    coverage = dict(
        obligations=pr["obligations"], discharged=pr["discharged"], checker_cmd=pr["checker_cmd"],
        trusted_base=trusted, theorems=pr["theorems"], print_assumptions=pr["axioms"],
    )
    coverage.update(cov)
    coverage.setdefault("evaluations", 0)
    coverage.setdefault("distinct_nontrivial", 0)
    coverage.setdefault("samples", [])
    coverage["known_findings_reported"] = sorted(set(known_lines))
    ev = dict(property_id=pid, tier=tier, seed=seed, level="proof", coverage=coverage,
              assumptions=cov.get("assumptions", []) if isinstance(cov.get("assumptions"), list) else [],
              wall_s=round(time.time() - t0, 2), violations=len(real))
    coverage.pop("assumptions", None)
    json.dump(ev, open(ev_path, "w"), indent=1, default=str)
    print(f"{pid} {tier}: obligations {pr['discharged']}/{pr['obligations']}, "
          f"cases {coverage['evaluations']}, violations {len(real)}, known {len(set(known_lines))}, "
          f"{time.time() - t0:.1f}s")
    return 1 if real else 0


def main(argv):
    if "--setup" in argv:
        return setup()
    if not argv:
        print(__doc__)
        return 2
    pid = argv[0]
    tier = os.environ.get("VERIF_TIER", "quick")
    replay = None
    if "--tier" in argv:
        tier = argv[argv.index("--tier") + 1]
    if "--replay" in argv:
        replay = argv[argv.index("--replay") + 1]
    return run_check(pid, tier, replay)


if __name__ == "__main__":
    sys.exit(main(sys.argv[1:]))
