"""Shared harness helpers: model driver, hex, RNG, shrinking, coverage bookkeeping."""
from __future__ import annotations

import collections
import concurrent.futures
import json
import os
import random
import subprocess

BOUNDARY_SIZES = [0, 1, 2, 254, 255, 256, 257, 509, 510, 511, 765, 766, 1023, 1024, 1025, 2048, 2049]


def hx(b) -> str:
    b = bytes(b)
    return b.hex() if b else "-"


def unhx(s: str) -> bytes:
    return b"" if s == "-" else bytes.fromhex(s)


class Driver:
    """Runs the extracted model: one request per line in, one answer per line out."""

    def __init__(self, exe: str, workers: int = 12):
        if not exe or not os.path.exists(exe):
            raise RuntimeError(f"model driver missing: {exe}")
        self.exe = exe
        self.workers = workers

    def _run(self, lines):
        if not lines:
            return []
        p = subprocess.run([self.exe], input="\n".join(lines) + "\n", stdout=subprocess.PIPE,
                           stderr=subprocess.PIPE, text=True, timeout=3000)
        out = p.stdout.split("\n")
        if out and out[-1] == "":
            out.pop()
        if p.returncode != 0 or len(out) != len(lines):
            raise RuntimeError(f"driver failed rc={p.returncode} answers={len(out)}/{len(lines)} {p.stderr[-500:]}")
        return out

    def batch(self, lines):
        lines = list(lines)
        for l in lines:
            if "\n" in l:
                raise ValueError("newline in request")
        if len(lines) < 2000 or self.workers <= 1:
            return self._run(lines)
        n = self.workers
        size = (len(lines) + n - 1) // n
        parts = [lines[i:i + size] for i in range(0, len(lines), size)]
        with concurrent.futures.ThreadPoolExecutor(n) as ex:
            res = list(ex.map(self._run, parts))
        return [x for r in res for x in r]


def rng(seed: int, salt: str = "") -> random.Random:
    return random.Random(f"{seed}/{salt}")


def exc_name(e: BaseException) -> str:
    return type(e).__name__


class Coverage:
    """Counts evaluations, distinct non-trivial cases, keeps samples and histograms."""

    def __init__(self, rule: str):
        self.rule = rule
        self.evaluations = 0
        self._distinct = set()
        self.samples = []
        self.hist = collections.defaultdict(collections.Counter)
        self.extra = {}

    def case(self, canon: str, nontrivial: bool, sample=None, **hist):
        self.evaluations += 1
        if nontrivial:
            self._distinct.add(hash(canon))
        for k, v in hist.items():
            self.hist[k][str(v)] += 1
        if sample is not None and len(self.samples) < 12:
            self.samples.append(sample)

    def to_dict(self):
        d = dict(evaluations=self.evaluations, distinct_nontrivial=len(self._distinct), rule=self.rule,
                 samples=self.samples,
                 input_distribution={k: dict(sorted(v.items(), key=lambda kv: -kv[1])[:40]) for k, v in self.hist.items()})
        d.update(self.extra)
        return d


def violation(key: str, what: str, found_input: bool, **payload):
    return dict(key=key, what=what, found_input=found_input, payload=payload)


def shrink_bytes(b: bytes, still_fails, budget: int = 400) -> bytes:
    """Delta-debugging style shrinking of a byte string."""
    b = bytes(b)
    n = 0
    chunk = max(1, len(b) // 2)
    while chunk >= 1 and n < budget:
        i = 0
        progressed = False
        while i < len(b) and n < budget:
            cand = b[:i] + b[i + chunk:]
            n += 1
            if cand != b and still_fails(cand):
                b = cand
                progressed = True
            else:
                i += chunk
        if not progressed:
            chunk //= 2
    return b


def shrink_list(lst, still_fails, budget: int = 300):
    lst = list(lst)
    n = 0
    i = 0
    while i < len(lst) and n < budget:
        cand = lst[:i] + lst[i + 1:]
        n += 1
        if still_fails(cand):
            lst = cand
        else:
            i += 1
    return lst


def corpus_path(verif, pid):
    return os.path.join(verif, "harness", "corpus", pid + ".json")


def load_corpus(verif, pid):
    p = corpus_path(verif, pid)
    if os.path.exists(p):
        return json.load(open(p))
    return []


def _sweep_old_case_dirs(base: str, max_age_s: int = 7200) -> None:
    import shutil
    import time
    now = time.time()
    try:
        for n in os.listdir(base):
            q = os.path.join(base, n)
            if os.path.isdir(q) and n.startswith("p") and now - os.path.getmtime(q) > max_age_s:
                shutil.rmtree(q, ignore_errors=True)
    except OSError:
        pass


def coq_eval(verif: str, pid: str, name: str, body: str, timeout: int = 900) -> str:
    """Evaluate a generated Coq file (e.g. `Eval vm_compute in ...`) against the compiled theories.
    Returns coqc's stdout+stderr; raises on failure.  Files live under build/cases/<pid>/."""
    # one directory per process: concurrent checks of the same property must not see each other's files
    base = os.path.join(verif, "build", "cases", pid)
    d = os.path.join(base, f"p{os.getpid()}")
    os.makedirs(d, exist_ok=True)
    _sweep_old_case_dirs(base)
    path = os.path.join(d, name + ".v")
    with open(path, "w") as f:
        f.write(body)
    p = subprocess.run(f"ulimit -s unlimited 2>/dev/null; timeout {timeout} coqc -Q {verif}/coq/theories AHK {name}.v",
                       shell=True, cwd=d, stdout=subprocess.PIPE, stderr=subprocess.STDOUT, text=True, timeout=timeout + 30)
    if p.returncode != 0:
        raise RuntimeError(f"coq_eval {name} failed rc={p.returncode}: {p.stdout[-2000:]}")
    return p.stdout
