"""C07 stream `realparse`: Model/HttpSecure.v INSTANTIATED AT THE REAL CIPHER (Proofs/HttpSecureReal.v:
secure_feeds (cp_open key), cp_open = the RFC 8439 ChaCha20-Poly1305 of Model/ChaChaPoly.v) is evaluated inside Coq
(`vm_compute`, no extraction, no table of sealed frames, no harness-side cryptography on the model side) and
compared, read by read, with what the real SecureHomeKitProtocol.data_received + HttpResponse parser deliver:
the messages (kind, code, version, reason, headers, body) handed over by EACH read and whether the session died.
Frames are sealed by `cryptography` directly, then left alone / bit-flipped / swapped / replayed / sealed for a
later counter / truncated, the plaintext well-formed or mutated, the ciphertext cut into reads inside prefixes,
ciphertexts and tags.  The implementation's answers are written into the generated file and compared in Gallina;
one code per case comes back (1 agree, 0 disagree, 2 model class illformed/unmodelled: not compared).
An independent oracle (strict reference parser over the plaintext of the blocks a reference receiver accepts)
decides whether a disagreement is the implementation's fault.  run_real(...) -> info dict."""
import concurrent.futures
import re

from common import coq_eval, hx, rng
from ref.http_ref import ref_parse
import c07sec

HEAD = """From Coq Require Import List NArith ZArith Bool.
From AHK Require Import Lib.ByteStr Model.Http Model.HttpSecure Model.ChaChaPoly Proofs.FrameReal Proofs.HttpSecureReal.
From AHK Require Model.Frame.
Import ListNotations.
Definition eqb_b := ChaChaPoly.beq_bytes.
Fixpoint eqb_h (a b : list (bytes * bytes)) : bool :=
  match a, b with [], [] => true | (n, v) :: a', (n', v') :: b' => eqb_b n n' && eqb_b v v' && eqb_h a' b' | _, _ => false end.
Definition eqb_m (a b : msg) : bool :=
  (match m_kind a, m_kind b with KHttp, KHttp => true | KEvent, KEvent => true | _, _ => false end)
  && Z.eqb (m_code a) (m_code b) && eqb_b (m_version a) (m_version b) && eqb_b (m_reason a) (m_reason b)
  && eqb_h (m_headers a) (m_headers b) && eqb_b (m_body a) (m_body b).
Fixpoint eqb_ms (a b : list msg) : bool :=
  match a, b with [], [] => true | x :: a', y :: b' => eqb_m x y && eqb_ms a' b' | _, _ => false end.
Definition is_dead (s : sstate) : bool := match fst s with Frame.Dead => true | _ => false end.
(* reads fed one after the other to ONE session; want = per read (session dead afterwards?, messages delivered by that read);
   the implementation is not fed after an exception, so the lists end together *)
Fixpoint chk (key : bytes) (s : sstate) (reads : list bytes) (want : list (bool * list msg)) : bool :=
  match reads, want with
  | [], [] => true
  | d :: reads', (dead, ms) :: want' =>
      let (s', o) := secure_feed (cp_open key) s d in
      eqb_ms o ms && Bool.eqb dead (is_dead s') && chk key s' reads' want'
  | _, _ => false
  end.
Definition code (key : bytes) (ctr : N) (reads : list bytes) (want : list (bool * list msg)) (fin : option N) : N :=
  match secure_feeds (cp_open key) (sinit ctr) reads with
  | ((_, Halt Illformed), _) | ((_, Halt Unmodelled), _) => 2%N
  | ((_, HFuel), _) => 3%N
  | ((r, _), _) =>
      if chk key (sinit ctr) reads want
         && match r, fin with Frame.Live _ c, Some c' => N.eqb c c' | Frame.Dead, None => true | _, _ => false end
      then 1%N else 0%N
  end.
"""


def _cb(b) -> str:
    if isinstance(b, str):
        b = b.encode("utf-8", "surrogateescape")
    return "[" + ";".join(str(x) for x in bytes(b)) + "]%N"


def _cmsg(m) -> str:
    kind, code, version, reason, headers, body = m
    hs = "; ".join(f"({_cb(n)}, {_cb(v)})" for n, v in headers)
    return f"(mkM {'KHttp' if kind == 'H' else 'KEvent'} {_cb(version)} ({int(code)})%Z {_cb(reason)} [{hs}] {_cb(body)})"


def impl_reads(key, ctr, reads):
    """the real SecureHomeKitProtocol on ONE live object -> ([(dead, [raw messages of that read])], final a2c_counter|None)"""
    from aiohomekit.controller.ip.connection import SecureHomeKitProtocol
    log = []

    def snap(kind, r):
        log.append((kind, r.code, r.version, r.reason, [(n, v) for n, v in r.headers], bytes(r.body)))

    class Sink:
        def done(self):
            return False

        def set_result(self, r):
            snap("H", r)

    class Owner:
        def event_received(self, r):
            snap("E", r)

    proto = SecureHomeKitProtocol(Owner(), key, c07sec.OTHER_KEY)
    proto.a2c_counter = ctr
    proto.result_cbs = [Sink() for _ in range(sum(len(p) for p in reads) // 8 + 4)]
    per, dead = [], False
    for p in reads:
        n0 = len(log)
        try:
            proto.data_received(p)
        except Exception:  # noqa - an escaping exception ends the session (asyncio closes the transport)
            dead = True
        per.append((dead, log[n0:]))
        if dead:
            break
    return per, (None if dead else proto.a2c_counter)


def _reference(key, ctr, stream):
    """independent of model and implementation: a reference receiver (cryptography) deframes the whole stream;
    -> (plaintext accepted before the first bad/incomplete frame, died?)"""
    from cryptography.hazmat.primitives.ciphers.aead import ChaCha20Poly1305
    c = ChaCha20Poly1305(key)
    pos, plain, dead = 0, b"", False
    while len(stream) - pos >= 2:
        n = int.from_bytes(stream[pos:pos + 2], "little")
        if len(stream) - pos < 2 + n + 16:
            break
        try:
            plain += c.decrypt(c07sec.nonce(ctr), stream[pos + 2:pos + 2 + n + 16], stream[pos:pos + 2])
        except Exception:  # noqa
            dead = True
            break
        ctr += 1
        pos += 2 + n + 16
    return plain, dead


def run_real(ctx, cov, add, canon_msgs, catalogue, rand_msg, mutate):
    r = rng(ctx["seed"], "c07real")
    quick = ctx["tier"] == "quick"
    cat = catalogue()
    core = cat[:5] + cat[7:10]
    muts = ["none", "none", "none", "flip", "fliptag", "swap", "replay", "laterctr", "trunc", "malformed", "none", "fliplen"]
    cases = []
    for i in range(len(muts) * (1 if quick else 8)):
        mut = muts[i % len(muts)]
        if i % 2:
            ms = [rand_msg(r, maxbody=r.choice([10, 40, 120])) for _ in range(r.choice([1, 2, 3]))]
            p = b"".join(m[0] for m in ms)
        else:
            p = r.choice(core)[0] + r.choice(core)[0] + (r.choice(core)[0] if i % 4 == 0 else b"")
        if len(p) > 420:
            p = r.choice(core)[0] + r.choice(core)[0]
        if mut == "malformed":
            p = mutate(r, p)
        blocks = c07sec.partitions(r, p, 4)[i % 4] if i % 3 else c07sec.blockify(r, p, "random")
        key = r.getrandbits(256).to_bytes(32, "little")
        ctr = r.choice(c07sec.CTRS[:8])
        frames, _ = c07sec.seal_blocks(key, ctr, blocks)
        j = r.randrange(len(frames))
        if mut == "flip":
            f = bytearray(frames[j]); f[r.randrange(2, len(f))] ^= 1 << r.randrange(8); frames[j] = bytes(f)
        elif mut == "fliptag":
            f = bytearray(frames[j]); f[-1] ^= 0x80; frames[j] = bytes(f)
        elif mut == "fliplen":
            f = bytearray(frames[j]); f[0] ^= 1; frames[j] = bytes(f)
        elif mut == "swap" and len(frames) >= 2:
            frames[0], frames[1] = frames[1], frames[0]
        elif mut == "replay":
            frames.insert(j + 1, frames[j])
        elif mut == "laterctr":
            frames[j] = c07sec.seal_blocks(key, ctr + j + 1, [blocks[j]])[0][0]
        stream = b"".join(frames)
        if mut == "trunc" and len(stream) > 3:
            stream = stream[: r.randrange(1, len(stream))]
        n = len(stream)
        ends, pos = [], 0
        for f in frames:
            pos += len(f)
            ends.append(pos)
        hot = sorted({c for e in ends for c in (e - 17, e - 16, e - 1, e, e + 1, e + 2) if 0 < c < n})
        k = r.choice([0, 1, 2, 3, 6])
        cuts = sorted({(r.choice(hot) if hot and r.random() < 0.6 else r.randrange(1, max(2, n))) for _ in range(k)} - {0, n})
        cuts = [c for c in cuts if 0 < c < n]
        pts = [0] + cuts + [n]
        reads = [stream[a:b] for a, b in zip(pts, pts[1:])]
        cases.append(dict(key=key, ctr=ctr, blocks=blocks, mut=mut, stream=stream, reads=reads, cuts=cuts))
    body, impl_res = [], []
    for c in cases:
        per, fin = impl_reads(c["key"], c["ctr"], c["reads"])
        impl_res.append((per, fin))
        want = "; ".join("(%s, [%s])" % ("true" if dead else "false", "; ".join(_cmsg(m) for m in ms_)) for dead, ms_ in per)
        rd = "; ".join(_cb(s) for s in c["reads"][: len(per)])
        body.append("Eval vm_compute in (code %s %d [%s] [%s] %s)." %
                    (_cb(c["key"]), c["ctr"], rd, want, "None" if fin is None else "(Some %d%%N)" % fin))
    nsh = 4 if quick else 8
    per_sh = (len(body) + nsh - 1) // nsh
    shards = [body[i:i + per_sh] for i in range(0, len(body), per_sh)]

    def ev(i):
        return coq_eval(ctx["verif"], ctx["pid"], f"c07real{i}", HEAD + "\n".join(shards[i]) + "\n", timeout=900)
    with concurrent.futures.ThreadPoolExecutor(len(shards)) as ex:
        outs = list(ex.map(ev, range(len(shards))))
    codes = [int(x) for o in outs for x in re.findall(r"=\s*(\d+)%?N?\s*:\s*N", o)]
    info = dict(cases=len(cases), mutations={m: sum(1 for c in cases if c["mut"] == m) for m in sorted(set(muts))},
                ciphertext_bytes=sorted({len(c["stream"]) for c in cases})[:40], start_counters=sorted({c["ctr"] for c in cases}),
                reads_per_case=sorted({len(c["reads"]) for c in cases}),
                evaluated_by="vm_compute inside Coq over Proofs/HttpSecureReal.v (secure_feeds (cp_open key)), no extraction, no table",
                agree=None, not_compared=None, disagreements=None)
    if len(codes) != len(cases):
        add("realparse:model-eval-failed", f"vm_compute returned {len(codes)} answers for {len(cases)} cases", False,
            broken="correspondence Proofs/HttpSecureReal.v <-> SecureHomeKitProtocol.data_received + parser")
        return info
    info.update(agree=codes.count(1), not_compared=codes.count(2) + codes.count(3), disagreements=codes.count(0))
    for c, (per, fin), code in zip(cases, impl_res, codes):
        delivered = [m for _, ms_ in per for m in ms_]
        died = bool(per and per[-1][0])
        cov.case("R" + hx(c["stream"][:48]) + repr(c["cuts"]), bool(delivered) or died,
                 sample=dict(stream="realparse", mutation=c["mut"], ciphertext_len=len(c["stream"]), cuts=c["cuts"], code=code)
                 if len(cov.samples) < 40 and c["mut"] in ("swap", "none") else None,
                 stream="R-realparse-vm_compute", real_mutation=c["mut"], real_code=code, real_reads=len(c["reads"]))
        if code != 0:
            continue
        plain, ref_dead = _reference(c["key"], c["ctr"], c["stream"])
        msgs, status = ref_parse(plain)
        replay = dict(stream="realparse", session_key=hx(c["key"]), a2c_counter=c["ctr"], mutation=c["mut"],
                      plaintext_blocks=[hx(b) for b in c["blocks"]], ciphertext=hx(c["stream"]), cuts=c["cuts"],
                      impl=canon_msgs("crash" if died else "run", delivered), impl_final_counter=fin)
        if status in ("complete", "incomplete") and c["mut"] != "malformed":
            want = canon_msgs("crash" if ref_dead else "run", msgs)
            if canon_msgs("crash" if died else "run", delivered) != want:
                add("realparse:wf:" + c["mut"], f"encrypted session ({c['mut']} stream, reads cut at {c['cuts']}): the messages delivered / the end "
                    "of the session are not those of the blocks a reference ChaCha20-Poly1305 receiver accepts", True, expected=want, **replay)
                continue
        add("realparse:model-mismatch", "per-read messages / session end differ from secure_feeds (cp_open key) (model at the real cipher)",
            False, broken="correspondence Proofs/HttpSecureReal.v <-> SecureHomeKitProtocol.data_received + parser", **replay)
    cov.extra["realparse_stream"] = info
    return info
