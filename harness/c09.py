"""C09 correspondence: HomeKitConnection.request/get/put/post/*_json/post_tlv and the IpPairing API
(plain and encrypted sessions, on an in-memory transport) vs Model/Request.v.

Streams
  req   real API calls -> recorded transport.write/writelines calls -> requests.  For each request:
        exactly one transport call; the model's render of the leniently extracted abstract request
        (method, target, connected host, body kind, body value in the key order used) must reproduce
        the bytes; the Gallina strict parser must read them back; the API-level model shapes
        (read URL, write/subscribe payloads, per-aid grouping) must agree; the abstract request is
        compared set-wise with what the call asked for; the Python strict grammar is the oracle.
  json  hkjson.dump_bytes on nested values (unicode, control characters, 64-bit boundaries) vs jprint.
  mut   mutated/malformed request bytes: Gallina parse_req vs the independent Python grammar.
  url   read URLs and mutations of them: parse_read_url vs the Python URL grammar.
"""
from __future__ import annotations

import asyncio
import itertools

from common import Coverage, Driver, coq_eval, hx, rng, unhx, violation
from ref import c09_reqgrammar as G
from ref.c09_accessory import Accessory, FakeSock, MemTransport, accessories_doc, tlv_dec, tlv_enc

HOSTS = [
    ("v4", "10.0.0.2"), ("v4", "192.168.1.254"), ("v4", "127.0.0.1"),
    ("v6", "2001:db8::1"), ("v6", "::1"), ("v6", "fd00:1234:5678:9abc:def0:1234:5678:9abc"), ("v6", "::ffff:10.0.0.1"),
    ("v6s", "fe80::1%eth0"), ("v6s", "fe80::aabb:ccff:fedd:eeff%wlan0"), ("v6s", "fe80::1%3"), ("v6s", "fe80::2%en0.100"),
]
AIDS = [1, 2, 10, 4294967295, 18446744073709551615]
IIDS = [1, 2, 3, 9, 10, 11, 255, 256, 65535, 4294967296]
CT_JSON, CT_TLV = "json", "tlv"
PAIRING_ID = "AA:BB:CC:DD:EE:FF"
IOS_ID = "decc6fa3-de3e-41c9-adba-ef7409821bfc"

INT_EDGES = [0, 1, -1, 9, 10, 255, 256, 65535, 2 ** 31 - 1, -2 ** 31, 2 ** 32, 2 ** 53 + 1, 2 ** 63 - 1, 2 ** 63,
             2 ** 64 - 1, -2 ** 63]
STR_ATOMS = ["", "a", " ", "  ", "\t", "\n", "\r", "\r\n", "\"", "\\", "/", "\x00", "\x01", "\x08", "\x0b", "\x0c",
             "\x1f", "\x7f", "\x80", "\u00e9", "\u2028", "\u00a0", "\ufeff", "\U0001F600", "\u6f22\u5b57", "{\"a\": 1}", "a b",
             "Content-Length: 5\r\n\r\n", "\\u0041", "\\\"", "true", "null"]


# ---------------------------------------------------------------------------- value <-> driver tokens
def jtoks(v):
    if v is None:
        return ["n"]
    if v is True:
        return ["t"]
    if v is False:
        return ["f"]
    if isinstance(v, int):
        return ["i%d" % v]
    if isinstance(v, str):
        return ["s" + hx(v.encode("utf-8"))]
    if isinstance(v, G.Obj):
        out = ["o%d" % len(v)]
        for k, x in v:
            out.append(hx(k.encode("utf-8")))
            out += jtoks(x)
        return out
    if isinstance(v, dict):
        out = ["o%d" % len(v)]
        for k, x in v.items():
            out.append(hx(k.encode("utf-8")))
            out += jtoks(x)
        return out
    if isinstance(v, (list, tuple)):
        out = ["a%d" % len(v)]
        for x in v:
            out += jtoks(x)
        return out
    raise TypeError(type(v).__name__)


def ints_ok(v):
    if isinstance(v, bool) or v is None or isinstance(v, str):
        return True
    if isinstance(v, int):
        return -2 ** 63 <= v < 2 ** 64
    if isinstance(v, dict):
        return all(ints_ok(x) for x in v.values())
    return all(ints_ok(x) for x in v)


def depth(v):
    d, stack = 0, [(v, 1)]
    while stack:
        x, k = stack.pop()
        if isinstance(x, dict):
            x = list(x.values())
        if isinstance(x, (list, tuple)):
            d = max(d, k)
            stack += [(y, k + 1) for y in x]
    return d


def nest(n, leaf=1):
    v = leaf
    for _ in range(n):
        v = [v]
    return v


def encodable(v):
    """Inside orjson's domain as the model has it: 64-bit integers, at most 254 levels of nesting."""
    return ints_ok(v) and depth(v) <= 254


def op_json_values(op):
    k = op[0]
    if k in ("put_json", "post_json"):
        return [op[2]]
    if k == "put_characteristics":
        return [{"characteristics": [{"aid": a, "iid": i, "value": v} for a, i, v in op[1]]}]
    return []


def gen_str(r):
    n = r.choice([0, 1, 1, 2, 3, 5])
    return "".join(r.choice(STR_ATOMS + [chr(r.randrange(0x20, 0x7f)), chr(r.randrange(0, 0x20))]) for _ in range(n))


def gen_value(r, depth=0):
    k = r.random()
    if depth >= 4 or k < 0.45:
        t = r.random()
        if t < 0.1:
            return None
        if t < 0.25:
            return r.random() < 0.5
        if t < 0.55:
            return r.choice(INT_EDGES + [r.randrange(-1000, 1000), r.randrange(-2 ** 63, 2 ** 64)])
        return gen_str(r)
    if k < 0.72:
        return [gen_value(r, depth + 1) for _ in range(r.choice([0, 1, 2, 3, 4]))]
    d = {}
    for _ in range(r.choice([0, 1, 2, 3, 4])):
        d[gen_str(r) if r.random() < 0.5 else r.choice(["aid", "iid", "value", "ev", "k", "status"])] = gen_value(r, depth + 1)
    return d


# ---------------------------------------------------------------------------- the KIND of iterable that carries an API argument
# The pairing API is declared over Iterable[...]: besides list/set/tuple a caller may pass any re-iterable object (deque, dict
# view, a class with only __iter__) or a ONE-SHOT iterable (generator, iter(...), map / chain / zip object) whose items are gone
# after the first complete walk (Model/RequestArgs.v: akind = Reiterable | OneShot).
ONE_SHOT_KINDS = ("gen", "iter", "map", "chain", "zip")
REITER_KINDS = ("list", "tuple", "deque", "dictvalues", "bag")
SET_KINDS = ("set", "frozenset", "dictkeys")                   # ids only: iteration order is the container's own
ARG_KINDS = REITER_KINDS + ONE_SHOT_KINDS                      # order-preserving kinds (writes, subscriptions)
READ_KINDS = ARG_KINDS + SET_KINDS


class Bag:
    """An Iterable and nothing more: no __len__, no __getitem__; every __iter__ call starts afresh."""

    def __init__(self, items):
        self._items = list(items)

    def __iter__(self):
        return iter(list(self._items))

    def __getattr__(self, name):
        raise AttributeError("harness Bag has only __iter__ (touched %r)" % name)


def wrap(kind, items):
    """The caller's argument: `items` carried by an iterable of the given kind."""
    import collections
    items = list(items)
    if kind == "list":
        return items
    if kind == "tuple":
        return tuple(items)
    if kind == "set":
        return set(items)
    if kind == "frozenset":
        return frozenset(items)
    if kind == "dictkeys":
        return dict.fromkeys(items).keys()
    if kind == "deque":
        return collections.deque(items)
    if kind == "dictvalues":
        return dict(enumerate(items)).values()
    if kind == "bag":
        return Bag(items)
    if kind == "gen":
        return (x for x in items)
    if kind == "iter":
        return iter(items)
    if kind == "map":
        return map(tuple, items)
    if kind == "chain":
        return itertools.chain(items[:1], items[1:])
    if kind == "zip":
        return zip(*[list(col) for col in zip(*items)])
    raise ValueError(kind)


def arg_kind(op):
    """Name of the iterable kind an op passes to the pairing API ('-' for calls that take no iterable)."""
    k = op[0]
    if k == "get_characteristics":
        return op[2] if isinstance(op[2], str) else op[2].__name__
    if k in ("put_characteristics", "subscribe", "unsubscribe"):
        return op[2] if len(op) > 2 else "list"
    return "-"


def model_kind(op):
    return "one" if arg_kind(op) in ONE_SHOT_KINDS else "re"


# ---------------------------------------------------------------------------- advertised text vs kernel text of one address
ZONES = {"7": "eth0", "9": "wlan0"}        # scripted if_indextoname: zone index -> interface name


def kernel_spelling(text: str) -> str:
    """The peer address as getpeername() reports it (inet_ntop form, lower case, compressed; interface NAME for a known zone
    index) for a candidate address as it was advertised or stored."""
    import socket
    if ":" not in text:
        return text
    addr, _, zone = text.partition("%")
    try:
        addr = socket.inet_ntop(socket.AF_INET6, socket.inet_pton(socket.AF_INET6, addr))
    except OSError:
        return text
    zone = ZONES.get(zone, zone)
    return addr + ("%" + zone if zone else "")


# other spellings of the catalogue's addresses, as a stored pairing file / a TXT record / a user may carry them
RESPELL = {
    "2001:db8::1": [("uncompressed", "2001:0db8:0000:0000:0000:0000:0000:0001"), ("upper-case", "2001:DB8::1"),
                    ("partly-compressed", "2001:db8:0:0::1")],
    "::1": [("uncompressed", "0:0:0:0:0:0:0:1")],
    "fd00:1234:5678:9abc:def0:1234:5678:9abc": [("upper-case", "FD00:1234:5678:9ABC:DEF0:1234:5678:9ABC")],
    "::ffff:10.0.0.1": [("v4-mapped-hex", "::ffff:a00:1"), ("v4-mapped-upper", "::FFFF:10.0.0.1"),
                        ("v4-mapped-uncompressed", "0:0:0:0:0:ffff:10.0.0.1")],
    "fe80::1%eth0": [("zone-index", "fe80::1%7"), ("upper-case", "FE80::1%eth0"), ("uncompressed", "fe80:0:0:0:0:0:0:1%eth0")],
    "fe80::aabb:ccff:fedd:eeff%wlan0": [("zone-index", "fe80::aabb:ccff:fedd:eeff%9"), ("upper-case", "FE80::AABB:CCFF:FEDD:EEFF%wlan0")],
    "fe80::1%3": [("uncompressed", "fe80:0000:0000:0000:0000:0000:0000:0001%3")],
    "fe80::2%en0.100": [("upper-case", "FE80::2%en0.100")],
}


def respell_scenario(sc, choose):
    """Replace the advertised host texts of a scenario by other spellings of the same addresses (`reach` stays the kernel text)."""
    kinds = []

    def one(h):
        alts = RESPELL.get(h)
        if not alts:
            return h
        kind, text = choose(alts)
        assert kernel_spelling(text) == h, (text, h)
        kinds.append(kind)
        return text
    sc = dict(sc, hosts=[one(h) for h in sc["hosts"]], phases=[dict(ph) for ph in sc["phases"]])
    for ph in sc["phases"]:
        if "new_hosts" in ph:
            ph["new_hosts"] = [one(h) for h in ph["new_hosts"]]
    sc["spelling"] = sorted(set(kinds)) or ["as-kernel"]
    return sc


# ---------------------------------------------------------------------------- implementation side
class Seams:
    """Monkey-patched network seams (no source hooks): aiohappyeyeballs.start_connection and loop.create_connection.
    A scripted network: only the addresses in `reachable` accept; each accepted connection gets its own accessory
    instance (fresh pair-verify / counters) tagged with the peer address; all requests go to one `captured` list."""

    def __init__(self, loop, acc_doc):
        self.loop, self.acc_doc = loop, acc_doc
        self.transports, self.accessories, self.captured = [], [], []
        self.reachable = set()
        self.attempts = []

    def install(self):
        import aiohappyeyeballs
        import aiohomekit.controller.ip.connection as C
        self._he, self._orig = aiohappyeyeballs, aiohappyeyeballs.start_connection
        aiohappyeyeballs.start_connection = self.start_connection
        self._C, self._orig_c = C, getattr(C, "start_connection", None)
        if self._orig_c is not None:
            C.start_connection = self.start_connection
        self.loop.create_connection = self.create_connection

    def uninstall(self):
        self._he.start_connection = self._orig
        if self._orig_c is not None:
            self._C.start_connection = self._orig_c

    async def start_connection(self, addr_infos, **kw):
        # the candidate text is what was ADVERTISED / stored; the socket reports the peer as the KERNEL spells it
        for ai in addr_infos:
            self.attempts.append(ai[4][0])
            peer = kernel_spelling(ai[4][0])
            if peer in self.reachable:
                return FakeSock((peer,) + tuple(ai[4][1:]))
        raise ConnectionRefusedError(111, "scripted network: no reachable address")

    async def create_connection(self, factory, sock=None, **kw):
        proto = factory()
        acc = Accessory(PAIRING_ID, keys()["acc"], self.acc_doc, host=sock.getpeername()[0],
                        conn=len(self.transports), sink=self.captured)
        tr = MemTransport(self.loop, acc, proto)
        self.accessories.append(acc)
        self.transports.append(tr)
        proto.connection_made(tr)
        return tr, proto


class FakeDescription:
    """What IpPairing/SecureHomeKitConnection read from the zeroconf description."""

    def __init__(self, addresses, port):
        self.addresses, self.port, self.name = list(addresses), port, "sim"
        self.address = self.addresses[0]
        self.config_num, self.state_num = 1, 1


class StubCache:
    def get_map(self, _id):
        return None

    def async_create_or_update_map(self, *a, **k):
        return None


class StubController:
    def __init__(self):
        self._char_cache = StubCache()


_KEYS = {}


def keys():
    if not _KEYS:
        from cryptography.hazmat.primitives import serialization
        from cryptography.hazmat.primitives.asymmetric import ed25519
        raw = dict(encoding=serialization.Encoding.Raw, format=serialization.PublicFormat.Raw)
        rawp = dict(encoding=serialization.Encoding.Raw, format=serialization.PrivateFormat.Raw,
                    encryption_algorithm=serialization.NoEncryption())
        acc = ed25519.Ed25519PrivateKey.from_private_bytes(bytes(range(32)))
        ios = ed25519.Ed25519PrivateKey.from_private_bytes(bytes(range(32, 64)))
        _KEYS.update(acc=acc, acc_pub=acc.public_key().public_bytes(**raw).hex(),
                     ios_sk=ios.private_bytes(**rawp).hex(), ios_pub=ios.public_key().public_bytes(**raw).hex())
    return _KEYS


def asked_of(op):
    """What the API call asks for, as a list of abstract requests (set-wise comparable)."""
    k = op[0]
    if k == "get":
        return [dict(method="GET", target=op[1].encode("utf-8"), kind="none")]
    if k in ("put", "post"):
        return [dict(method=k.upper(), target=op[1].encode("utf-8"), kind=op[3], body=op[2])]
    if k in ("put_json", "post_json"):
        return [dict(method=k[:-5].upper(), target=op[1].encode("utf-8"), kind="json", value=op[2])]
    if k == "post_tlv":
        return [dict(method="POST", target=op[1].encode("utf-8"), kind="tlv", body=tlv_enc(op[2]))]
    if k == "request":
        d = dict(method=op[1].upper(), target=op[2].encode("utf-8"), kind=op[3] or "none")
        if op[3]:
            d["body"] = op[4]
        return [d]
    if k == "gather":
        return [a for sub in op[1] for a in asked_of(sub)]
    if k == "identify_unpaired":
        return [dict(method="POST", target=b"/identify", kind="json", value={})]
    if k == "list_accessories":
        return [dict(method="GET", target=b"/accessories", kind="none")]
    if k == "get_characteristics":
        return [dict(method="GET", path=b"/characteristics?id=", ids=set(op[1]), kind="none")]
    if k == "put_characteristics":
        return [dict(method="PUT", target=b"/characteristics", kind="json",
                     value={"characteristics": [{"aid": a, "iid": i, "value": v} for a, i, v in op[1]]})]
    if k in ("subscribe", "unsubscribe"):
        ev = k == "subscribe"
        return [dict(method="PUT", target=b"/characteristics", kind="json",
                     value={"characteristics": [{"aid": a, "iid": i, "ev": ev} for a, i in g]})
                for _, g in ((key, list(grp)) for key, grp in itertools.groupby(op[1], key=lambda p: p[0]))]
    if k == "identify":
        return [dict(method="PUT", target=b"/characteristics", kind="json",
                     value={"characteristics": [{"aid": AIDS[0], "iid": 2, "value": True}]})]
    if k == "list_pairings":
        return [dict(method="POST", target=b"/pairings", kind="tlv", body=tlv_enc([(6, b"\x01"), (0, b"\x05")]))]
    if k == "add_pairing":
        return [dict(method="POST", target=b"/pairings", kind="tlv",
                     body=tlv_enc([(6, b"\x01"), (0, b"\x03"), (1, op[1].encode()), (3, bytes.fromhex(op[2])),
                                   (11, b"\x01" if op[3] == "Admin" else b"\x00")]))]
    if k == "remove_pairing":
        return [dict(method="POST", target=b"/pairings", kind="tlv",
                     body=tlv_enc([(6, b"\x01"), (0, b"\x04"), (1, op[1].encode())]))]
    if k == "image":
        return [dict(method="POST", target=b"/resource", kind="json",
                     value={"aid": op[1], "resource-type": "image", "image-width": op[2], "image-height": op[3]})]
    raise ValueError(k)


async def do_op(obj, op):
    from aiohomekit.http import HttpContentTypes
    ct = {CT_JSON: HttpContentTypes.JSON, CT_TLV: HttpContentTypes.TLV}
    k = op[0]
    if k == "get":
        return await obj.get(op[1])
    if k == "put":
        return await obj.put(op[1], op[2], content_type=ct[op[3]])
    if k == "post":
        return await obj.post(op[1], op[2], content_type=ct[op[3]])
    if k == "put_json":
        return await obj.put_json(op[1], op[2])
    if k == "post_json":
        return await obj.post_json(op[1], op[2])
    if k == "post_tlv":
        return await obj.post_tlv(op[1], [(t, bytearray(v)) for t, v in op[2]])
    if k == "request":
        if op[3]:
            return await obj.request(method=op[1], target=op[2],
                                     headers=[("Content-Length", len(op[4])), ("Content-Type", ct[op[3]].value)], body=op[4])
        return await obj.request(method=op[1], target=op[2])
    if k == "list_accessories":
        return await obj.list_accessories_and_characteristics()
    if k == "get_characteristics":
        return await obj.get_characteristics(wrap(op[2], op[1]) if isinstance(op[2], str) else op[2](op[1]))
    if k == "put_characteristics":
        return await obj.put_characteristics(wrap(op[2], op[1]) if len(op) > 2 else op[1])
    if k == "subscribe":
        return await obj.subscribe(wrap(op[2], op[1]) if len(op) > 2 else op[1])
    if k == "unsubscribe":
        return await obj.unsubscribe(wrap(op[2], op[1]) if len(op) > 2 else op[1])
    if k == "identify":
        return await obj.identify()
    if k == "list_pairings":
        return await obj.list_pairings()
    if k == "add_pairing":
        return await obj.add_pairing(op[1], op[2], op[3])
    if k == "remove_pairing":
        return await obj.remove_pairing(op[1])
    if k == "image":
        return await obj.image(op[1], op[2], op[3])
    raise ValueError(k)


def mutate_held(obj, action, items):
    """In-place updates a caller makes to its own long-lived argument between two API calls."""
    if isinstance(obj, set):
        if action == "add":
            obj.update(items)
        elif action == "discard":
            obj.difference_update(items)
        elif action == "clear_add":
            obj.clear()
            obj.update(items)
        elif action == "swap":                  # same size, different members
            obj.discard(items[0])
            obj.update(items[1:])
        else:
            raise ValueError(action)
    else:
        if action == "add":
            obj.extend(items)
        elif action == "discard":
            for it in items:
                if it in obj:
                    obj.remove(it)
        elif action == "clear_add":
            del obj[:]
            obj.extend(items)
        elif action == "swap":
            obj[0:1] = items[1:]
        elif action == "reverse":
            obj.reverse()
        else:
            raise ValueError(action)


def host_kind(h):
    if not h:
        return "offline"
    return "v4" if ":" not in h else ("v6s" if "%" in h else "v6")


async def run_scenario(sc, acc_doc):
    """One session on ONE HomeKitConnection / IpPairing object.  sc = dict(mode, hosts, port, phases=[...]); a phase =
    dict(via, reach, ops[, new_hosts]): via 'initial' (first connect), 'drop' (the peer closes the TCP connection and the
    library's own connector reconnects), 'close-reopen' (close() then connect again), 'zeroconf-change' (the advertised
    address list changes, then the peer closes).  `reach` is the only address that accepts connections in that phase.
    Returns op records: dict(op, asked, outcome, requests=[Captured], host, via, phase)."""
    import aiohomekit.controller.ip.connection as C
    from aiohomekit.controller.ip.pairing import IpPairing
    loop = asyncio.get_running_loop()
    seams = Seams(loop, acc_doc)
    seams.install()
    records = []
    try:
        if sc["mode"] == "plain":
            conn = C.HomeKitConnection(None, list(sc["hosts"]), sc["port"])
            obj, closer, conn_obj = conn, conn.close, conn
            connect = conn.ensure_connection
        elif sc["mode"] == "discovery":
            # the unpaired-accessory entry point: IpDiscovery owns its own plain HomeKitConnection
            from aiohomekit.controller.ip.discovery import IpDiscovery
            disc = IpDiscovery(StubController(), FakeDescription(sc["hosts"], sc["port"]))
            obj, closer, conn_obj = disc, disc.close, disc.connection
            connect = disc._ensure_connected
        else:
            pd = dict(AccessoryPairingID=PAIRING_ID, AccessoryLTPK=keys()["acc_pub"], iOSPairingId=IOS_ID,
                      iOSDeviceLTSK=keys()["ios_sk"], iOSDeviceLTPK=keys()["ios_pub"],
                      AccessoryIP=sc["hosts"][0], AccessoryIPs=list(sc["hosts"]), AccessoryPort=sc["port"], Connection="IP")
            pairing = IpPairing(StubController(), pd)
            obj, closer, conn_obj = pairing, pairing.close, pairing.connection
            connect = pairing._ensure_connected
        n0 = 0
        peers = []
        env = {}
        conn_via = []
        for pi, ph in enumerate(sc["phases"]):
            via = ph["via"]
            seams.reachable = {ph["reach"]} if ph["reach"] else set()
            ntr = len(seams.transports)
            resub = set(getattr(obj, "subscriptions", ()) or ()) if via != "initial" else set()
            if via == "drop-offline":
                # the peer closes and nothing is reachable: request() must raise and write nothing
                if seams.transports:
                    seams.transports[-1].peer_close()
                await asyncio.sleep(0)
                await asyncio.sleep(0)
                for op in ph["ops"]:
                    try:
                        await asyncio.wait_for(do_op(conn_obj, op), 8)
                        outcome = "ok"
                    except Exception as e:  # noqa
                        outcome = "exc:" + type(e).__name__
                    caps = seams.captured[n0:]
                    n0 = len(seams.captured)
                    records.append(dict(op=op, asked=asked_of(op), outcome=outcome, requests=caps, host=None, via=via, phase=pi,
                                        expect_exc="AccessoryDisconnectedError"))
                peers.append(None)
                continue
            if via == "zeroconf-change" and sc["mode"] == "secure":
                obj.description = FakeDescription(ph["new_hosts"], sc["port"])
            if via in ("drop", "zeroconf-change"):
                if seams.transports:
                    seams.transports[-1].peer_close()
                await asyncio.sleep(0)
                await asyncio.sleep(0)
            elif via == "close-reopen":
                try:
                    await asyncio.wait_for(closer(), 5)
                except Exception:  # noqa
                    pass
                await asyncio.sleep(0)
            try:
                await asyncio.wait_for(connect(), 8)
                outcome = "ok"
                if len(seams.transports) == ntr and via != "initial":
                    outcome = "no-reconnect"
            except Exception as e:  # noqa
                outcome = "exc:" + type(e).__name__
            caps = seams.captured[n0:]
            n0 = len(seams.captured)
            peers.append(ph["reach"])
            conn_via += [via] * (len(seams.transports) - len(conn_via))
            base = dict(host=ph["reach"], via=via, phase=pi)
            if sc["mode"] == "secure" or outcome != "ok":
                records.append(dict(op=("pair_verify",) if sc["mode"] == "secure" else ("connect",),
                                    asked=None if sc["mode"] == "secure" else [], outcome=outcome, requests=caps,
                                    resub=sorted(resub), **base))
            for op in ph["ops"]:
                target_obj = obj
                held = None
                if op[0] == "hold":              # the caller creates a long-lived container it will keep and update
                    env[op[1]] = op[2](op[3])
                    continue
                if op[0] == "mutate":            # ... and updates it IN PLACE between calls
                    mutate_held(env[op[1]], op[2], op[3])
                    continue
                if op[0] == "call_held":         # the SAME object is passed again; asked = its contents at call time
                    held = env[op[2]]
                    snap = list(held)
                    eff = (op[1], snap, type(held)) if op[1] == "get_characteristics" else (op[1], snap)
                    coro = getattr(obj, op[1])(held)
                elif op[0] == "gather":          # several API calls in flight at once on the one live object
                    eff = op
                    subs = []
                    for sub in op[1]:
                        tgt = conn_obj if (sc["mode"] == "secure" and sub[0] in ("get", "put", "post", "put_json", "post_json",
                                                                                   "post_tlv", "request")) else obj
                        subs.append(do_op(tgt, sub))
                    coro = asyncio.gather(*subs)
                elif op[0] == "identify_unpaired":
                    eff = op
                    coro = obj.async_identify()
                else:
                    eff = op
                    if sc["mode"] == "secure" and op[0] in ("get", "put", "post", "put_json", "post_json", "post_tlv", "request"):
                        target_obj = conn_obj
                    coro = do_op(target_obj, op)
                asked = asked_of(eff)
                try:
                    await asyncio.wait_for(coro, 8)
                    outcome = "ok"
                except Exception as e:  # noqa
                    outcome = "exc:" + type(e).__name__
                caps = seams.captured[n0:]
                n0 = len(seams.captured)
                rec = dict(op=eff, asked=asked, outcome=outcome, requests=caps, **base)
                if not all(encodable(x) for x in op_json_values(eff)):
                    rec["expect_encode_error"] = True      # orjson refuses: the call must raise and write nothing
                if held is not None:
                    rec["held"] = "%s %s kept by the caller and updated in place between calls" % (type(held).__name__, op[2])
                    rec["arg_after"] = repr(list(held))[:300]
                records.append(rec)
        # read the attribute only now: reading it earlier could itself change what a caching implementation sends
        host_header = getattr(conn_obj, "host_header", None)
        leftover = b""
        for acc in seams.accessories[-1:]:
            leftover = bytes(acc.plain_buf) or bytes(acc.cipher_buf)
        try:
            await asyncio.wait_for(closer(), 5)
        except Exception:  # noqa
            pass
        calls = [(k, len(ch), sum(len(x) for x in ch)) for tr_ in seams.transports for k, ch in tr_.calls]
        wire = [dict(key=acc.c2a_key, host=acc.host, calls=[ch for _, ch in tr_.calls])
                for tr_, acc in zip(seams.transports, seams.accessories)]
        return dict(records=records, calls=calls, leftover=leftover, wire=wire, conn_via=conn_via,
                    errors=[e for acc in seams.accessories for e in acc.errors],
                    host_header=host_header, last_peer=([p_ for p_ in peers if p_] or [None])[-1], peers=peers,
                    connections=len(seams.transports))
    finally:
        seams.uninstall()


# ---------------------------------------------------------------------------- scenario generators
def rand_ids(r, n=None):
    n = n if n is not None else r.choice([1, 1, 2, 3, 5, 8, 17])
    return [(r.choice(AIDS), r.choice(IIDS)) for _ in range(n)]


def writable(r):
    return (r.choice(AIDS), r.choice([x for x in IIDS if x not in (1, 2)]))


TARGETS = ["/accessories", "/characteristics?id=1.2", "/characteristics", "/pair-setup", "/identify", "/resource",
           "/a", "/", "/x?é=ü", "/a%20b", "*", "/characteristics?id=1.2,1.3&meta=1&perms=1&type=1&ev=1"]


def plain_ops(r, n):
    ops = []
    for _ in range(n):
        t = r.choice(TARGETS)
        k = r.random()
        if k < 0.15:
            ops.append(("get", t))
        elif k < 0.3:
            body = bytes(r.getrandbits(8) for _ in range(r.choice([0, 1, 2, 9, 10, 99, 100, 255, 256, 1023, 1024, 1025, 2500])))
            ops.append((r.choice(["put", "post"]), t, body, r.choice([CT_JSON, CT_TLV])))
        elif k < 0.6:
            ops.append((r.choice(["put_json", "post_json"]), t, gen_value(r)))
        elif k < 0.75:
            items = [(r.choice([0, 1, 3, 5, 6, 10, 11]), bytes(r.getrandbits(8) for _ in range(r.choice([1, 1, 32, 64, 255, 256, 600]))))
                     for _ in range(r.choice([1, 2, 3, 5]))]
            items = [it for i, it in enumerate(items) if i == 0 or items[i - 1][0] != it[0]]
            ops.append(("post_tlv", t, items))
        elif k < 0.85:
            m = r.choice(["get", "Get", "GET", "gEt"])
            ops.append(("request", m, t, None, b""))
        else:
            m = r.choice(["put", "Put", "POST", "post", "PUT"])
            body = G.ref_compact(gen_value(r)) if r.random() < 0.5 else bytes(r.getrandbits(8) for _ in range(r.randrange(1, 40)))
            ops.append(("request", m, t, r.choice([CT_JSON, CT_TLV]), body))
    return ops


def secure_ops(r, n):
    ops = [("list_accessories",)]
    for _ in range(n):
        k = r.random()
        if k < 0.22:
            ids = rand_ids(r)
            ops.append(("get_characteristics", ids, r.choice([list, set, tuple, iter]) if r.random() < 0.5 else r.choice(READ_KINDS)))
        elif k < 0.5:
            cs = [writable(r) + (gen_value(r),) for _ in range(r.choice([1, 1, 2, 3, 6]))]
            ops.append(("put_characteristics", cs) if r.random() < 0.4 else ("put_characteristics", cs, r.choice(ARG_KINDS)))
        elif k < 0.68:
            ids = rand_ids(r)
            if r.random() < 0.5:
                ids.sort()
            api = r.choice(["subscribe", "unsubscribe"])
            ops.append((api, ids) if r.random() < 0.4 else (api, ids, r.choice(ARG_KINDS)))
        elif k < 0.72:
            ops.append(("identify",))
        elif k < 0.77:
            ops.append(("list_pairings",))
        elif k < 0.82:
            ops.append(("add_pairing", gen_ascii(r), bytes(r.getrandbits(8) for _ in range(32)).hex(), r.choice(["User", "Admin"])))
        elif k < 0.86:
            ops.append(("remove_pairing", gen_ascii(r)))
        elif k < 0.9:
            ops.append(("image", r.choice(AIDS), r.choice([0, 1, 640, 1920]), r.choice([0, 480, 1080])))
        elif k < 0.95:
            ops.append(("put_json", "/characteristics", gen_value(r)))
        else:
            ops.append(("get", r.choice(TARGETS)))
    return ops


def gen_ascii(r):
    return "".join(r.choice("abcdef0123456789-:") for _ in range(r.choice([1, 8, 36, 36, 300])))


def single(mode, host, port, ops):
    return dict(mode=mode, hosts=[host], port=port, phases=[dict(via="initial", reach=host, ops=ops)])


def short_ops(r, mode, first):
    """A few requests per connection of a session sequence (at least one, so a cached header would be populated)."""
    if mode == "plain":
        return [("get", "/accessories"), ("put_json", "/characteristics", {"characteristics": [{"aid": 1, "iid": 9, "ev": True}]}),
                ("post_tlv", "/pairings", [(6, b"\x01"), (0, b"\x05")])][: r.choice([1, 2, 3])] + plain_ops(r, r.choice([0, 1, 2]))
    ops = [("list_accessories",)] if first else []
    ops += [("get_characteristics", rand_ids(r, r.choice([1, 3])), list),
            ("put_characteristics", [writable(r) + (gen_value(r),)]),
            (r.choice(["subscribe", "unsubscribe"]), sorted(rand_ids(r, 3)))][: r.choice([1, 2, 3])]
    return ops + secure_ops(r, r.choice([0, 1, 2]))[1:]


def gen_sessions(tier, r):
    """Session sequences on one connection object: connect to A, requests, lose/close/re-advertise, reconnect to B of
    another family or spelling, requests again (and back)."""
    by_kind = {}
    for hk, h in HOSTS:
        by_kind.setdefault(hk, []).append(h)
    scs = []
    kinds = ["v4", "v6", "v6s"]
    # grid: every ordered pair of address kinds (incl. same kind, different address) x mode x transition
    for ka, kb in itertools.product(kinds, kinds):
        a = by_kind[ka][0]
        b = by_kind[kb][1] if ka == kb else by_kind[kb][0]
        for mode in ("plain", "secure"):
            for via in ("drop", "close-reopen", "zeroconf-change"):
                if via == "zeroconf-change" and mode == "plain":
                    continue       # a bare HomeKitConnection has no zeroconf description
                hosts = [a, b] if via != "zeroconf-change" else [a]
                ph = [dict(via="initial", reach=a, ops=short_ops(r, mode, True)),
                      dict(via=via, reach=b, ops=short_ops(r, mode, False))]
                if via == "zeroconf-change":
                    ph[1]["new_hosts"] = [b, by_kind[kb][-1]]
                else:
                    ph.append(dict(via="drop", reach=a, ops=short_ops(r, mode, False)))     # and back
                scs.append(dict(mode=mode, hosts=hosts, port=r.choice([80, 5001, 51826]), phases=ph))
    # random longer histories
    for i in range(40 if tier == "quick" else 800):
        mode = "secure" if i % 2 else "plain"
        hosts = r.sample([h for _, h in HOSTS], r.choice([2, 3, 4]))
        cur = list(hosts)
        ph = [dict(via="initial", reach=r.choice(cur), ops=short_ops(r, mode, True))]
        for _ in range(r.choice([1, 2, 3, 5])):
            via = r.choice(["drop", "drop", "drop", "close-reopen"] + (["zeroconf-change"] if mode == "secure" else []))
            d = dict(via=via, ops=short_ops(r, mode, False))
            if via == "zeroconf-change":
                cur = r.sample([h for _, h in HOSTS], r.choice([1, 2, 3]))
                d["new_hosts"] = list(cur)
            d["reach"] = r.choice(cur)
            ph.append(d)
        scs.append(dict(mode=mode, hosts=hosts, port=r.choice([80, 5001, 51826, 65535]), phases=ph))
    return scs


def poller_ops(r, n, first=True):
    """Sequences of calls on ONE live pairing the way a poller makes them: a long-lived set (reads), list (writes) and list
    (subscriptions) that the caller keeps and updates in place between calls - superset, subset, equal-size swap, all-new,
    unchanged, permuted - interleaved with fresh arguments of equal size / superset / permutation."""
    pool = [(a, i) for a in AIDS for i in IIDS if i not in (1, 2)]
    ops = [("list_accessories",)] if first else []
    cur = r.sample(pool, r.choice([1, 2, 4]))
    ops += [("hold", "reads", r.choice([set, set, set, list]), list(cur)), ("call_held", "get_characteristics", "reads")]
    wcur = [p + (gen_value(r),) for p in r.sample(pool, 2)]
    scur = sorted(r.sample(pool, 3))
    ops += [("hold", "writes", list, list(wcur)), ("hold", "subs", list, list(scur))]
    for _ in range(n):
        k = r.random()
        if k < 0.55:                                        # reads through the held container
            rest = [p for p in pool if p not in cur]
            m = r.random()
            if m < 0.25:
                new = r.sample(rest, r.choice([1, 2]))
                ops.append(("mutate", "reads", "add", new))
                cur = cur + new
            elif m < 0.45 and len(cur) > 1:
                gone = r.sample(cur, r.choice([1, len(cur) - 1]))
                ops.append(("mutate", "reads", "discard", gone))
                cur = [p for p in cur if p not in gone]
            elif m < 0.7:
                out, new = r.choice(cur), r.choice(rest)
                ops.append(("mutate", "reads", "swap", [out, new]))
                cur = [p for p in cur if p != out] + [new]
            elif m < 0.85:
                new = r.sample(rest, len(cur) if r.random() < 0.5 else r.choice([1, 3]))
                ops.append(("mutate", "reads", "clear_add", new))
                cur = list(new)
            ops.append(("call_held", "get_characteristics", "reads"))
        elif k < 0.7:                                       # fresh arguments related to the previous call
            m = r.random()
            if m < 0.3:
                ids = list(cur)
                r.shuffle(ids)                              # permutation
            elif m < 0.6:
                ids = r.sample(pool, len(cur))              # equal size, different members
            else:
                ids = cur + r.sample(pool, 2)               # superset
            ops.append(("get_characteristics", ids, r.choice([list, set, tuple, iter])))
        elif k < 0.85:                                      # writes through a held list
            m = r.random()
            if m < 0.4:
                new = [r.choice(pool) + (gen_value(r),)]
                ops.append(("mutate", "writes", "add", new))
                wcur = wcur + new
            elif m < 0.7:
                new = [p + (gen_value(r),) for p in r.sample(pool, len(wcur))]
                ops.append(("mutate", "writes", "clear_add", new))
                wcur = new
            elif len(wcur) > 1:
                ops.append(("mutate", "writes", "reverse", []))
                wcur = wcur[::-1]
            ops.append(("call_held", "put_characteristics", "writes"))
        else:                                               # subscriptions through a held list
            m = r.random()
            if m < 0.5:
                new = [r.choice(pool)]
                ops.append(("mutate", "subs", "add", new))
                scur = scur + new
            else:
                new = sorted(r.sample(pool, len(scur)))
                ops.append(("mutate", "subs", "clear_add", new))
                scur = new
            ops.append(("call_held", r.choice(["subscribe", "unsubscribe"]), "subs"))
    return ops


def gen_pollers(tier, r):
    scs = []
    # directed: one long-lived set; add, add+discard, unchanged, clear+add (what a poller's 'pollable' set goes through)
    directed = [("list_accessories",), ("get_characteristics", [(1, 9)], list), ("get_characteristics", [(1, 9), (1, 10)], list),
                ("get_characteristics", [(1, 10), (1, 9)], list), ("get_characteristics", [(1, 9), (2, 3)], set),
                ("get_characteristics", [(1, 9), (2, 3), (2, 9)], set),
                ("hold", "reads", set, [(1, 9)]), ("call_held", "get_characteristics", "reads"),
                ("mutate", "reads", "add", [(1, 10)]), ("call_held", "get_characteristics", "reads"),
                ("mutate", "reads", "add", [(2, 3)]), ("mutate", "reads", "discard", [(1, 9)]),
                ("call_held", "get_characteristics", "reads"), ("call_held", "get_characteristics", "reads"),
                ("mutate", "reads", "swap", [(1, 10), (10, 255)]), ("call_held", "get_characteristics", "reads"),
                ("mutate", "reads", "clear_add", [(2, 9)]), ("call_held", "get_characteristics", "reads"),
                ("hold", "writes", list, [(1, 9, "a"), (2, 10, 1)]), ("call_held", "put_characteristics", "writes"),
                ("mutate", "writes", "clear_add", [(2, 3, True), (1, 11, None)]), ("call_held", "put_characteristics", "writes"),
                ("hold", "subs", list, [(1, 9), (1, 10)]), ("call_held", "subscribe", "subs"),
                ("mutate", "subs", "clear_add", [(2, 3), (2, 9)]), ("call_held", "subscribe", "subs"),
                ("mutate", "subs", "add", [(10, 3)]), ("call_held", "unsubscribe", "subs")]
    for hk, host in (HOSTS[0], HOSTS[3], HOSTS[7]):
        scs.append(single("secure", host, 5001, list(directed)))
    for _ in range(30 if tier == "quick" else 600):
        hk, host = r.choice(HOSTS)
        scs.append(single("secure", host, r.choice([80, 5001, 51826]), poller_ops(r, r.choice([6, 12, 24]))))
    # ... and across a reconnect: the held containers (and whatever the library cached) outlive the connection
    for _ in range(10 if tier == "quick" else 200):
        a, b = r.sample([h for _, h in HOSTS], 2)
        tail = [op for op in poller_ops(r, r.choice([4, 8]), first=False) if op[0] != "hold"]
        scs.append(dict(mode="secure", hosts=[a, b], port=5001,
                        phases=[dict(via="initial", reach=a, ops=poller_ops(r, r.choice([3, 6]))),
                                dict(via=r.choice(["drop", "close-reopen"]), reach=b, ops=tail)]))
    return scs


def gather_op(r, mode):
    """2-5 API calls in flight at once on the one live object (real callers poll, write and subscribe concurrently)."""
    subs = []
    for _ in range(r.choice([2, 2, 3, 5])):
        k = r.random()
        if mode != "secure":
            subs.append(r.choice([("get", r.choice(TARGETS)), ("put_json", "/characteristics", gen_value(r)),
                                  ("post_json", "/identify", gen_value(r))]))
        elif k < 0.4:
            subs.append(("get_characteristics", rand_ids(r, r.choice([1, 2, 5])), r.choice([list, set])))
        elif k < 0.7:
            subs.append(("put_characteristics", [writable(r) + (gen_value(r),) for _ in range(r.choice([1, 2]))], r.choice(ARG_KINDS)))
        elif k < 0.85:
            subs.append((r.choice(["subscribe", "unsubscribe"]), sorted(rand_ids(r, 3)), r.choice(REITER_KINDS)))
        else:
            subs.append(r.choice([("list_accessories",), ("image", r.choice(AIDS), 640, 480), ("get", "/accessories")]))
    return ("gather", subs)


def gen_concurrent(tier, r):
    scs = []
    # directed: two reads with different equal-size id sets and a write, all in flight at once
    for hk, host in (HOSTS[1], HOSTS[4], HOSTS[8]):
        scs.append(single("secure", host, 5001, [
            ("list_accessories",),
            ("gather", [("get_characteristics", [(1, 9), (1, 10)], list), ("get_characteristics", [(2, 3), (2, 9)], list),
                        ("put_characteristics", [(1, 9, "a")])]),
            ("gather", [("put_characteristics", [(1, 9, 1)]), ("put_characteristics", [(2, 10, 2)]),
                        ("subscribe", [(1, 9), (2, 3)])])]))
        scs.append(single("plain", host, 5001, [
            ("gather", [("get", "/accessories"), ("get", "/characteristics?id=1.2"), ("put_json", "/characteristics", {"a": 1})])]))
    for i in range(30 if tier == "quick" else 600):
        hk, host = r.choice(HOSTS)
        mode = "secure" if i % 2 else "plain"
        ops = [("list_accessories",)] if mode == "secure" else []
        for _ in range(r.choice([2, 4, 8])):
            ops.append(gather_op(r, mode) if r.random() < 0.7 else (secure_ops(r, 1)[1] if mode == "secure" else plain_ops(r, 1)[0]))
        scs.append(single(mode, host, r.choice([80, 5001]), ops))
    return scs


def gen_arg_kinds(tier, r):
    """Every kind of iterable x every pairing API call that takes one, on ONE live encrypted pairing: the request written must
    be the canonical request for what the caller asked, whatever carried it (one-shot: generator, iter, map, chain, zip;
    re-iterable: list, tuple, deque, dict view, bare Iterable; sets for reads).  Sizes 0, 1, 2 and several aids."""
    scs = []
    for hk, host in (HOSTS[0], HOSTS[3], HOSTS[8]):
        ops = [("list_accessories",)]
        for kind in READ_KINDS:
            ops.append(("get_characteristics", [(1, 9), (1, 10), (2, 3)], kind))
            if kind in SET_KINDS:
                continue
            ops.append(("put_characteristics", [(1, 9, True), (1, 10, 40)], kind))
            ops.append(("put_characteristics", [(2, 3, "a b")], kind))
            ops.append(("subscribe", [(1, 9), (1, 10), (2, 3), (1, 11)], kind))
            ops.append(("unsubscribe", [(1, 9), (2, 3)], kind))
            ops.append(("put_characteristics", [(1, 9, 1), (2, 10, [1, {"k": None}]), (10, 255, "x")], kind))
        ops.append(("put_characteristics", [], "list"))
        ops.append(("put_characteristics", [], "gen"))
        scs.append(single("secure", host, 5001, ops))
    pool = [(a, i) for a in AIDS for i in IIDS if i not in (1, 2)]
    for _ in range(12 if tier == "quick" else 300):
        hk, host = r.choice(HOSTS)
        ops = [("list_accessories",)]
        for _ in range(r.choice([4, 8, 16])):
            k = r.random()
            if k < 0.3:
                ops.append(("get_characteristics", r.sample(pool, r.choice([1, 2, 5])), r.choice(READ_KINDS)))
            elif k < 0.7:
                ops.append(("put_characteristics", [p + (gen_value(r),) for p in r.sample(pool, r.choice([1, 2, 2, 4]))],
                            r.choice(ARG_KINDS)))
            else:
                ops.append((r.choice(["subscribe", "unsubscribe"]), sorted(r.sample(pool, r.choice([1, 3, 4]))), r.choice(ARG_KINDS)))
        scs.append(single("secure", host, r.choice([80, 5001]), ops))
    return scs


def gen_misc_entry(tier, r):
    """Entry points and states no other stream reaches: the unpaired IpDiscovery.async_identify, requests issued while
    the connection is lost and nothing is reachable (must raise, nothing written), re-subscription after a reconnect."""
    scs = []
    for hk, host in HOSTS:
        scs.append(dict(mode="discovery", hosts=[host], port=r.choice([80, 5001]),
                        phases=[dict(via="initial", reach=host, ops=[("identify_unpaired",), ("identify_unpaired",)])]))
    for i in range(6 if tier == "quick" else 60):
        a, b = r.sample([h for _, h in HOSTS], 2)
        scs.append(dict(mode="plain", hosts=[a, b], port=5001,
                        phases=[dict(via="initial", reach=a, ops=plain_ops(r, 2)),
                                dict(via="drop", reach=b, ops=plain_ops(r, 2)),
                                dict(via="drop-offline", reach=None, ops=[("get", r.choice(TARGETS)), ("get", "/accessories")])]))
    pool = [(a, i) for a in AIDS for i in IIDS if i not in (1, 2)]
    for i in range(12 if tier == "quick" else 200):
        a, b, c = r.sample([h for _, h in HOSTS], 3)
        subs1, subs2 = r.sample(pool, r.choice([1, 3, 6])), r.sample(pool, r.choice([1, 2, 4]))
        scs.append(dict(mode="secure", hosts=[a, b, c], port=5001,
                        phases=[dict(via="initial", reach=a, ops=[("list_accessories",), ("subscribe", sorted(subs1))]),
                                dict(via=r.choice(["drop", "close-reopen"]), reach=b,
                                     ops=[("subscribe", sorted(subs2)), ("unsubscribe", sorted(subs1)[:1])]),
                                dict(via="drop", reach=c, ops=[("get_characteristics", subs2[:2], list)])]))
    return scs


def pad_value(host, total, make):
    """A JSON value for PUT /characteristics whose complete request to `host` is exactly `total` bytes long (or None)."""
    for k in range(max(0, total - 400), total):
        v = make(k)
        if len(ref_render("PUT", b"/characteristics", host, "json", G.ref_compact(v))) == total:
            return v
    return None


def gen_scenarios(tier, r):
    scs = []
    # grid: every host x mode with a fixed op list touching every API once
    for (hk, host), mode in itertools.product(HOSTS, ["plain", "secure"]):
        if mode == "plain":
            ops = [("get", "/accessories"), ("put", "/characteristics", b'{"a":1}', CT_JSON), ("post", "/pair-setup", b"\x06\x01\x01", CT_TLV),
                   ("put", "/x", b"", CT_JSON), ("put_json", "/characteristics", {"characteristics": [{"aid": 1, "iid": 2, "ev": True}]}),
                   ("post_json", "/identify", {}), ("post_tlv", "/pairings", [(6, b"\x01"), (0, b"\x05")]),
                   ("request", "get", "/accessories", None, b""), ("request", "put", "/c", CT_JSON, b"[]")]
        else:
            ops = [("list_accessories",), ("get_characteristics", [(1, 9), (1, 10), (2, 3)], list),
                   ("put_characteristics", [(1, 9, "\u00e9 \"q\"\n\x01"), (2, 10, {"k": [None, True, -7]})]),
                   ("subscribe", [(1, 9), (1, 10), (2, 3), (1, 11)]), ("unsubscribe", [(1, 9), (2, 3)]),
                   ("identify",), ("list_pairings",), ("add_pairing", "id-1", "00" * 32, "Admin"),
                   ("remove_pairing", "id-1"), ("image", 1, 640, 480)]
        scs.append(single(mode, host, r.choice([80, 5001, 51826]), ops))
    scs += gen_sessions(tier, r)
    scs += gen_pollers(tier, r)
    scs += gen_concurrent(tier, r)
    scs += gen_misc_entry(tier, r)
    scs += gen_arg_kinds(tier, r)
    # large reads (a bridge with many accessories): one read of 150 / 200 / 480 / 1000 ids - ONE request, ids joined by commas
    big = [150, 200, 480] if tier == "quick" else [150, 200, 480, 1000, 165, 330, 2000]
    for j, n_ids in enumerate(big):
        hk, host = HOSTS[(3 * j) % len(HOSTS)]
        ids = [(1 + k // 40, 10 + k % 40 + r.choice([0, 1000])) for k in range(n_ids)]
        ops = [("list_accessories",), ("get_characteristics", ids, r.choice([list, set]))]
        if j == 0 or tier == "thorough":
            ops += [("hold", "reads", set, list(ids[:170])), ("call_held", "get_characteristics", "reads"),
                    ("mutate", "reads", "add", ids[170:175]), ("call_held", "get_characteristics", "reads")]
        scs.append(single("secure", host, 5001, ops))
    # requests whose total length is an exact multiple of the 1024-byte frame size (and the neighbours)
    for j, (hk, host) in enumerate((HOSTS[1], HOSTS[4], HOSTS[8])):
        ops = [("list_accessories",)]
        for total in ((1024, 2048, 3072) if (tier == "quick" and j) else (1024, 2048, 3072, 1023, 1025, 4096)):
            v = pad_value(host, total, lambda k: {"v": "a" * k})
            if v is not None:
                ops.append(("put_json", "/characteristics", v))
            w = pad_value(host, total, lambda k: {"characteristics": [{"aid": 1, "iid": 9, "value": "b" * k}]})
            if w is not None:
                ops.append(("put_characteristics", [(1, 9, w["characteristics"][0]["value"])]))
        scs.append(single("secure", host, 5001, ops))
        scs.append(single("plain", host, 5001, [op for op in ops if op[0] == "put_json"]))
    # sizes past the limits nobody generated so far: requests of 65535 / 65536 / 65537 bytes (64 frames and one byte more), 128
    # frames exactly, ~300 kB (one writelines of > 512 items; the frame counter passes 255 INSIDE one call), Content-Length
    # going from 5 to 6 digits; and > 256 requests on ONE encrypted connection (the counter passes 255 ACROSS calls)
    def sized(host, total, make):
        k0 = total - len(ref_render("PUT", b"/characteristics", host, "json", G.ref_compact(make(0))))
        for k in range(max(0, k0 - 10), k0 + 2):
            if len(ref_render("PUT", b"/characteristics", host, "json", G.ref_compact(make(k)))) == total:
                return make(k)
        return None
    big_hosts = (HOSTS[6],) if tier == "quick" else (HOSTS[2], HOSTS[9])
    for j, (hk, host) in enumerate(big_hosts):
        totals = (65536, 65537) if tier == "quick" else (65535, 65536, 65537, 66560, 131072, 262144, 262145)
        ops = [("list_accessories",)]
        for total in totals:
            v = sized(host, total, lambda k: {"v": "a" * k})
            if v is not None:
                ops.append(("put_json", "/characteristics", v))
        ops.append(("put_characteristics", [(1, 9, "c" * (262500 if (tier == "quick" or j) else 1100000))], r.choice(ARG_KINDS)))
        ops.append(("get_characteristics", [(1, 9)], list))
        scs.append(single("secure", host, 5001, ops))
        pl = [("put", "/characteristics", bytes((k * 7 + 3) % 256 for k in range(n)), r.choice([CT_JSON, CT_TLV]))
              for n in ((65536, 99999, 100000) if tier == "quick" else
                        (65535, 65536, 65537, 99999, 100000) + ((999999, 1000000) if j == 0 else ()))]
        scs.append(single("plain", host, 5001, pl + [op for op in ops if op[0] == "put_json"][:1 if tier == "quick" else 3] + [("get", "/accessories")]))
    for j in range(1 if tier == "quick" else 4):
        hk, host = HOSTS[(4 + 3 * j) % len(HOSTS)]
        ops = [("list_accessories",)] + [("get", TARGETS[k % 3] + ("?n=%d" % k if k % 50 == 49 else "")) for k in range(300 + 20 * j)]
        ops += [("put_json", "/characteristics", {"v": "d" * 2500}), ("get_characteristics", [(1, 9), (2, 3)], "gen"),
                ("put_characteristics", [(1, 9, "e" * 1500)], "gen")]
        scs.append(single("secure", host, 5001, ops))
    # payloads the JSON encoder refuses, given to the API on a live object: must raise, nothing written; the next call is fine
    for hk, host in (HOSTS[0], HOSTS[5]):
        scs.append(single("secure", host, 5001, [
            ("list_accessories",), ("put_characteristics", [(1, 9, 2 ** 64)]), ("put_characteristics", [(1, 9, "ok")]),
            ("put_characteristics", [(1, 9, 1), (2, 10, -2 ** 63 - 1)]), ("put_json", "/characteristics", {"value": [2 ** 64, "a b"]}),
            ("put_characteristics", [(1, 9, nest(255))]), ("put_characteristics", [(1, 9, nest(252))]),
            ("put_characteristics", [(1, 9, nest(251))]),
            ("get_characteristics", [(1, 9)], list)]))
        scs.append(single("plain", host, 5001, [
            ("put_json", "/characteristics", {"characteristics": [{"aid": 1, "iid": 9, "value": 2 ** 64}]}),
            ("post_json", "/identify", nest(300)), ("put_json", "/characteristics", {"a": 1})]))
    n = 220 if tier == "quick" else 4500
    for i in range(n):
        hk, host = r.choice(HOSTS)
        mode = "secure" if i % 3 else "plain"
        ops = secure_ops(r, r.choice([6, 12, 20])) if mode == "secure" else plain_ops(r, r.choice([6, 12, 20]))
        scs.append(single(mode, host, r.choice([80, 5001, 51826, 65535]), ops))
    # the advertised text of an address need not be the kernel's: every alternative spelling of the catalogue once per
    # mode (single connection and A -> drop -> B session), and a random respelling of half of all other scenarios
    short = {"plain": [("get", "/accessories"), ("put_json", "/characteristics", {"a": [1]})],
             "secure": [("list_accessories",), ("get_characteristics", [(1, 9), (2, 3)], list), ("subscribe", [(1, 9)])],
             "discovery": [("identify_unpaired",)]}
    directed = []
    for kern, alts in RESPELL.items():
        for alt in alts:
            for mode in ("plain", "secure", "discovery"):
                directed.append(respell_scenario(single(mode, kern, 5001, list(short[mode])), lambda a, alt=alt: alt if alt in a else a[0]))
            other = "10.0.0.2"
            directed.append(respell_scenario(dict(mode="secure", hosts=[other, kern], port=5001, phases=[
                dict(via="initial", reach=other, ops=list(short["secure"])),
                dict(via="drop", reach=kern, ops=[("get_characteristics", [(1, 9)], list)]),
                dict(via="zeroconf-change", reach=kern, new_hosts=[kern], ops=[("put_characteristics", [(1, 9, 1)])])]),
                lambda a, alt=alt: alt if alt in a else a[0]))
    scs = [respell_scenario(sc, r.choice) if r.random() < 0.5 else sc for sc in scs] + directed
    return scs


# ---------------------------------------------------------------------------- replay encoding of ops
_TYPES = {"list": list, "set": set, "tuple": tuple, "iter": iter}


def enc(x):
    if isinstance(x, (bytes, bytearray)):
        return {"b": hx(bytes(x))}
    if isinstance(x, type) or x is iter:
        return {"t": x.__name__}
    if isinstance(x, tuple):
        return {"tu": [enc(y) for y in x]}
    if isinstance(x, list):
        return {"l": [enc(y) for y in x]}
    if isinstance(x, dict):
        return {"d": [[k, enc(v)] for k, v in x.items()]}
    return x


def dec(x):
    if isinstance(x, dict):
        if "b" in x:
            return unhx(x["b"])
        if "t" in x:
            return _TYPES[x["t"]]
        if "tu" in x:
            return tuple(dec(y) for y in x["tu"])
        if "l" in x:
            return [dec(y) for y in x["l"]]
        if "d" in x:
            return {k: dec(v) for k, v in x["d"]}
    return x

# ---------------------------------------------------------------------------- analysis helpers
def extract(cap):
    """Lenient abstract request of a recorded request (from the accessory's lenient split)."""
    info = cap.info
    hd = dict(info["headers"])
    ctv = hd.get(b"content-type", b"").lower()
    if b"json" in ctv:
        kind = "json"
    elif b"tlv" in ctv:
        kind = "tlv"
    else:
        kind = "none"
    d = dict(method=info["method"], target=info["target"], kind=kind, body=info["body"], value=None, value_ok=False)
    if kind == "json":
        try:
            v = G.loads_ordered(info["body"])
            if not G.has_float(v) and ints_ok(G.to_plain(v)):
                d["value"], d["value_ok"] = v, True
        except Exception:  # noqa
            pass
    return d


def build_trace(res):
    """The session as the model's event history: C:<peer> / S / L / X / R:<request>, and what each R must correspond to."""
    toks, expect = [], []
    cur, secure_on, connected = None, set(), False
    for rec in res["records"]:
        if rec.get("expect_exc"):
            if rec["requests"]:
                return None
            if connected:
                toks.append("L")
                connected = False
            for a in rec["asked"]:
                toks.append("R:%s:%s:none:-" % (a["method"], hx(a["target"])))
                expect.append(("raise", rec))
            continue
        for qi, (cap, ex) in enumerate(zip(rec["requests"], rec["ex"])):
            if cap.conn != cur:
                if connected:
                    toks.append("X" if res["conn_via"][cap.conn] == "close-reopen" else "L")
                toks.append("C:" + hx((cap.host or "").encode()))
                cur, connected = cap.conn, True
            if cap.secure and cap.conn not in secure_on:
                toks.append("S")
                secure_on.add(cap.conn)
            if ex["method"] not in ("GET", "PUT", "POST") or not ex["target"] or b" " in ex["target"]:
                return None
            body = ex["body"] if ex["kind"] != "none" else b""
            toks.append("R:%s:%s:%s:%s" % (ex["method"], hx(ex["target"]), ex["kind"], hx(body)))
            expect.append(("cap", (cap, rec, qi)))
    return toks, expect


def open_frames(chunks, key, ctr0):
    """Decrypt the items of one secure writelines call: [len0, ct0, len1, ct1, ...] -> hex of [len0, pt0, ...] or None."""
    import struct
    from cryptography.hazmat.primitives.ciphers.aead import ChaCha20Poly1305
    if key is None or len(chunks) % 2:
        return None
    out = []
    for j in range(0, len(chunks), 2):
        try:
            pt = ChaCha20Poly1305(key).decrypt(struct.pack("<LQ", 0, ctr0 + j // 2), chunks[j + 1], chunks[j])
        except Exception:  # noqa
            return None
        out += [hx(chunks[j]), hx(pt)]
    return out


def resub_check(exs, subscribed):
    """The PUTs connection_made(True) sends after a reconnect must re-subscribe exactly the subscribed characteristics."""
    want = {tuple(p) for p in subscribed}
    got = []
    for ex in exs:
        v = G.to_plain(ex["value"]) if ex["value_ok"] else None
        if not (ex["method"] == "PUT" and ex["target"] == b"/characteristics" and isinstance(v, dict)
                and list(v) == ["characteristics"] and isinstance(v["characteristics"], list)):
            return "shape"
        items = v["characteristics"]
        if any(not isinstance(c, dict) or set(c) != {"aid", "iid", "ev"} or c["ev"] is not True for c in items):
            return "shape"
        got += [(c["aid"], c["iid"]) for c in items]
    if set(got) != want or len(got) != len(want):
        return "id-set"
    return None


def sent_host(cap) -> str:
    """The address named by the Host header actually sent (brackets stripped), leniently."""
    hv = dict(cap.info["headers"]).get(b"host", b"").strip()
    if hv.startswith(b"[") and b"]" in hv:
        hv = hv[1:hv.index(b"]")]
    return hv.decode("latin1")


def lenient_ids(target: bytes):
    q = target.split(b"id=", 1)
    if len(q) != 2:
        return None
    out = []
    if not q[1].split(b"&")[0].strip():
        return out                                  # "id=" with nothing after it: the empty id set
    for part in q[1].split(b"&")[0].split(b","):
        try:
            a, i = part.strip().split(b".")
            out.append((int(a), int(i)))
        except ValueError:
            return None
    return out


def canon_chars(v):
    """order-insensitive form of a {"characteristics":[...]} payload"""
    if isinstance(v, dict) and isinstance(v.get("characteristics"), list):
        return {**v, "characteristics": sorted((repr(sorted(c.items(), key=lambda kv: kv[0])) if isinstance(c, dict) else repr(c))
                                               for c in v["characteristics"])}
    return v


def same_asked(asked, ex):
    """None if the extracted abstract request is what the API call asked for, else a short reason."""
    if asked["method"] != ex["method"]:
        return "method"
    if asked["kind"] != ex["kind"]:
        return "body-kind"
    if "ids" in asked:
        if not ex["target"].startswith(asked["path"]):
            return "target"
        ids = lenient_ids(ex["target"])
        if ids is None or set(ids) != asked["ids"] or len(ids) != len(asked["ids"]):
            return "id-set"
    elif asked["target"] != ex["target"]:
        return "target"
    if "body" in asked and asked["body"] != ex["body"]:
        return "body"
    if "value" in asked:
        if not ex["value_ok"]:
            return "json-value"
        if canon_chars(G.to_plain(ex["value"])) != canon_chars(asked["value"]):
            return "json-value"
    return None


def pv_shape(i, ex):
    """pair-verify M1/M3 bodies carry fresh keys: only the shape is asked for."""
    if ex["method"] != "POST" or ex["target"] != b"/pair-verify" or ex["kind"] != "tlv":
        return "pair-verify-request"
    d = dict(tlv_dec(ex["body"]))
    if i == 0 and not (d.get(6) == b"\x01" and len(d.get(3, b"")) == 32):
        return "pair-verify-m1"
    if i == 1 and not (d.get(6) == b"\x03" and len(d.get(5, b"")) > 16):
        return "pair-verify-m3"
    return None


RAW_BODY_APIS = ("put", "post", "request", "post_tlv", "pair_verify")   # caller supplies the body bytes


def oracle(raw: bytes, host: str, json_encoded: bool = True, read_request: bool = False):
    """Property oracle on one request's bytes: None if canonical, else a reason slug.
    The compact-JSON rule applies to bodies the library's encoder produced, not to caller-supplied bytes."""
    p, why = G.strict_parse(raw)
    if p is None:
        return why
    if p["host"] != host.encode():
        return "host-value"
    if read_request and G.strict_read_url(p["target"]) is None:
        return "read-url-form"        # not "/characteristics?id=" aid.iid *( "," aid.iid ): stray/trailing comma, spaces ...
    if p["kind"] == "json" and json_encoded:
        _, why = G.strict_json(p["body"])
        if why:
            return why
    return None


def ref_render(method, target, host, kind, body):
    hv = "[%s]" % host if ":" in host else host
    out = b"%s %s HTTP/1.1\r\nHost: %s\r\n" % (method.encode(), target, hv.encode())
    if kind != "none":
        ct = b"application/hap+json" if kind == "json" else b"application/pairing+tlv8"
        out += b"Content-Length: %d\r\nContent-Type: %s\r\n" % (len(body), ct)
    return out + b"\r\n" + body


def mutate(r, base: bytes):
    b = bytearray(base)
    k = r.randrange(16)
    he = base.find(b"\r\n\r\n")
    if he < 2 or b"Host: " not in base[:he]:
        k = r.choice([0, 1, 8, 9, 15])      # already damaged: only position-free mutations
    if k == 0 and b:
        del b[r.randrange(len(b))]
    elif k == 1:
        b.insert(r.randrange(len(b) + 1), r.choice(b" \r\n:0[]\tx"))
    elif k == 2:
        i = base.find(b"\r\n", r.randrange(max(1, he + 2)))
        if i >= 0:
            del b[i]
    elif k == 3:
        lines = base[:he].split(b"\r\n")
        if len(lines) >= 4:
            i = r.randrange(1, len(lines) - 1)
            lines[i], lines[i + 1] = lines[i + 1], lines[i]
            b = bytearray(b"\r\n".join(lines) + base[he:])
    elif k == 4:
        i = r.randrange(max(1, he))
        b[i] = ord(chr(b[i]).swapcase()) if b[i] < 128 else b[i]
    elif k == 5:
        i = base.find(b"\r\n", base.find(b"Host: "))
        b[i:i] = b":%d" % r.choice([80, 5001])
    elif k == 6:
        b = bytearray(base.replace(b"[", b"").replace(b"]", b""))
    elif k == 7:
        b = bytearray(base.replace(b"Content-Length: ", b"Content-Length: 0", 1))
    elif k == 8:
        b += bytes([r.randrange(256)])
    elif k == 9 and b:
        b = b[:r.randrange(len(b))]
    elif k == 10:
        lines = base[:he].split(b"\r\n")
        i = r.randrange(len(lines))
        lines.insert(i, lines[i])
        b = bytearray(b"\r\n".join(lines) + base[he:])
    elif k == 11:
        b[he:he] = b"\r\n" + r.choice([b"Accept: */*", b"User-Agent: x", b"Connection: keep-alive", b"X: "])
    elif k == 12:
        b = bytearray(base.replace(b"\r\n", b"\n"))
    elif k == 13:
        b = bytearray(base.replace(b"HTTP/1.1", r.choice([b"HTTP/1.0", b"http/1.1", b"HTTP/1.1 "]), 1))
    elif k == 14:
        b = bytearray(base.replace(b": ", b":", 1))
    # k == 15: unchanged
    return bytes(b)


# ---------------------------------------------------------------------------- run
def run(ctx):
    tier, seed = ctx["tier"], ctx["seed"]
    # the extracted model is structurally recursive (not tail recursive): requests of several hundred kB need more than the
    # default 8 MB stack in the driver process, which inherits this limit
    try:
        import resource
        soft, hard = resource.getrlimit(resource.RLIMIT_STACK)
        want = 1 << 30
        if soft != resource.RLIM_INFINITY and soft < want:
            resource.setrlimit(resource.RLIMIT_STACK, (want if hard == resource.RLIM_INFINITY else min(want, hard), hard))
    except Exception:  # noqa
        pass
    drv = Driver(ctx["driver"])
    cov = Coverage("req: one case per request that reached the transport, distinct by (host, bytes); non-trivial = has a body "
                   "or a query string; json: distinct value, non-trivial = contains a string or a container; "
                   "mut/url: distinct mutated byte string, non-trivial = differs from its base")
    viols = []
    seen_keys = set()

    def add(key, what, found, **payload):
        if key in seen_keys:
            return
        seen_keys.add(key)
        viols.append(violation(key, what, found, **payload))

    rp = None
    if ctx.get("replay"):
        import json as _json
        rp = _json.load(open(ctx["replay"]))
    streams = {rp.get("stream", "req")} if rp else {"req", "json", "mut", "url"}

    # ================================================================ req stream
    r = rng(seed, "c09req")
    scs = gen_scenarios(tier, r) if rp is None else []
    if rp and "req" in streams and "scenario_json" in rp:
        scs = [dec(rp["scenario_json"])]          # the whole session is replayed on one connection object
    acc_doc = accessories_doc(AIDS, IIDS)

    async def all_scenarios():
        out = []
        for sc in scs:
            out.append(await run_scenario(sc, acc_doc))
        return out
    results = asyncio.run(all_scenarios())

    lines, jobs = [], []    # jobs: (scenario idx, record idx, request idx or None, what, line idx, extra)

    def q(line):
        lines.append(line)
        return len(lines) - 1

    for si, (sc, res) in enumerate(zip(scs, results)):
        for ri, rec in enumerate(res["records"]):
            op = rec["op"]
            hosth = hx((rec["host"] or "").encode())      # the address this connection was actually made to
            rec["peers"] = res["peers"][:rec["phase"] + 1]
            exs = [extract(c) for c in rec["requests"]]
            rec["ex"] = exs
            for qi, (cap, ex) in enumerate(zip(rec["requests"], exs)):
                if ex["kind"] == "json" and ex["value_ok"]:
                    li = q(" ".join(["reqj", ex["method"], hx(ex["target"]), hx((cap.host or rec["host"]).encode())] + jtoks(ex["value"])))
                elif ex["method"] in ("GET", "PUT", "POST"):
                    li = q(" ".join(["req", ex["method"], hx(ex["target"]), hx((cap.host or rec["host"]).encode()), ex["kind"], hx(ex["body"])]))
                else:
                    li = None
                jobs.append((si, ri, qi, "render", li, None))
                jobs.append((si, ri, qi, "parse", q("parse " + hx(cap.raw)), None))
            # API-level model shapes
            if op[0] == "get_characteristics" and len(exs) == 1:
                ids = lenient_ids(exs[0]["target"])
                if ids is not None:
                    jobs.append((si, ri, 0, "api-exact", q(" ".join(["get", hosth] + ["%d.%d" % p for p in ids])), None))
                    if isinstance(op[2], str):
                        jobs.append((si, ri, 0, "api-exact", q(" ".join(["getk", model_kind(op), hosth] + ["%d.%d" % p for p in ids])), None))
            elif op[0] == "put_characteristics" and len(exs) == 1:
                toks = [hosth, str(len(op[1]))]
                for a, i, v in op[1]:
                    toks += [str(a), str(i)] + jtoks(v)
                jobs.append((si, ri, 0, "api-canon", q(" ".join(["put"] + toks)), None))
                if len(op) > 2:      # the model of the call on an argument of THIS kind (Model/RequestArgs.v)
                    jobs.append((si, ri, 0, "api-canon", q(" ".join(["putk", model_kind(op)] + toks)), None))
            elif op[0] in ("subscribe", "unsubscribe"):
                toks = [hosth, "1" if op[0] == "subscribe" else "0"] + ["%d.%d" % p for p in op[1]]
                if len(op) > 2 and model_kind(op) == "one":
                    # two walks: the model says nothing is written; a tree that lists the argument first writes the full groups
                    jobs.append((si, ri, None, "api-sub-oneshot", q(" ".join(["subk", "one"] + toks)), q(" ".join(["subk", "re"] + toks))))
                else:
                    jobs.append((si, ri, None, "api-sub", q(" ".join(["sub"] + toks)), None))
                    if len(op) > 2:
                        jobs.append((si, ri, None, "api-sub", q(" ".join(["subk", "re"] + toks)), None))
            elif op[0] == "get" and len(exs) == 1:
                jobs.append((si, ri, 0, "api-exact", q(" ".join(["conn", "get", hosth, hx(op[1].encode("utf-8"))])), None))
            elif op[0] in ("put", "post") and len(exs) == 1:
                jobs.append((si, ri, 0, "api-exact", q(" ".join(["conn", op[0], hosth, hx(op[1].encode("utf-8")), op[3], hx(op[2])])), None))
            elif op[0] in ("put_json", "post_json") and len(exs) == 1 and ints_ok(op[2]):
                jobs.append((si, ri, 0, "api-exact", q(" ".join(["reqj", op[0][:-5].upper(), hx(op[1].encode("utf-8")), hosth] + jtoks(op[2]))), None))
            elif op[0] == "post_tlv" and len(exs) == 1:
                jobs.append((si, ri, 0, "api-exact", q(" ".join(["conn", "post", hosth, hx(op[1].encode("utf-8")), "tlv", hx(tlv_enc(op[2]))])), None))
            elif op[0] == "request" and len(exs) == 1:
                hdrs = []
                if op[3]:
                    ctv = b"application/hap+json" if op[3] == "json" else b"application/pairing+tlv8"
                    hdrs = [hx(b"Content-Length") + ":" + hx(str(len(op[4])).encode()), hx(b"Content-Type") + ":" + hx(ctv)]
                jobs.append((si, ri, 0, "api-exact", q(" ".join(["gen", hx(op[1].encode()), hx(op[2].encode("utf-8")), hosth,
                                                                 hx(op[4] if op[3] else b"")] + hdrs)), None))
    traces = {}
    for si, (sc, res) in enumerate(zip(scs, results)):
        tr = build_trace(res)
        if tr is not None and tr[0]:
            traces[si] = (q("sess " + " ".join(tr[0])), tr[1], tr[0])
    answers = drv.batch(lines)

    def replay(sc, rec, qi=None, **more):
        d = dict(stream="req", mode=sc["mode"], host=rec["host"], port=sc["port"], advertised_hosts=sc["hosts"],
                 session=[dict(phase=i, via=ph["via"], connected_to=ph["reach"], ops=len(ph["ops"]),
                               **({"new_hosts": ph["new_hosts"]} if "new_hosts" in ph else {}))
                          for i, ph in enumerate(sc["phases"])][:rec["phase"] + 1],
                 phase=rec["phase"], via=rec["via"],
                 op=repr(rec["op"])[:600], outcome=rec["outcome"], scenario_json=enc(sc),
                 requests=[dict(bytes_hex=hx(c.raw), text=c.raw[:400].decode("latin1"), transport_calls=len(c.calls),
                                encrypted=c.secure, written_to=c.host, connection=c.conn) for c in rec["requests"]][:6])
        if qi is not None and qi < len(rec["requests"]):
            d["request_index"] = qi
        d.update(more)
        return d

    # --- per-record checks that need no model answer
    n_req = 0
    oneshot_sub = {"nothing-written": 0, "requests-written": 0}
    for si, (sc, res) in enumerate(zip(scs, results)):
        call_tail = {}          # (connection, transport call index) -> the request that ENDED in that call
        req_ord = {}            # connection -> ordinal of the current request on it
        if res["errors"]:
            add("harness:" + res["errors"][0], "accessory could not decode the encrypted frames: " + res["errors"][0], False,
                stream="req", hosts=sc["hosts"], scenario_json=enc(sc))
        if res["leftover"]:
            add("incomplete-request:" + sc["mode"], "bytes were written that never formed a complete request", True,
                stream="req", hosts=sc["hosts"], mode=sc["mode"], leftover_hex=hx(res["leftover"][:300]), scenario_json=enc(sc))
        for rec in res["records"]:
            op, api = rec["op"], rec["op"][0]
            exs = rec["ex"]
            if rec.get("expect_exc"):
                # issued while no connection is up: the model (and the code) raise and write nothing
                if rec["outcome"] != "exc:" + rec["expect_exc"]:
                    add(f"disconnected-request:{api}:{rec['outcome']}", f"{api} with no connection up ended with {rec['outcome']}, "
                        f"expected {rec['expect_exc']}", False, **replay(sc, rec))
                if exs:
                    add(f"written-while-disconnected:{api}", f"{api}: a request was written although the connection was lost and "
                        f"no address is reachable", True, **replay(sc, rec))
                continue
            if rec.get("expect_encode_error") and not exs:
                # a payload the JSON encoder refuses (model: dump_bytes = Err): the call raises, nothing is written
                if rec["outcome"] != "exc:TypeError":
                    add(f"unencodable-payload:{api}:{rec['outcome']}", f"{api} with a payload outside the encoder's domain ended "
                        f"with {rec['outcome']}, expected TypeError and nothing written", False, **replay(sc, rec))
                cov.case("x" + repr(rec["op"])[:200], True, req_api=api + ":unencodable", req_mode=sc["mode"])
                continue
            if rec["outcome"] != "ok" and not rec.get("expect_encode_error"):
                add(f"op-failed:{api}:{rec['outcome']}", f"{api} on the in-memory accessory ended with {rec['outcome']} "
                    f"(expected a normal return)", False, **replay(sc, rec))
            if api == "gather":
                # concurrent calls: every request on the wire must be asked for by exactly one of them
                remaining, asked_why = list(rec["asked"]), []
                for ex in exs:
                    hit = next((a for a in remaining if same_asked(a, ex) is None), None)
                    if hit is None:
                        asked_why.append("not-asked-by-any-concurrent-call")
                    else:
                        remaining.remove(hit)
                        asked_why.append(None)
                if remaining and rec["outcome"] == "ok":
                    add("wrong-request:concurrent-call-request-missing:gather",
                        f"{len(rec['op'][1])} API calls in flight at once: {len(remaining)} of the requests they ask for never "
                        f"reached the wire (first: {remaining[0]['method']} {remaining[0].get('target', remaining[0].get('path'))!r})",
                        True, **replay(sc, rec, missing=repr(remaining[0])[:400]))
            elif api == "pair_verify":
                # two pair-verify posts, then whatever connection_made(True) re-subscribes
                if rec["outcome"] == "ok" and len(exs) < 2:
                    add("wrong-request-count:pair_verify", f"pair-verify used {len(exs)} requests, expected 2", False, **replay(sc, rec))
                asked_why = [pv_shape(i, ex) if i < 2 else None for i, ex in enumerate(exs)]
                bad = resub_check(exs[2:], rec.get("resub", []))
                if bad and rec["outcome"] == "ok":
                    add(f"wrong-request:resubscribe-after-reconnect:{bad}",
                        f"after '{rec['via']}' the re-subscribe requests of connection_made do not ask for exactly the subscribed "
                        f"characteristics ({bad}): subscribed {rec.get('resub')!r}"[:400], True,
                        **replay(sc, rec, reason=bad, subscribed=repr(rec.get("resub"))[:400]))
            elif api in ("subscribe", "unsubscribe") and arg_kind(op) in ONE_SHOT_KINDS and not exs:
                # the code walks the argument twice (set(...), then groupby): a one-shot argument is exhausted and NO request
                # is written (theorem update_subscriptions_one_shot_writes_nothing); C09 speaks about requests that are sent
                oneshot_sub["nothing-written"] += 1
                asked_why = []
            else:
                asked = rec["asked"]
                if api in ("subscribe", "unsubscribe") and arg_kind(op) in ONE_SHOT_KINDS:
                    oneshot_sub["requests-written"] += 1
                if len(exs) != len(asked):
                    add(f"wrong-request-count:{api}", f"{api}: {len(exs)} requests on the wire, the call asks for {len(asked)}",
                        False, **replay(sc, rec, asked=len(asked)))
                    asked_why = [None] * len(exs)
                else:
                    asked_why = [same_asked(a, ex) for a, ex in zip(asked, exs)]
                    if rec.get("expect_encode_error"):
                        asked_why = [None] * len(exs)      # something WAS written: its form is judged by the oracle below
            for qi, (cap, ex) in enumerate(zip(rec["requests"], exs)):
                n_req += 1
                peer = cap.host or rec["host"]
                why = oracle(cap.raw, peer, api not in RAW_BODY_APIS and not (api == "pair_verify" and qi < 2),
                             read_request=(api == "get_characteristics"))
                # "nothing else": the transport call that carried this request must not carry bytes beyond it
                first_call = (cap.conn, cap.calls[0]) if cap.calls else None
                if first_call is not None and first_call in call_tail:
                    add(f"extra-bytes-in-call:{'secure' if cap.secure else 'plain'}:{api}",
                        f"{api}: the transport call that carried a complete request also carried further bytes that form "
                        f"{'a second copy of it' if cap.raw == call_tail[first_call] else 'another request'} "
                        f"(request of {len(call_tail[first_call])} bytes{', an exact multiple of 1024' if len(call_tail[first_call]) % 1024 == 0 else ''})",
                        True, **replay(sc, rec, qi, first_request_len=len(call_tail[first_call])))
                if cap.calls:
                    call_tail[(cap.conn, cap.calls[-1])] = cap.raw
                if why == "host-value":
                    sent = sent_host(cap)
                    if sent != peer and sent in rec["peers"][:-1]:
                        why = "stale-host"
                    elif ":" in peer and dict(cap.info["headers"]).get(b"host", b"").strip() == peer.encode():
                        why = "host-ipv6-unbracketed"      # the literal of the connected peer, without [ ]
                rec.setdefault("oracle", []).append(why)
                if why == "stale-host":
                    add(f"host-header:stale-after-reconnect:{rec['via']}",
                        f"{api}: after '{rec['via']}' the connection is to {peer} but the request carries the Host header of an "
                        f"earlier peer ({sent_host(cap)}): the Host header must name the connected address", True,
                        **replay(sc, rec, qi, reason=why, sent_host=sent_host(cap), connected_host=peer))
                    why_key = None
                else:
                    why_key = why
                if len(cap.calls) != 1:
                    add(f"split-write:{api}", f"{api}: one request was handed to the transport in {len(cap.calls)} calls "
                        f"(must be exactly one write/writelines)", True, **replay(sc, rec, qi))
                if why_key:
                    add(f"noncanonical:{why}:{api}", f"{api}: request is not in the canonical form (strict grammar: {why})",
                        True, **replay(sc, rec, qi, reason=why))
                if asked_why[qi]:
                    if rec.get("held"):
                        add(f"wrong-request:{asked_why[qi]}:{api}:caller-updated-argument",
                            f"{api}: called again with the caller's own {rec['held']}; the request on the wire is not what THIS "
                            f"call asked for ({asked_why[qi]}): asked {repr(rec['op'][1])[:200]}, sent {ex['target'][:200]!r}",
                            True, **replay(sc, rec, qi, reason=asked_why[qi], held=rec["held"], asked_now=repr(rec["op"][1])[:400]))
                    else:
                        ak = arg_kind(op)
                        add(f"wrong-request:{asked_why[qi]}:{api}", f"{api}: the request on the wire is not what the call asked for "
                            f"({asked_why[qi]})" + ("" if ak in ("-", "list") else f"; the argument {repr(op[1])[:120]} was passed as a "
                            f"{'one-shot ' if ak in ONE_SHOT_KINDS else ''}{ak} object, sent {ex['target'][:160]!r} with body {ex['body'][:120]!r}"), True,
                            **replay(sc, rec, qi, reason=asked_why[qi], argument_container=ak))
                body = ex["body"]
                req_ord[cap.conn] = req_ord.get(cap.conn, -1) + 1
                cov.case("q" + peer + hx(cap.raw), bool(body) or b"?" in ex["target"],
                         sample=(dict(stream="req", mode=sc["mode"], host=peer, via=rec["via"], connection=cap.conn, api=api,
                                      request=cap.raw[:300].decode("latin1")) if n_req % 401 == 1 else None),
                         req_api=api, req_mode=sc["mode"], req_host=host_kind(peer), req_method=ex["method"],
                         req_advertised_spelling=",".join(sc.get("spelling", ["as-kernel"])),
                         req_argument=("caller-held, updated in place" if rec.get("held") else "fresh"),
                         req_arg_container=(arg_kind(op) if api in ("get_characteristics", "put_characteristics", "subscribe",
                                                                    "unsubscribe") else "-"),
                         req_reached_via=rec["via"], req_connection_ordinal=min(cap.conn, 5),
                         req_body_kind=ex["kind"],
                         req_body_len=(len(body) if len(body) < 4 else 1 << (len(body).bit_length())),
                         req_calls_per_request=len(cap.calls),
                         req_total_len=("<1024" if len(cap.raw) < 1024 else ">=%d" % (1 << (len(cap.raw).bit_length() - 1))),
                         req_writelines_items=(lambda n_: n_ if n_ < 3 else ">=%d" % (1 << (n_.bit_length() - 1)))(
                             len(res["wire"][cap.conn]["calls"][cap.calls[0]]) if len(cap.calls) == 1 else 0),
                         req_ordinal_on_connection=(lambda n_: "<256" if n_ < 256 else ">=256")(req_ord.setdefault(cap.conn, 0)),
                         req_ids=(len(lenient_ids(ex["target"]) or []) if api == "get_characteristics" else "-"))
    # --- model answers
    sub_seen = set()
    for (si, ri, qi, what, li, li2) in jobs:
        sc, rec = scs[si], results[si]["records"][ri]
        api = rec["op"][0]
        ans = answers[li] if li is not None else "unmodelled-method"
        if what == "render":
            cap = rec["requests"][qi]
            if ans != "ok " + hx(cap.raw) and not rec["oracle"][qi]:
                add(f"{api}:model-mismatch", f"{api}: model render of the extracted abstract request differs from the bytes sent, "
                    f"and the strict grammar accepts them", False, model=ans[:600], **replay(sc, rec, qi),
                    broken="correspondence Model/Request.v render_req <-> connection.py request()")
        elif what == "parse":
            cap, ex = rec["requests"][qi], rec["ex"][qi]
            orc = rec["oracle"][qi]
            p, _ = G.strict_parse(cap.raw)
            want = "none" if p is None else "some %s %s %s %s %s" % (p["method"], hx(p["target"]), hx(p["host"]), p["kind"], hx(p["body"]))
            if ans != want:
                add("grammar:model-vs-oracle", "Gallina parse_req and the Python strict grammar disagree on a recorded request",
                    False, model=ans[:300], oracle=want[:300], **replay(sc, rec, qi))
        elif what == "api-exact":
            cap = rec["requests"][qi]
            if ans != "ok " + hx(cap.raw) and not rec["oracle"][qi]:
                add(f"{api}:api-model-mismatch", f"{api}: the model of the API call renders different bytes", False,
                    model=ans[:600], **replay(sc, rec, qi), broken="correspondence Model/Request.v api_*/conn_* <-> code")
        elif what == "api-canon":
            cap = rec["requests"][qi]
            if not rec["oracle"][qi] and not canon_equal(unhx(ans[3:]), cap.raw):
                add(f"{api}:api-model-mismatch", f"{api}: the model's write payload differs (order-insensitively) from the bytes sent",
                    False, model=ans[:600], **replay(sc, rec, qi), broken="correspondence write_payload <-> put_characteristics")
        elif what == "api-sub-oneshot":
            alts = [[unhx(h) for h in answers[x].split(" ")[1:]] for x in (li, li2)]
            ok = any(len(m) == len(rec["requests"]) and all(canon_equal(a, c.raw) for a, c in zip(m, rec["requests"])) for m in alts)
            if not ok and not any(rec.get("oracle", [])):
                add(f"{api}:api-model-mismatch:one-shot-argument", f"{api}({arg_kind(rec['op'])}): {len(rec['requests'])} requests; the "
                    f"model writes none (the argument is exhausted by set(...) before groupby) or, listed first, {len(alts[1])}",
                    False, model=answers[li2][:600], **replay(sc, rec),
                    broken="correspondence pairing_update_subscriptions <-> subscribe/unsubscribe + _update_subscriptions")
        elif what == "api-sub":
            model_reqs = [unhx(h) for h in ans.split(" ")[1:]]
            ok = len(model_reqs) == len(rec["requests"]) and all(
                canon_equal(m, c.raw) for m, c in zip(model_reqs, rec["requests"]))
            if not ok and not any(rec.get("oracle", [])):
                add(f"{api}:api-model-mismatch", f"{api}: per-aid grouping / subscribe payloads differ from the model "
                    f"({len(rec['requests'])} requests, model {len(model_reqs)})", False, model=ans[:600], **replay(sc, rec),
                    broken="correspondence api_update_subscriptions <-> _update_subscriptions")
    # --- history level: the model machine run on the session's event history vs the recorded transport calls
    n_trace = n_trace_req = 0
    import collections as _cc
    ctr_hist = _cc.Counter()
    for si, (li, expect, toks) in traces.items():
        sc, res = scs[si], results[si]
        out = answers[li].split(" ")
        n_trace += 1
        if out[-1].startswith("ctr:"):
            fc = int(out[-1][4:])
            ctr_hist["0" if fc == 0 else ("1..255" if fc < 256 else ("256..1023" if fc < 1024 else ">=1024"))] += 1
        if len(out) != len(expect) + 1:
            add("trace:model-mismatch:length", f"model run of the session history gave {len(out) - 1} observations for "
                f"{len(expect)} requests: {answers[li][:200]}", False, events=toks[:60], scenario_json=enc(sc))
            continue
        for tok, (kind, x) in zip(out, expect):
            n_trace_req += 1
            if kind == "raise":
                if tok != "raise":
                    add("trace:model-mismatch:raise", "model writes a request where the implementation raised (no connection)",
                        False, events=toks[:60], scenario_json=enc(sc))
                continue
            cap, rec, qi = x
            parts = tok.split(":")
            if parts[0] != "call" or parts[1] != hx(cap.raw):
                if not rec["oracle"][qi]:
                    add("trace:model-mismatch:payload", "the model machine, run on the session's history (connect/secure/lost/close/"
                        "request events), hands a different request to the transport than the implementation did",
                        False, model=tok[:400], **replay(sc, rec, qi), events=toks[:60])
                continue
            if len(cap.calls) != 1:
                continue                      # already reported as split-write
            real = res["wire"][cap.conn]["calls"][cap.calls[0]]
            model_chunks = parts[3].split(",")
            if cap.secure:
                got = open_frames(real, res["wire"][cap.conn]["key"], int(parts[2]))
            else:
                got = [hx(c) for c in real]
            if got != model_chunks:
                add("trace:wire-structure:" + ("secure" if cap.secure else "plain"),
                    "the single transport call carries the request in a different chunk structure than the model "
                    "(plain: [request]; secure: [LE16 len, seal(ctr+i, len, chunk_i)] for 1024-byte chunks, counters consecutive)",
                    False, model_chunks=[c[:80] for c in model_chunks][:8], impl_chunks=[str(c)[:80] for c in (got or [])][:8],
                    counter_before=parts[2], **replay(sc, rec, qi))
    cov.extra["resubscribe_requests_checked"] = sum(max(0, len(rec["requests"]) - 2) for res in results for rec in res["records"]
                                                    if rec["op"][0] == "pair_verify")
    cov.extra["one_shot_subscribe_calls"] = dict(oneshot_sub)
    cov.extra["concurrent_call_groups"] = sum(1 for res in results for rec in res["records"] if rec["op"][0] == "gather")
    cov.extra["requests_while_disconnected"] = sum(1 for res in results for rec in res["records"] if rec.get("expect_exc"))
    cov.extra["session_final_frame_counter"] = dict(ctr_hist)
    cov.extra["session_histories_replayed_in_model"] = n_trace
    cov.extra["session_history_requests"] = n_trace_req

    # host header as built by _connect_once, for every host of the grid
    for sc, res in zip(scs, results):
        lp = res["last_peer"]
        if lp is None:
            continue
        want = "Host: [%s]" % lp if ":" in lp else "Host: " + lp
        if res["host_header"] != want:
            add("noncanonical:host-header-attr:" + host_kind(lp), f"connection.host_header is {res['host_header']!r} while connected "
                f"to {lp}, canonical is {want!r}", True, stream="req", host=lp, port=sc["port"], impl=res["host_header"],
                expected=want, scenario_json=enc(sc))

    # ================================================================ json stream
    r = rng(seed, "c09json")
    vals = [None, True, False, 0, -1, {}, [], "", {"": ""}, [[]], [{}], {"a": {"b": {"c": [1, [2, [3, [4]]]]}}}]
    vals += INT_EDGES + [2 ** 64, -2 ** 63 - 1, 10 ** 30, [1, 2 ** 64], {"k": -2 ** 64}]
    vals += [chr(c) for c in range(0x00, 0x80)] + STR_ATOMS
    alpha = ["a", " ", "\"", "\\", "\n", "\r", "\t", "\x00", "\x1f", "\x7f", "\u00e9", "\U0001F600"]
    vals += [a + b for a in alpha for b in alpha]
    vals += [{a: b} for a in alpha for b in alpha[:4]]
    for _ in range(1500 if tier == "quick" else 40000):
        vals.append(gen_value(r))
    if "json" not in streams:
        vals = []
    elif rp:
        vals = [dec(rp["value_json"])] if "value_json" in rp else vals
    jl = ["jprint " + " ".join(jtoks(v)) for v in vals]
    jans = drv.batch(jl)
    from aiohomekit import hkjson
    for idx, (v, a) in enumerate(zip(vals, jans)):
        try:
            out = hkjson.dump_bytes(v)
            impl = "ok " + hx(bytes(out))
        except TypeError:
            impl = "err"
        except Exception as e:  # noqa
            impl = "other:" + type(e).__name__
        t = a.split(" ")
        model = ("ok " + t[1]) if (len(t) == 4 and t[3] == "ok") else ("err" if len(t) == 4 and t[3] == "err" else a)
        if len(t) == 4 and t[2] != "out":
            add("json:model-scan", "model: scan Out (jprint v) <> Some Out (theorem jprint_no_ws contradicted?)", False,
                value=repr(v)[:300], model=a[:300])
        orc = None
        in_dom = ints_ok(v)
        if impl.startswith("ok "):
            # whatever the encoder returns becomes a request body: it must be the compact form, also for a payload
            # outside orjson's 64-bit integer domain (there the unchanged encoder raises and nothing is sent)
            b = unhx(impl[3:])
            if G.json_ws_outside_strings(b):
                orc = "json-whitespace"
            elif G.ref_compact(v) != b:
                orc = "json-noncanonical"
        elif in_dom:
            orc = "json-encode-failed"
        if orc:
            add(f"noncanonical:{orc}:dump_bytes" + ("" if in_dom else ":outside-orjson-domain"),
                f"hkjson.dump_bytes output is not the compact form ({orc})"
                + ("" if in_dom else " for a payload orjson itself refuses (integer beyond 64 bits)"), True,
                stream="json", value=repr(v)[:500], value_json=enc(v), impl=impl[:600], expected=hx(G.ref_compact(v))[:600])
        elif impl != model:
            add("json:model-mismatch", "hkjson.dump_bytes differs from the model jprint/dump_bytes", False,
                stream="json", value=repr(v)[:500], value_json=enc(v), impl=impl[:600], model=model[:600],
                broken="correspondence Model/Request.v jprint <-> hkjson.dump_bytes (orjson)")
        cov.case("j" + repr(v), isinstance(v, (str, list, dict)),
                 sample=dict(stream="json", value=repr(v)[:200], impl=impl[:200]) if idx % 499 == 7 else None,
                 json_type=type(v).__name__, json_result=impl.split(" ")[0])

    # ---- payloads outside the MODEL's domain (floats, NaN, non-string keys, > 254 levels, integer keys beyond 64 bits):
    # no model answer, but the property's rule is independent of it: a returned body has no whitespace outside strings
    if "json" in streams and rp is None:
        extra = [nest(255), nest(256, "a b"), nest(400), {"value": nest(260, {"k": [1, 2]})}, {"characteristics": [{"aid": 1, "iid": 9, "value": nest(255)}]},
                 1.5, -0.0, 1e300, float("nan"), float("inf"), [1.5, "a b"], {"v": float("nan"), "w": [1, 2]},
                 {1: 2, 3: [4, 5]}, {None: 1, True: [2, 3]}, {1.5: "x y", "k": [1, 2]}, {2 ** 64: [1, 2]}, {-2 ** 63 - 1: {"a": 1}},
                 (1, 2, (3, 4)), {"t": (1, 2)}, [2 ** 64, "a b", {"k": [1, 2]}], {"value": 2 ** 64, "aid": 1, "iid": 9},
                 {"characteristics": [{"aid": 1, "iid": 9, "value": -2 ** 63 - 1}]}]
        for v in extra:
            try:
                out = bytes(hkjson.dump_bytes(v))
                impl = "ok " + hx(out)
            except Exception as e:  # noqa
                out, impl = None, "err:" + type(e).__name__
            if out is not None and G.json_ws_outside_strings(out):
                add("noncanonical:json-whitespace:dump_bytes:outside-model-domain",
                    "hkjson.dump_bytes returned a body with whitespace outside string literals (payload outside the modelled "
                    "domain: float / non-string key / > 254 levels / integer key beyond 64 bits)", True,
                    stream="json", value=repr(v)[:500], impl=out[:300].decode("latin1"))
            cov.case("J" + repr(v)[:300], True, json_type="outside-model:" + type(v).__name__, json_result=impl.split(" ")[0])

    # ================================================================ mut stream (grammar vs grammar)
    r = rng(seed, "c09mut")
    bases = []
    for (hk, host) in HOSTS:
        for method, kind in (("GET", "none"), ("PUT", "json"), ("POST", "tlv"), ("POST", "json"), ("GET", "json"), ("PUT", "none")):
            for body in ([b""] if kind == "none" else [b"", b"{}", b'{"a":[1,2]}', b"\r\n\r\n", bytes(range(256))]):
                bases.append(ref_render(method, r.choice(TARGETS).encode("utf-8"), host, kind, body))
    muts = list(bases)
    for _ in range(4000 if tier == "quick" else 80000):
        m = mutate(r, r.choice(bases))
        if r.random() < 0.2:
            m = mutate(r, m)
        muts.append(m)
    if "mut" not in streams:
        muts = []
    elif rp and "bytes_hex" in rp:
        muts = [unhx(rp["bytes_hex"])]
    mans = drv.batch(["parse " + hx(m) for m in muts])
    base_set = set(bases)
    for idx, (m, a) in enumerate(zip(muts, mans)):
        p, why = G.strict_parse(m)
        want = "none" if p is None else "some %s %s %s %s %s" % (p["method"], hx(p["target"]), hx(p["host"]), p["kind"], hx(p["body"]))
        if a != want:
            add("grammar:model-vs-oracle:mut", "Gallina parse_req and the Python strict grammar disagree on a mutated request",
                False, stream="mut", bytes_hex=hx(m), text=m[:300].decode("latin1"), model=a[:300], oracle=want[:300], oracle_reason=why)
        cov.case("m" + hx(m), m not in base_set,
                 sample=dict(stream="mut", text=m[:160].decode("latin1"), strict=(why or "accepted")) if idx % 997 == 3 else None,
                 mut_result=(why or "accepted"))

    # ================================================================ url stream
    r = rng(seed, "c09url")
    idlists = [[], [(1, 2)], [(0, 0)], [(-1, -2)], [(1, 2), (1, 2)], [(18446744073709551615, 4294967296), (1, 9)]]
    for _ in range(300 if tier == "quick" else 5000):
        idlists.append([(r.choice(AIDS + [0, -5, 10 ** 25]), r.choice(IIDS + [0, -7])) for _ in range(r.choice([1, 2, 3, 9]))])
    if "url" not in streams:
        idlists = []
    uans = drv.batch(["url " + " ".join("%d.%d" % p for p in ids) if ids else "url" for ids in idlists])
    urls = []
    for ids, a in zip(idlists, uans):
        want = b"/characteristics?id=" + b",".join(b"%d.%d" % p for p in ids)
        t = a.split(" ")
        if t[:2] != ["ok", hx(want)] or t[2] != "back" or G.strict_read_url(want) != ids:
            add("url:model-mismatch", "read_url differs from the reference URL or does not parse back", False,
                stream="url", ids=repr(ids)[:300], model=a[:300], expected=hx(want))
        urls.append(want)
        cov.case("u" + hx(want), len(ids) > 0, url_ids=len(ids))
    umuts = []
    for _ in range((1500 if tier == "quick" else 30000) if urls else 0):
        u = bytearray(r.choice(urls))
        k = r.randrange(6)
        if k == 0 and u:
            del u[r.randrange(len(u))]
        elif k == 1:
            u.insert(r.randrange(len(u) + 1), r.choice(b",.-0 19;"))
        elif k == 2 and u:
            u[r.randrange(len(u))] = r.choice(b",.-0 19;")
        elif k == 3:
            u += r.choice([b",", b",1", b",1.", b",1.2", b".3", b",01.2", b",-0.1", b"&meta=1"])
        elif k == 4:
            u = u.replace(b",", b", ", 1)
        umuts.append(bytes(u))
    pans = drv.batch(["purl " + hx(u) for u in umuts])
    for u, a in zip(umuts, pans):
        ids = G.strict_read_url(u)
        want = "none" if ids is None else " ".join(["some"] + ["%d.%d" % p for p in ids])
        if a != want:
            add("url:model-vs-oracle", "Gallina parse_read_url and the Python URL grammar disagree", False,
                stream="url", url=u.decode("latin1"), model=a[:300], oracle=want[:300])
        cov.case("v" + hx(u), True, url_mut_result=("accepted" if ids is not None else "rejected"))

    # ================================================================ extraction cross-check (vm_compute in Coq itself)
    if rp is None:
        picks = []
        for sc, res in zip(scs, results):
            for rec in res["records"]:
                for cap, ex in zip(rec["requests"], rec["ex"]):
                    if ex["method"] in ("GET", "PUT", "POST") and len(cap.raw) < 700 and not rec["oracle"][0]:
                        picks.append((cap.host or rec["host"], ex, cap.raw))
                    break
            if len(picks) >= 24:
                break
        picks = picks[::4][:6]

        def cb(b):
            return "[" + ";".join(str(x) for x in b) + "]"
        terms = []
        for host, ex, raw in picks:
            body = "None" if ex["kind"] == "none" else "(Some (%s, %s))" % ("CtJson" if ex["kind"] == "json" else "CtTlv", cb(ex["body"]))
            terms.append("(mkReq %s %s %s %s, %s)" % (ex["method"], cb(ex["target"]), cb(host.encode()), body, cb(raw)))
        # one short session history through the machine inside Coq: payloads must equal what the extracted driver said
        sess_src = ""
        for si, (li, expect, toks) in sorted(traces.items()):
            if 4 <= len(toks) <= 14 and len(answers[li]) < 6000 and any(t in ("L", "X") for t in toks):
                evs, flat = [], []
                for t in toks:
                    f = t.split(":")
                    if f[0] == "C":
                        evs.append("EConnect %s" % cb(unhx(f[1])))
                    elif f[0] in ("S", "L", "X"):
                        evs.append({"S": "ESecure", "L": "ELost", "X": "EClose"}[f[0]])
                    else:
                        body = "None" if f[3] == "none" else "(Some (%s, %s))" % ("CtJson" if f[3] == "json" else "CtTlv", cb(unhx(f[4])))
                        evs.append("EReq %s %s %s" % (f[1], cb(unhx(f[2])), body))
                for tok in answers[li].split(" ")[:-1]:
                    flat += [255, 255] if tok == "raise" else list(unhx(tok.split(":")[1]))
                sess_src = ("Eval vm_compute in (beq (List.concat (map (fun o => match obs_payload o with Some p => p | None => [255; 255] end) "
                            "(snd (run1024 conn_init [" + ";\n ".join(evs) + "])))) " + cb(flat) + ").\n")
                cov.extra["vm_compute_session_events"] = len(toks)
                break
        src = ("From Coq Require Import List NArith ZArith Bool.\nFrom AHK Require Import Lib.ByteStr Model.Request Model.RequestSession.\n"
               "Import ListNotations.\nLocal Open Scope N_scope.\n"
               "Eval vm_compute in (forallb (fun p : req * bytes => beq (render_req (fst p)) (snd p) && "
               "match parse_req (snd p) with Some _ => true | None => false end) [" + ";\n".join(terms) + "]).\n")
        src += sess_src
        try:
            out = coq_eval(ctx["verif"], "C09", "xcheck", src, timeout=300)
            if "= true" not in out or "= false" in out:
                add("extraction:vm-compute-mismatch", "Coq vm_compute of render_req/parse_req disagrees with the extracted driver "
                    "on recorded requests", False, coq_output=out[-600:])
            cov.extra["vm_compute_crosscheck"] = dict(requests=len(picks), result=out.strip()[-40:])
        except Exception as e:  # noqa
            add("extraction:vm-compute-failed", "coq_eval cross-check failed: " + str(e)[-400:], False)

    cov.extra["exhaustive"] = False
    cov.extra["exhaustive_part"] = ("finite grids completed: every host of the list (3 IPv4, 4 IPv6, 4 scoped IPv6) x {plain, encrypted} x "
                                    "every API entry point once; every 1-character string U+0000..U+007F and every 2-character string "
                                    "over a 12-character escaping alphabet through hkjson.dump_bytes")
    cov.extra["scenarios"] = len(scs)
    cov.extra["session_sequences"] = sum(1 for sc in scs if len(sc["phases"]) > 1)
    cov.extra["connections_made"] = sum(res["connections"] for res in results)
    import collections as _c
    tr_hist = _c.Counter()
    for sc in scs:
        for a, b in zip(sc["phases"], sc["phases"][1:]):
            tr_hist["%s:%s->%s" % (b["via"], host_kind(a["reach"]), host_kind(b["reach"]))] += 1
    cov.extra["session_transitions"] = dict(tr_hist)
    cov.extra["requests_recorded"] = n_req
    cov.extra["transport_calls_recorded"] = sum(len(res["calls"]) for res in results)
    cov.extra["domain_exclusions"] = ("JSON floats, non-string keys and lone surrogates are not modelled (not generated); integers outside "
                                      "[-2^63, 2^64) only as 'encoder raises, nothing is sent'; connected hosts are numeric addresses "
                                      "(what getpeername returns)")
    cov.extra["disagreements_checked"] = len(viols)
    if rp:
        cov.extra["replayed"] = ctx["replay"]
    return dict(coverage=cov.to_dict(), violations=viols)


def canon_equal(model_raw: bytes, impl_raw: bytes) -> bool:
    pm, _ = G.strict_parse(model_raw)
    pi, _ = G.strict_parse(impl_raw)
    if pm is None or pi is None:
        return False
    for k in ("method", "target", "host", "kind"):
        if pm[k] != pi[k]:
            return False
    if pm["kind"] != "json":
        return pm["body"] == pi["body"]
    try:
        return canon_chars(G.to_plain(G.loads_ordered(pm["body"]))) == canon_chars(G.to_plain(G.loads_ordered(pi["body"])))
    except Exception:  # noqa
        return False
