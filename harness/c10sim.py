"""Run one reconnection scenario on the REAL IpPairing/SecureHomeKitConnection (virtual loop) and
return its observable trace.  Shared by C10 and C11.

Scenario (JSON-able dict):
  hosts:    number of advertised IPv4 hosts (1..3); host i is "10.0.0.<i+1>"
  dials:    list of per-start_connection entries: ["refused"] | ["hang"] | ["connect", i]
            (when exhausted: refused)
  verifies: list of per-opened-connection outcomes (when exhausted: "ok", 0):
            [kind, delta, lost_delay, vdelay] with kind in ok|wrongid|badtag|badsig|auth|invalid|garbage|peerclose|peerreset|http4xx
            |okfin|okrst (answers pair-verify ok, then - instead of answering the re-subscribe PUT - closes (FIN) / resets (RST)
            the connection delta ticks after receiving it; delta 0 or no subscription: same as ok)
            |okbad (answers pair-verify ok, then answers the re-subscribe PUT after delta ticks with a body that is not JSON:
            the controller hangs up itself; delta 0 or no subscription: same as ok)
            delta (ticks, only for ok): how long the accessory takes to answer the re-subscribe PUT
            lost_delay (ticks, optional): connection_lost of this connection is delivered that long after
            the controller closes it (a send buffer still draining) - the "loss of an abandoned connection" case
            vdelay (ticks, optional): the accessory reacts to the pair-verify request (reply / FIN / RST) that long
            after receiving it; >= 30 s (122880) means the request times out first (_send_lines)
  subs:     bool - the pairing has a subscription (so connection_made(True) does a round trip)
  controls: list of [tick, kind, arg] sorted by tick; kinds:
            ensure w | cancel w | zeroconf [host indices] | soon | drop cid | dropreset cid | close | shutdown |
            badreply v  (an API request on the ESTABLISHED session - connected and the connector finished, otherwise nothing
            happens - that the accessory answers unusably, variant v mod 4: 0 put_json non-UTF-8 body, 1 put_json malformed
            JSON, 2 post_json malformed JSON, 3 post_tlv HTTP 4xx; the controller then hangs up itself) |
            shutdown_then [k, kind2, arg2]  (kind2 in ensure|zeroconf delivered k loop iterations after shutdown()
            was started, in the same tick: the model sees "shutdown; kind2" at one tick)
            rstlate [cid, j]  (round 8: the accessory RESETS connection cid, but the event loop only notices j loop
            iterations later - the RST sits in the kernel: until then write_eof() raises OSError(ENOTCONN) as
            socket.shutdown(SHUT_WR) does, a write fails the transport at once, close() works; for the model = dropreset cid)
  lst:      optional user-listener kind registered with all three dispatchers of the pairing (availability, events,
            config changed): good | unreg-on-false | raise-on-false | closing-raise | closing-unreg | closing-reenter |
            always-raise | always-unreg  ("closing-*": misbehaves only when called while a close()/shutdown() call is
            running; "*-on-false": when told unavailable).  The property gives listeners no influence on connections.
  end:      tick at which the run stops (a final snapshot is taken)
  style:    "v4" (default) or "v6": hosts are advertised as non-canonical IPv6 literals and the
            connected peer reports the canonical, scoped spelling (address normalisation)
Trace: list of [tick, kind, ...] with a canonical order inside one tick.
"""
from __future__ import annotations

import asyncio
import errno
import logging

import ipsim

logging.disable(logging.CRITICAL)   # aiohomekit logs every scripted failure; irrelevant here
import simacc
import vloop


STYLE = "v4"


class LateRstTransport(vloop.MemTransport):
    """MemTransport plus the window between a peer RST reaching the kernel and the event loop noticing it
    (_read_ready -> _fatal_error -> connection_lost).  Inside that window the selector transport behaves like this:
    write_eof() -> socket.shutdown(SHUT_WR) raises OSError(ENOTCONN) (after setting _eof); write()/writelines() ->
    send() fails -> _fatal_error -> forced close, nothing raised; close() -> plain close, connection_lost(None)."""

    _rst_pending = False

    def peer_reset_late(self, hops):
        if self._conn_lost or self._closing:
            return
        self._rst_pending = True
        self.closed_by = self.closed_by or "peer"
        self.net._closed(self)                      # the accessory's side is gone the moment it resets

        def hop(n):
            if n > 0:
                self._loop.call_soon(hop, n - 1)
            elif self._rst_pending:
                self._notice_rst()
        self._loop.call_soon(hop, max(0, hops - 1))

    def _notice_rst(self):
        self._rst_pending = False
        self._force_close(ConnectionResetError(errno.ECONNRESET, "reset by peer"))

    def write_eof(self):
        if self._closing or self._eof:
            return
        self._eof = True
        if self._rst_pending:
            raise OSError(errno.ENOTCONN, "Transport endpoint is not connected")

    def write(self, data):
        if self._rst_pending and not self._eof and not self._closing:
            self._notice_rst()
            return
        super().write(data)

    def writelines(self, list_of_data):
        if self._rst_pending and not self._eof and not self._closing:
            self._notice_rst()
            return
        super().writelines(list_of_data)


vloop.MemTransport = LateRstTransport      # VLoop.create_connection builds whatever this name is bound to


def host(i):
    """Advertised form of host i.  Style v6: a non-canonical IPv6 spelling, so that the code's
    address normalisation (exclusion bookkeeping vs. the connected peer address) is exercised."""
    if STYLE == "v6":
        return f"2001:db8:0:0:0:0:0:{i + 1:x}"
    return f"10.0.0.{i + 1}"


def peer_form(h):
    """What getpeername() reports for a connection to advertised address h (style v6: canonical
    zero-compressed spelling plus a scope id)."""
    if ":" in h:
        return f"2001:db8::{h.rsplit(':', 1)[1]}%eth0"
    return h


def hidx(h):
    if ":" in h:
        return int(h.partition("%")[0].rsplit(":", 1)[1], 16) - 1
    return int(h.rsplit(".", 1)[1]) - 1


def classify(exc):
    from aiohomekit import exceptions as ex
    if exc is None:
        return "ok"
    if isinstance(exc, asyncio.CancelledError):
        return "cancelled"
    if isinstance(exc, ex.AuthenticationError):
        return "auth"
    if isinstance(exc, ex.AccessoryDisconnectedError):
        return "disconnected"
    return "other:" + type(exc).__name__


KIND_ORDER = {"control": 0, "dial": 1, "opened": 2, "verify": 3, "closed": 4, "waiter": 5, "returned": 6, "snap": 9}


def canon(trace):
    """Canonical order inside a tick: the property constrains times, targets, sets - not callback order."""
    out = sorted(trace, key=lambda e: (e[0], KIND_ORDER.get(e[1], 8), repr(e[2:])))
    return [list(e) for e in out]


def run_scenario(sc):
    global STYLE
    STYLE = sc.get("style", "v4")
    nhosts = sc["hosts"]
    hosts = [host(i) for i in range(nhosts)]
    verifies = [list(v) for v in sc.get("verifies", [])]
    controls = sorted(sc.get("controls", []), key=lambda c: c[0])
    end = sc["end"]

    partial = []

    async def main(loop):
        import aiohomekit.controller.ip.connection as connmod
        net = vloop.Net(loop, [tuple(d) for d in sc.get("dials", [])])
        net.peer_form = peer_form
        trace = partial

        def log(kind, *args):
            if kind == "control" and args[0] == "rstlate":
                args = ("dropreset", args[1][0])       # what it is at tick granularity (and for the model)
            trace.append((loop.ticks, kind) + args)

        # mirror network events into our trace with host indices
        orig_log = net.log

        def netlog(*ev):
            orig_log(*ev)
            if ev[0] == "dial":
                log("dial", [hidx(h) for h in ev[1]], ev[2])
            elif ev[0] == "opened":
                log("opened", ev[1], hidx(ev[2]))
            elif ev[0] == "closed":
                log("closed", ev[1])
            elif ev[0] == "verify":
                log("verify", ev[1], ev[2])
        net.log = netlog

        def handler(ep, method, target, body):
            if target.startswith("/badreply"):
                v = int(target[len("/badreply"):])
                if v == 0:
                    return simacc.http_response(200, b"\xff\xfe\xfanot utf-8")
                if v in (1, 2):
                    return simacc.http_response(200, b"{not json")
                return simacc.http_response(470, b"\x06\x01\x02\x07\x01\x02", "application/pairing+tlv8",
                                            reason="Connection Authorization Required")
            if method == "PUT" and target == "/characteristics":
                if ep.verify == "okbad" and ep.delta > 0:
                    ep.tr.lost_delay_ticks = 0     # the accessory read the request it answers: the send buffer is empty
                    return [(ep.delta, simacc.http_response(200, b"{not json"))]
                if ep.verify in ("okfin", "okrst") and ep.delta > 0:
                    # scripted loss inside the connector's connection_made(True) window: no answer, drop the link
                    loop.call_later(ep.delta / 4096, ep.tr.peer_fin if ep.verify == "okfin" else ep.tr.peer_reset)
                    return None
                return [(ep.delta, simacc.http_response(204, reason="No Content"))]
            return simacc.http_response(204, reason="No Content")

        def ef(tr):
            v = verifies.pop(0) if verifies else ["ok", 0]
            ep = simacc.SimEndpoint(net, tr, v[0], handler=handler)
            ep.delta = v[1] if len(v) > 1 else 0
            tr.lost_delay_ticks = v[2] if len(v) > 2 else 0
            ep.vdelay = v[3] if len(v) > 3 else 0
            return ep
        net.endpoint_factory = ef

        # count connector tasks
        connectors = []
        orig_create = connmod.async_create_task

        def counting_create(coro, **kw):
            t = orig_create(coro, **kw)
            if getattr(coro, "__qualname__", "").endswith("_reconnect"):
                connectors.append(t)
            return t
        connmod.async_create_task = counting_create
        undo1, undo2 = net.install(), simacc.install_fake_verify()
        waiters = {}
        bg = []
        try:
            p = ipsim.make_pairing(hosts)
            p.description = ipsim.FakeDescription(hosts, config_num=-1, state_num=1)
            if sc.get("subs"):
                p.subscriptions = {(1, 2)}
            conn = p.connection
            closing_now = [0]
            lst = sc.get("lst")
            if lst:
                stops = {}

                def mk(which):
                    def cb(arg=None):
                        down = which == "avail" and arg is False
                        act = (lst.startswith("always-") or (lst.endswith("-on-false") and down)
                               or (lst.startswith("closing-") and closing_now[0] > 0))
                        if not act:
                            return
                        if lst in ("unreg-on-false", "closing-unreg", "always-unreg"):
                            stops[which]()
                        elif lst == "closing-reenter":
                            stops[which]()
                            stops[which] = reg[which](cb)
                        else:
                            raise ValueError("listener " + which)
                    return cb
                reg = dict(avail=p.dispatcher_availability_changed, evt=p.dispatcher_connect,
                           cfg=p.dispatcher_connect_config_changed)
                for which in reg:
                    stops[which] = reg[which](mk(which))

            def snap(tag):
                log("snap", tag, sorted(t.cid for t in net.open), bool(conn.is_connected),
                    sum(1 for t in connectors if not t.done()))

            async def waiter(w):
                try:
                    await p._ensure_connected()
                    log("waiter", w, "ok")
                except BaseException as e:  # noqa
                    log("waiter", w, classify(e))
                    if isinstance(e, asyncio.CancelledError):
                        raise

            async def closer(kind):
                closing_now[0] += 1
                try:
                    if kind == "close":
                        await p.close()
                    else:
                        await p.shutdown()
                    log("returned", kind, "ok")
                except BaseException as e:  # noqa
                    log("returned", kind, "raised:" + type(e).__name__)
                finally:
                    closing_now[0] -= 1

            async def badcall(v):
                try:
                    if v in (0, 1):
                        await conn.put_json(f"/badreply{v}", {"x": 1})
                    elif v == 2:
                        await conn.post_json("/badreply2", {"x": 1})
                    else:
                        await conn.post_tlv("/badreply3", [(6, b"\x01")])
                except asyncio.CancelledError:
                    raise
                except Exception:  # noqa - the API caller's AccessoryDisconnectedError; what follows is observed on the network
                    pass

            def fire(kind, arg):
                if kind == "badreply":
                    if conn.is_connected and not any(not t.done() for t in connectors):
                        conn.transport.lost_delay_ticks = 0    # the exchange completed: nothing left in the send buffer
                        bg.append(asyncio.ensure_future(badcall(arg % 4)))
                elif kind == "ensure":
                    waiters[arg] = asyncio.ensure_future(waiter(arg))
                    bg.append(waiters[arg])
                elif kind == "cancel":
                    if arg in waiters and not waiters[arg].done():
                        waiters[arg].cancel()
                elif kind == "zeroconf":
                    p._async_description_update(ipsim.FakeDescription([host(i) for i in arg], config_num=-1, state_num=1))
                elif kind == "soon":
                    conn.reconnect_soon()
                elif kind in ("drop", "dropreset"):
                    for tr in net.all:
                        if tr.cid == arg and tr in net.open:
                            tr.peer_fin() if kind == "drop" else tr.peer_reset()
                elif kind == "rstlate":
                    for tr in net.all:
                        if tr.cid == arg[0] and tr in net.open:
                            tr.peer_reset_late(arg[1])
                elif kind in ("close", "shutdown"):
                    bg.append(asyncio.ensure_future(closer(kind)))
                else:
                    raise ValueError(kind)

            for (t, kind, arg) in controls:
                if t > loop.ticks:
                    await vloop.sleep_ticks(t - loop.ticks)
                snap("pre")
                log("control", kind, arg)
                if kind in ("shutdown_then", "close_then", "pair"):
                    # two events inside the SAME tick, the second k event-loop iterations after the first (e.g.
                    # while shutdown()/close() is still suspended in _stop_connector, or before a connection_lost
                    # already scheduled by the first has run)
                    if kind == "pair":
                        k, kind1, arg1, kind2, arg2 = arg
                    else:
                        (k, kind2, arg2), kind1, arg1 = arg, kind.split("_")[0], 0
                    trace.pop()                                   # logged as two controls
                    log("control", kind1, arg1)
                    fire(kind1, arg1)
                    for _ in range(k):
                        await asyncio.sleep(0)
                    log("control", kind2, arg2)
                    fire(kind2, arg2)
                    for _ in range(12):
                        await asyncio.sleep(0)
                    snap("pre")
                else:
                    fire(kind, arg)
            if end > loop.ticks:
                await vloop.sleep_ticks(end - loop.ticks)
            snap("end")
            for ctx in loop.errors:
                exc = ctx.get("exception")
                log("loop-error", type(exc).__name__ if exc else ctx.get("message", "?")[:40])
            return list(trace)
        finally:
            undo1()
            undo2()
            connmod.async_create_task = orig_create
            for t in bg:
                t.cancel()

    try:
        trace, _ = vloop.run(main)
    except vloop.Stalled:
        return [[-1, "stalled"]]
    except vloop.Livelock as e:
        # some task spins without waiting (virtual time cannot advance): keep the start of the trace
        return canon(partial[:400]) + [[int(e.args[0]), "livelock"]]
    return canon(trace)


if __name__ == "__main__":
    import json
    import sys
    sc = json.loads(sys.argv[1])
    for e in run_scenario(sc):
        print(e)
