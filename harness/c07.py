"""C07 correspondence: InsecureHomeKitProtocol.data_received + HttpResponse vs Model/Http.v.

Case = (byte stream, segmentation into reads).  For every case the REAL data_received is fed the
reads on a fresh protocol object (fake owner + recording sinks in result_cbs, no source hooks) and
the delivered messages (route HTTP/EVENT, code, version, reason, kept headers, body) plus "did an
exception escape" are compared with
  * the extracted model fed the same reads (driver: feed / cuts1 / cuts2),
  * for well-formed streams: the strict whole-stream reference parser harness/ref/http_ref.py
    (the property oracle: every segmentation must deliver exactly the messages that were sent),
  * the implementation's own one-piece result (segmentation independence itself).
Streams: (A) exhaustive single+double cuts of well-formed streams <= 160 bytes, (B) random
well-formed sequences with boundary-size bodies under random multi-cuts, (C) mutated streams,
(D) the int()/title()/strip() primitives of the model against CPython on short strings.
"""
from __future__ import annotations

import asyncio
import concurrent.futures
import itertools

import re

from common import Coverage, Driver, coq_eval, hx, rng, unhx, violation
from ref.http_ref import ref_parse, title_name

BODY_SIZES = [0, 1, 2, 3, 5, 15, 16, 17, 254, 255, 256, 257, 1023, 1024, 1025, 2048]


# ---------------------------------------------------------------- canonical form
def canon_msgs(cls, msgs):
    def h(v):
        return hx(v.encode("utf-8", "surrogateescape") if isinstance(v, str) else v)
    toks = []
    for kind, code, version, reason, headers, body in msgs:
        hs = ",".join(f"{h(n)}={h(v)}" for n, v in headers) if headers else "."
        toks.append(f"{kind}:{int(code)}:{h(version)}:{h(reason)}:{hs}:{hx(body)}")
    return " ".join([cls, str(len(toks))] + toks)


def model_canon(ans):
    """driver answer '<state> <digest> <n> msgs...' -> '<state> <n> msgs...'"""
    t = ans.split(" ")
    return " ".join([t[0]] + t[2:])


# ---------------------------------------------------------------- implementation side
class Impl:
    """Feeds reads to the real InsecureHomeKitProtocol.data_received (must run inside a loop)."""

    def __init__(self):
        from aiohomekit.controller.ip.connection import InsecureHomeKitProtocol
        self.cls = InsecureHomeKitProtocol

    def run(self, pieces):
        log = []

        def snap(kind, r):
            log.append((kind, r.code, r.version, r.reason, [(n, v) for n, v in r.headers], bytes(r.body)))

        class Sink:                    # stands in for the future of a pending request (queueing is C08)
            def done(self):
                return False

            def set_result(self, r):
                snap("H", r)

        class Owner:
            def event_received(self, r):
                snap("E", r)

        proto = self.cls(Owner())
        total = sum(len(p) for p in pieces)
        proto.result_cbs = [Sink() for _ in range(total // 8 + 4)]
        cls = "run"
        for p in pieces:
            try:
                proto.data_received(p)
            except Exception:  # noqa  - any escaping exception is the crash class
                cls = "crash"
                break
        return canon_msgs(cls, log)


def split(s, cuts):
    pts = [0] + list(cuts) + [len(s)]
    return [s[a:b] for a, b in zip(pts, pts[1:])]


def all_cuts(n, two):
    for i in range(1, n):
        yield (i,)
        if two:
            for j in range(i + 1, n):
                yield (i, j)


# ---------------------------------------------------------------- generators
def render(kind, code, reason, headers, framing, body, chunks=None, fr_name=None, fr_pos=None, hexfmt="%x"):
    """-> (bytes, expected message tuple).  headers: [(raw name, sep, raw value)]"""
    ver = "HTTP/1.1" if kind == "H" else "EVENT/1.0"
    hl = list(headers)
    if framing == "cl":
        hl.insert(fr_pos if fr_pos is not None else len(hl), (fr_name or "Content-Length", ": ", str(len(body))))
    elif framing == "chunked":
        hl.insert(fr_pos if fr_pos is not None else len(hl), (fr_name or "Transfer-Encoding", ": ", "chunked"))
    out = f"{ver} {code} {reason}\r\n".encode()
    for n, sep, v in hl:
        out += f"{n}{sep}{v}\r\n".encode()
    out += b"\r\n"
    if framing == "cl":
        out += body
    elif framing == "chunked":
        pos = 0
        for c in chunks:
            out += (hexfmt % c).encode() + b"\r\n" + body[pos:pos + c] + b"\r\n"
            pos += c
        assert pos == len(body)
        out += b"0\r\n\r\n"
    else:
        assert body == b""
    exp = (kind, code, ver, reason, [(title_name(n.strip()), v.strip()) for n, sep, v in hl], body)
    # the same message in the grammar of the Coq theorem hfeed_correct (driver request 'wire')
    raw = []
    for n, sep, v in hl:
        pre, post = sep.split(":", 1)
        raw.append(hx((n + pre).encode()) + "=" + hx((post + v).encode()))
    if framing == "cl" and body:
        fr = "F:" + hx(body)
    elif framing == "chunked":
        pos, cs = 0, []
        for c in chunks:
            cs.append(hx((hexfmt % c).encode()) + "=" + hx(body[pos:pos + c]))
            pos += c
        fr = "C:" + (",".join(cs) if cs else ".") + ":30"
    else:
        fr = "N"
    wire = " ".join(["wire", hx(ver.encode()), hx(str(code).encode()), hx(reason.encode()), ",".join(raw) if raw else ".", fr])
    return out, exp, framing, wire


def catalogue():
    R = render
    return [
        R("H", 204, "No Content", [], "none", b""),
        R("E", 200, "OK", [], "cl", b"hello", fr_name="Content-Length"),
        R("H", 200, "OK", [], "chunked", b"abc", chunks=[3]),
        R("H", 200, "OK", [("content-length", ":", "0")], "none", b""),
        R("E", 200, "OK", [], "chunked", b"\r\n0", chunks=[1, 2], fr_name="TRANSFER-ENCODING", hexfmt="%X"),
        R("H", 207, "Multi-Status", [("Content-Type", ": ", "application/hap+json")], "cl", b"{}"),
        R("H", 470, "", [], "none", b""),
        R("E", 200, "OK", [], "cl", b"\r\n\r\nHTTP/1.1 200 OK\r\n", fr_name="CONTENT-LENGTH"),
        R("H", 200, "OK", [], "chunked", b"0123456789ab", chunks=[10, 2], hexfmt="%02X", fr_name="transfer-encoding"),
        R("E", 200, "OK", [("x-pad", " :  ", "v w ")], "cl", b"\r", fr_pos=0, fr_name="content-Length"),
        R("H", 500, "Internal Server Error", [("Content-Length", ": ", "0")], "chunked", b"", chunks=[]),
        R("H", 200, "OK", [("A", ":", "")], "cl", b"0\r\n", fr_name="Content-Length "),
    ]


def gen_exhaustive(tier, r):
    """well-formed streams <= 160 bytes: every message alone, every ordered pair, sampled triples"""
    cat = catalogue()
    streams = []
    for m in cat:
        streams.append([m])
    core = cat if tier != "quick" else cat[:4] + cat[7:9]
    for a, b in itertools.product(core, core):
        if len(a[0]) + len(b[0]) <= 160:
            streams.append([a, b])
    triples = [t for t in itertools.product(cat, repeat=3) if sum(len(m[0]) for m in t) <= 160]
    r.shuffle(triples)
    streams += [list(t) for t in triples[: (3 if tier == "quick" else 260)]]
    return streams


HDR_POOL = [("Content-Type", ": ", "application/hap+json"), ("content-type", ":", "application/pairing+tlv8"),
            ("CONNECTION", ":  ", "keep-alive "), ("Date", ": ", "Tue, 01 Jan 2030 00:00:00 GMT"),
            ("x-a", ":", "b"), ("Cache-Control", " : ", "no-cache, no-store"), ("Empty", ":", "")]
CL_NAMES = ["Content-Length", "content-length", "CONTENT-LENGTH", "Content-length", "cOnTeNt-LeNgTh"]
TE_NAMES = ["Transfer-Encoding", "transfer-encoding", "TRANSFER-ENCODING", "Transfer-encoding"]
CODES = [(200, "OK"), (204, "No Content"), (207, "Multi-Status"), (400, "Bad Request"), (404, "Not Found"),
         (422, "Unprocessable Entity"), (470, "Connection Authorization Required"), (500, "Internal Server Error"), (503, "")]


def rand_msg(r, maxbody=2048):
    kind = r.choice("HHE")
    code, reason = r.choice(CODES)
    hs = r.sample(HDR_POOL, r.choice([0, 0, 1, 2, 3]))
    framing = r.choice(["none", "cl", "cl", "chunked", "chunked"])
    n = r.choice([b for b in BODY_SIZES if b <= maxbody] + [r.randrange(0, min(maxbody, 40) + 1)])
    alphabet = r.choice([b"\r\n0aF", bytes(range(256)), b"{}\":,0123456789abc \r\n"])
    body = bytes(r.choice(alphabet) for _ in range(n))
    pos = r.randrange(len(hs) + 1)
    if framing == "none":
        return render(kind, code, reason, hs, "none", b"")
    if framing == "cl":
        return render(kind, code, reason, hs, "cl", body, fr_name=r.choice(CL_NAMES), fr_pos=pos)
    chunks = []
    left = n
    while left:
        c = min(left, r.choice([1, 2, 9, 10, 15, 16, 17, 255, 256, 1024, left]))
        chunks.append(c)
        left -= c
    return render(kind, code, reason, hs, "chunked", body, chunks=chunks, fr_name=r.choice(TE_NAMES), fr_pos=pos,
                  hexfmt=r.choice(["%x", "%X", "%02x", "%04X"]))


def rand_cuts(r, s, k):
    """k cut points, biased to land next to CR/LF bytes and message boundaries"""
    n = len(s)
    if n < 2:
        return ()
    hot = [i for i in range(1, n) if s[i - 1] in (13, 10) or s[i] in (13, 10)]
    pts = set()
    for _ in range(k):
        if hot and r.random() < 0.6:
            pts.add(r.choice(hot))
        else:
            pts.add(r.randrange(1, n))
    return tuple(sorted(pts))


def mutate(r, s):
    s = bytearray(s)
    m = r.randrange(12)
    if m == 0 and s:
        del s[r.randrange(len(s)):]                                     # truncation
    elif m == 1 and s:
        s[r.randrange(len(s))] ^= 1 << r.randrange(8)                   # bit flip
    elif m == 2 and s:
        j = r.randrange(len(s)); s[j:j] = s[j:j + r.randrange(1, 5)]    # duplication
    elif m == 3 and s:
        del s[r.randrange(len(s))]                                      # deletion
    elif m == 4:
        j = s.find(b"\r\n", r.randrange(len(s) + 1))
        if j >= 0:
            del s[j]                                                    # CRLF -> LF
    elif m == 5:
        j = s.find(b"\r\n")
        if j >= 0:                                                      # both framing headers (excluded class)
            s[j:j] = r.choice([b"\r\nTransfer-Encoding: chunked\r\nContent-Length: 4", b"\r\nContent-Length: 3\r\ntransfer-encoding:chunked"])
    elif m == 6:
        j = s.find(b": ")
        if j >= 0:
            s[j + 2:j + 2] = r.choice([b"+", b"-", b"1_", b"_", b"0x", b" \x1c", b"\xc3\xa9", b"\xff", b"1e"])
    elif m == 7:
        j = s.find(b"\r\n\r\n")
        if j >= 0:                                                      # odd chunk-size lines
            s[j + 4:j + 4] = r.choice([b"-1\r\n", b"-3\r\nabc", b"0x2\r\nab\r\n", b" 2 \r\nab\r\n", b"1_0\r\n", b"g\r\n", b"+1\r\nz\r\n", b";\r\n"])
    elif m == 8 and s:
        s[r.randrange(len(s))] = r.choice([13, 10, 32, 58, 47, 0, 0x80])
    elif m == 9:
        s[0:0] = r.choice([b"\r\n", b"FOO/1.0 200 OK\r\n\r\n", b"http/1.1 200 OK\r\n\r\n", b"HTTP/1.1 2_0 OK\r\n\r\n", b"HTTP/1.1  200 OK\r\n\r\n",
                           b"Event 9 x\r\nContent-Length: -1\r\n\r\n", b"HTTP/1.1 200 OK\r\nContent-Length: -2\r\n\r\n", b"HTTP/1.1 200\r\n\r\n"])
    elif m == 10:
        j = s.find(b"\r\n")
        if j >= 0:
            s[j:j] = b"\r\nno colon here" if r.random() < 0.95 else r.choice(
                [b"\r\nContent-Length: " + b"0" * 4300 + b"3", b"\r\nContent-Length: " + b"0" * 4297 + b"003"])
    else:
        j = s.find(b"\r\n")
        if j >= 0:
            s[j:j] = r.choice([b"\r\nx1a-b'c d:  v\t", b"\r\nTransfer-Encoding: gzip", b"\r\nContent-Length: 0\r\nContent-Length: 2", b"\r\n:", b"\r\n \x1f transfer-encoding\x1c:\x1dchunked\x1e"])
    return bytes(s)


# ---------------------------------------------------------------- primitives (stream D)
def prim_cases(tier):
    alpha = [b" ", b"\t", b"+", b"-", b"_", b"0", b"1", b"9", b"a", b"f", b"F", b"x", b"X", b"g", b"\x1c", b"\x0b"]
    top = 3 if tier == "quick" else 4
    for n in range(0, top + 1):
        for t in itertools.product(alpha, repeat=n):
            yield b"".join(t)
    for extra in (b"0x_1f", b"0X1_f", b"0x__1", b" -0x10 ", b"0x", b"007", b"1_000_000", b"\x1f12\x1f", b"+ 1", b"00_0", b"0b1", b"0o7", b"FFFFFFFFFFFFFFFFFFFF",
                  b"123456789012345678901234567890", b"-x-ab cd", b"conTENT-length", b"x1a'bc", b"a_b"):
        yield extra
    # CPython's 4300-digit limit of int() for base 10 (none for base 16)
    for big in (b"9" * 4300, b"9" * 4301, b"0" * 4301, b"0" * 4300 + b"_7", b" -" + b"1" * 4301 + b" ", b"+" + b"1" * 4301,
                b"_".join([b"12"] * 2151), b"f" * 3500):
        yield big


def py_int(b, mode):
    try:
        if mode == "int10b":
            return str(int(bytearray(b)))
        if mode == "int10s":
            return str(int(b.decode().strip()))
        return str(int(bytearray(b), 16))
    except ValueError:
        return "none"


# ---------------------------------------------------------------- coverage with per-stream distinct counting
class SegCoverage(Coverage):
    def __init__(self, rule):
        super().__init__(rule)
        self.bulk_distinct = 0

    def bulk(self, n_eval, n_distinct, **hist):
        self.evaluations += n_eval
        self.bulk_distinct += n_distinct
        for k, v in hist.items():
            self.hist[k][str(v)] += n_eval

    def to_dict(self):
        d = super().to_dict()
        d["distinct_nontrivial"] += self.bulk_distinct
        return d


def par_batch(drv, lines, workers=12):
    """driver requests here are few but heavy (cuts2): spread them over processes"""
    lines = list(lines)
    if len(lines) < 24:
        return drv._run(lines)
    parts = [lines[i::workers] for i in range(workers)]
    with concurrent.futures.ThreadPoolExecutor(workers) as ex:
        res = list(ex.map(drv._run, parts))
    out = [None] * len(lines)
    for w, rr in enumerate(res):
        for k, a in enumerate(rr):
            out[w + k * workers] = a
    return out


def first_diff_framing(msgs, got, want):
    g, w = got.split(" ")[2:], want.split(" ")[2:]
    for i, m in enumerate(msgs):
        if i >= len(g) or i >= len(w) or g[i] != w[i]:
            return m[2]
    return "extra"


def check_wires(drv, msgs, add, tap=None):
    """every message the generators call well-formed lies in the grammar wf_wire of the Coq theorem
    hfeed_correct, renders to the same bytes there, and interp gives the expected message"""
    seen, uniq = set(), []
    for m in msgs:
        if m[3] not in seen:
            seen.add(m[3]); uniq.append(m)
    for m, ans in zip(uniq, drv.batch([m[3] for m in uniq])):
        if tap is not None:
            tap.append((m[3], ans))
        want = "true " + hx(m[0]) + " " + canon_msgs("run", [m[1]]).split(" ", 2)[2]
        if ans != want:
            add("wf-domain:outside-coq-grammar", f"a generated well-formed message is not wf_wire / renders or interprets differently in "
                f"Model/HttpWire.v: {ans[:160]}", False, wire=m[3], expected=want, got=ans)


# ---------------------------------------------------------------- kernel cross-check of the extracted driver
XC_PRELUDE = """From Coq Require Import List NArith ZArith Bool.
From AHK Require Import Lib.ByteStr Model.Http Model.HttpWire Model.HttpSecure.
From AHK Require Model.Frame.
Import ListNotations.
Definition zb (b : bool) : Z := if b then 1%Z else 0%Z.
Definition enc (b : bytes) : list Z := Z.of_nat (length b) :: map Z.of_N b.
Definition show_hdrs (l : list (bytes * bytes)) : list Z :=
  Z.of_nat (length l) :: flat_map (fun nv => enc (fst nv) ++ enc (snd nv)) l.
Definition show_msg (m : msg) : list Z :=
  (match m_kind m with KHttp => 0%Z | KEvent => 1%Z end) :: m_code m :: enc (m_version m) ++ enc (m_reason m)
  ++ show_hdrs (m_headers m) ++ enc (m_body m).
Definition show_state (s : hstate) : list Z :=
  match s with
  | Run p raw => [0%Z; match ph p with PreStatus => 0%Z | Headers => 1%Z | Body => 2%Z end; zb (chunked p); clen p;
                  Z.of_nat (length (hdrs p)); Z.of_nat (length (body p))] ++ enc raw
  | Halt Crashed => [1%Z] | Halt Illformed => [2%Z] | Halt Unmodelled => [3%Z] | HFuel => [4%Z]
  end.
Definition show_res (x : hstate * list msg) : list Z :=
  show_state (fst x) ++ Z.of_nat (length (snd x)) :: flat_map show_msg (snd x).
Definition show_oz (o : option Z) : list Z := match o with None => [0%Z] | Some z => [1%Z; z] end.
Fixpoint zl_eqb (a b : list Z) : bool :=
  match a, b with [], [] => true | x :: a', y :: b' => Z.eqb x y && zl_eqb a' b' | _, _ => false end.
(* the loop of ocaml/drv_c07.ml `cuts`, over the same model function hfeeds; show_res is injective, so comparing
   the encodings is comparing the results *)
Definition show_cuts (two : bool) (s : bytes) : list Z :=
  let n := length s in
  let whole := show_res (hfeeds hinit [s]) in
  let ne x := negb (zl_eqb (show_res x) whole) in
  let flags := flat_map (fun i =>
      let a := firstn i s in let rest := skipn i s in
      ne (hfeeds hinit [a; rest])
      :: (if two then map (fun j => ne (hfeeds hinit [a; firstn (j - i) rest; skipn (j - i) rest])) (seq (i + 1) (n - 1 - i))
          else [])) (seq 1 (n - 1)) in
  Z.of_nat (length (filter (fun b => b) flags)) :: Z.of_nat (length flags) :: whole.
Definition show_wire (w : wire) : list Z := zb (wf_wire w) :: enc (render w) ++ show_msg (interp w).
(* the secure requests: open = the finite table of sealed frames (ocaml/drv_c07.ml `table`) *)
Fixpoint tbl_open (t : list (bytes * bytes * bytes * bytes)) (no aad ct : bytes) : option bytes :=
  match t with
  | [] => None
  | (n, a, c, p) :: r => if beq n no && beq a aad && beq c ct then Some p else tbl_open r no aad ct
  end.
Definition show_sres (x : sstate * list msg) : list Z :=
  (match fst (fst x) with Frame.Dead => [0%Z] | Frame.Live b c => [1%Z; Z.of_nat (length b); Z.of_N c] end)
  ++ show_res (snd (fst x), snd x).
Fixpoint sfeed_counts (opn : bytes -> bytes -> bytes -> option bytes) (s : sstate) (segs : list bytes) : list Z :=
  match segs with
  | [] => []
  | d :: r => let x := secure_feed opn s d in Z.of_nat (length (snd x)) :: sfeed_counts opn (fst x) r
  end.
Definition show_sfeed opn ctr segs : list Z :=
  show_sres (secure_feeds opn (sinit ctr) segs) ++ Z.of_nat (length segs) :: sfeed_counts opn (sinit ctr) segs.
Definition show_scuts1 opn ctr (s : bytes) : list Z :=
  let whole := show_sres (secure_feeds opn (sinit ctr) [s]) in
  let flags := map (fun i => negb (zl_eqb (show_sres (secure_feeds opn (sinit ctr) [firstn i s; skipn i s])) whole))
                   (seq 1 (length s - 1)) in
  Z.of_nat (length (filter (fun b => b) flags)) :: Z.of_nat (length flags) :: whole.
"""


def coq_bytes(b):
    b = unhx(b) if isinstance(b, str) else bytes(b)
    if len(b) > 64 and len(set(b)) == 1:               # long list literals are slow to elaborate
        return f"(repeat {b[0]}%N {len(b)})"
    return "[" + ";".join(str(x) for x in b) + "]%N" if b else "[]"


def coq_pairs(t):
    if t == ".":
        return "[]"
    return "[" + "; ".join("(%s, %s)" % tuple(coq_bytes(x) for x in kv.split("=")) for kv in t.split(",")) + "]"


def coq_request(req):
    """a driver request line -> the Gallina term that calls the same model function as ocaml/drv_c07.ml `handle`"""
    t = req.split(" ")
    k = t[0]
    if k == "feed":
        return "show_res (hfeeds hinit [" + "; ".join(coq_bytes(p) for p in t[1:]) + "])"
    if k in ("cuts1", "cuts2"):
        return f"show_cuts {'true' if k == 'cuts2' else 'false'} {coq_bytes(t[1])}"
    if k in ("int10b", "int10s"):
        return f"show_oz (int10 {'ws_b' if k == 'int10b' else 'ws_s'} {coq_bytes(t[1])})"
    if k == "int16":
        return f"show_oz (int16 {coq_bytes(t[1])})"
    if k == "title":
        return f"enc (title {coq_bytes(t[1])})"
    if k in ("strips", "stripb"):
        return f"enc (strip {'ws_s' if k == 'strips' else 'ws_b'} {coq_bytes(t[1])})"
    if k in ("sfeed", "scuts1"):
        n = int(t[2])
        ents = "[" + "; ".join("(%s, %s, %s, %s)" % tuple(coq_bytes(x) for x in e.split(":")) for e in t[3:3 + n]) + "]"
        rest = t[3 + n:]
        if k == "sfeed":
            return f"show_sfeed (tbl_open {ents}) {t[1]}%N [" + "; ".join(coq_bytes(p) for p in rest) + "]"
        return f"show_scuts1 (tbl_open {ents}) {t[1]}%N {coq_bytes(rest[0])}"
    if k == "wire":
        f = t[5].split(":")
        fr = "FNone" if f[0] == "N" else f"(FFixed {coq_bytes(f[1])})" if f[0] == "F" else f"(FChunked {coq_pairs(f[1])} {coq_bytes(f[2])})"
        return f"show_wire (mkW {coq_bytes(t[1])} {coq_bytes(t[2])} {coq_bytes(t[3])} {coq_pairs(t[4])} {fr})"
    raise ValueError(k)


def z_enc(h):
    b = unhx(h)
    return [len(b)] + list(b)


def z_msg(tok):
    kind, code, ver, reason, hs, body = tok.split(":")
    out = [{"H": 0, "E": 1}[kind], int(code)] + z_enc(ver) + z_enc(reason)
    pairs = [] if hs == "." else [kv.split("=") for kv in hs.split(",")]
    out.append(len(pairs))
    for n, v in pairs:
        out += z_enc(n) + z_enc(v)
    return out + z_enc(body)


def z_res(toks):
    """'<state> <digest> <n> msg...' (res_str of the driver) -> the flat encoding of show_res"""
    st, dg, n, msgs = toks[0], toks[1], int(toks[2]), toks[3:]
    if st == "run":
        ph, ck, cl, nh, nb, raw = dg.split("/")
        out = [0, {"pre": 0, "hdr": 1, "body": 2}[ph], {"c": 1, "n": 0}[ck], int(cl), int(nh), int(nb)] + z_enc(raw)
    else:
        out = [{"crash": 1, "illformed": 2, "unmodelled": 3, "fuel": 4}[st]]
    if len(msgs) != n:
        return None
    out.append(n)
    for m in msgs:
        out += z_msg(m)
    return out


def z_answer(req, ans):
    """the driver's answer line -> the flat list of integers the show_* term for this request evaluates to"""
    k, t = req.split(" ")[0], ans.split(" ")
    try:
        if k == "feed":
            return z_res(t)
        if k in ("cuts1", "cuts2"):
            return [int(t[0]), int(t[1])] + z_res(t[2:])
        if k in ("int10b", "int10s", "int16"):
            return [0] if ans == "none" else [1, int(ans)]
        if k in ("title", "strips", "stripb"):
            return z_enc(ans)
        if k == "wire":
            return [{"true": 1, "false": 0}[t[0]]] + z_enc(t[1]) + z_msg(t[2])
        if k in ("sfeed", "scuts1"):
            head = []
            if k == "scuts1":
                head, t = [int(t[0]), int(t[1])], t[2:]
            counts = None
            if "#" in t:
                i = t.index("#")
                counts = [int(x) for x in t[i + 1].split(",")] if len(t) > i + 1 and t[i + 1] else []
                t = t[:i]
            rs = [0] if t[0] == "dead" else [1, int(t[0].split(":")[1]), int(t[0].split(":")[2])]
            out = head + rs + z_res(t[1:])
            return out + ([len(counts)] + counts if counts is not None else [])
    except (KeyError, ValueError, IndexError, TypeError):
        return None
    return None


def xc_pick(pairs, k, key, ok=lambda q, a: True):
    """deterministic sample of k pairs: first one of every distinct key in stream order, then filled up by stride"""
    pool = [(q, a) for q, a in pairs if ok(q, a)]
    out, seen = [], set()
    for q, a in pool:
        if len(out) < k and key(q, a) not in seen:
            seen.add(key(q, a)); out.append((q, a))
    step = max(1, len(pool) // (k + 1))
    for q, a in pool[step // 2::step]:
        if len(out) < k and (q, a) not in out:
            out.append((q, a))
    return out


def xc_sample(streams):
    """streams: {'cuts2': [(request, answer)], 'cuts1': ..., 'feedB': ..., 'feedC': ..., 'wire': ..., <prim mode>: ...}"""
    def size(q):
        return sum(len(x) for x in q.split(" ")[1:]) // 2
    sample = sorted(streams.get("cuts2", []), key=lambda p: (size(p[0]), p[0]))[:2]          # O(n^2) segmentations: smallest
    sample += xc_pick(streams.get("cuts1", []), 4, lambda q, a: a.split(" ")[2], lambda q, a: size(q) <= 120)
    sample += xc_pick(streams.get("feedB", []), 4, lambda q, a: (min(len(q.split(" ")), 6), a.split(" ")[1].split("/")[0]),
                      lambda q, a: size(q) <= 1200)
    sample += xc_pick(streams.get("feedC", []), 3, lambda q, a: a.split(" ")[0], lambda q, a: size(q) <= 1200)
    sample += xc_pick(streams.get("wire", []), 4, lambda q, a: q.split(" ")[5][0], lambda q, a: size(q) <= 1200)
    for mode in ("int10b", "int10s", "int16", "title", "strips", "stripb"):
        # reversed: the hand-written corner cases (0x_1f, 1_000_000, 30-digit numbers, ...) are at the end of the stream
        sample += xc_pick(streams.get(mode, [])[::-1], 2, lambda q, a: a == "none" if mode.startswith("int") else a == q.split(" ")[1],
                          lambda q, a: 6 <= len(q.split(" ")[1]) <= 400)
    big = [(q, a) for q, a in streams.get("int10b", []) if len(q) > 8000 and len(set(q.split(" ")[1])) <= 2 and a == "none"][:2]   # 4300-digit limit
    sample = sample[:30] + big
    sample += xc_pick(streams.get("sfeed", []), 3, lambda q, a: a.split(" ")[0].split(":")[0] + a.split(" ")[1], lambda q, a: len(q) <= 3000)
    sample += sorted(streams.get("scuts1", []), key=lambda p: len(p[0]))[:1]
    return sample


def vm_crosscheck(ctx, sample):
    """Evaluate the sampled driver requests with vm_compute inside Coq (same Gallina functions as ocaml/drv_c07.ml
    calls) and compare the full structured result with the driver's answer: takes extraction + ocaml/drv*.ml out
    of the single-point-of-trust position.  -> (requests evaluated, [(request, driver answer, vm_compute value)])"""
    body = XC_PRELUDE + "".join(f"Eval vm_compute in ({coq_request(q)}).\n" for q, _ in sample)
    out = coq_eval(ctx["verif"], "C07", "crosscheck", body, timeout=120)
    blocks = out.split("= ")[1:]
    bad = []
    if len(blocks) != len(sample):
        bad.append(("<all>", f"{len(sample)} requests", f"{len(blocks)} vm_compute results"))
    for (q, a), blk in zip(sample, blocks):
        got = [int(x) for x in re.findall(r"-?\d+", blk.split(":")[0])]
        if z_answer(q, a) != got:
            bad.append((q, a, got))
    return len(blocks), bad


# ---------------------------------------------------------------- run
def run(ctx):
    return asyncio.run(_run(ctx))


async def _run(ctx):
    tier, seed = ctx["tier"], ctx["seed"]
    drv = Driver(ctx["driver"])
    impl = Impl()
    cov = SegCoverage("case = (byte stream, segmentation into reads); distinct by (stream, cut positions); non-trivial = "
                      "at least one message delivered or an exception escaped (not a pure wait-for-more-bytes run)")
    viols = []
    seen_keys = set()
    obs = dict(excluded_streams=0, excluded_segmentation_dependent=0, unmodelled_streams=0, excluded_sample=None)

    def add(key, what, found, **payload):
        if key in seen_keys:
            return
        seen_keys.add(key)
        viols.append(violation(key, what, found, **payload))

    def check_wf(stream_msgs, s, cuts, got, want, model):
        """want = oracle result for a well-formed stream"""
        if got != want:
            whole = impl.run([s])
            fr = first_diff_framing(stream_msgs, got, want)
            if whole != want:
                add(f"wf:uncut:{fr}", f"well-formed stream is not parsed to the messages that were sent, even in one read "
                    f"(first differing message has framing '{fr}')", True, stream=hx(s), cuts=[], impl=whole, expected=want)
            else:
                for c in cuts:                       # smallest replay: a single cut if one suffices
                    if impl.run(split(s, (c,))) != want:
                        cuts, got = (c,), impl.run(split(s, (c,)))
                        break
                add(f"wf:cut:{fr}", f"well-formed stream: reads cut at {list(cuts)} change the delivered messages "
                    f"(first differing message has framing '{fr}')", True, stream=hx(s), cuts=list(cuts), impl=got,
                    impl_one_piece=whole, expected=want)
            return False
        if model is not None and got != model:
            add("wf:model-mismatch", f"implementation {got[:120]} != model {model[:120]}", False, stream=hx(s), cuts=list(cuts),
                impl=got, model=model, broken="correspondence Model/Http.v <-> http/response.py + data_received")
        return True

    # ---- A: exhaustive single and double cuts of well-formed streams <= 160 bytes
    ex_streams = gen_exhaustive(tier, rng(seed, "c07ex"))
    ex_bytes = [b"".join(m[0] for m in ms) for ms in ex_streams]
    xc = dict(wire=[])                   # (request, answer) pairs of every driver request kind, for vm_crosscheck
    lines = ["cuts2 " + hx(s) for s in ex_bytes]
    answers = par_batch(drv, lines)
    xc["cuts2"] = list(zip(lines, answers))
    n_ex_cases = 0
    for ms, s, ans in zip(ex_streams, ex_bytes, answers):
        t = ans.split(" ", 2)
        bad, total, model = int(t[0]), int(t[1]), model_canon(t[2])
        want = canon_msgs("run", [m[1] for m in ms])
        ref_msgs, ref_status = ref_parse(s)
        if ref_status != "complete" or canon_msgs("run", ref_msgs) != want:
            raise RuntimeError(f"generator/reference disagree on {s!r}: {ref_status}")
        if bad:
            add("model-self-inconsistent", "extracted model is segmentation dependent on a stream (contradicts hfeed_app)", False, stream=hx(s))
        if model != want:
            add("wf:model-vs-reference", f"model {model[:120]} != reference {want[:120]} on a well-formed stream (contradicts hfeed_correct)",
                False, stream=hx(s), model=model, expected=want)
        ok = check_wf(ms, s, (), impl.run([s]), want, model)
        n = 1
        for cuts in all_cuts(len(s), True):
            got = impl.run(split(s, cuts))
            n += 1
            if got != want and ok:
                ok = check_wf(ms, s, cuts, got, want, model)
        if n - 1 != total:
            raise RuntimeError("cut enumeration differs between harness and driver")
        n_ex_cases += n
        cov.bulk(n, n, stream="A-exhaustive-2cut", messages=len(ms), stream_len=(len(s) // 20) * 20,
                 framing="+".join(m[2] for m in ms) if len(ms) <= 2 else "triple")
        if len(cov.samples) < 4:
            cov.samples.append(dict(stream="A", bytes=s.decode("latin1"), segmentations=n, delivered=len(ms)))
    check_wires(drv, [m for ms in ex_streams for m in ms], add, xc["wire"])
    cov.extra["exhaustive"] = True
    cov.extra["exhaustive_part"] = (f"{len(ex_streams)} well-formed streams <= 160 bytes (every catalogue message alone, every ordered pair" + (" of 6 of them" if tier == "quick" else "") + f", "
                                    f"{3 if tier == 'quick' else 260} sampled triples): every single and every double cut position, "
                                    f"{n_ex_cases} segmentations")

    # ---- B: random well-formed sequences, boundary-size bodies, random multi-cuts
    r = rng(seed, "c07rand")
    n_rand = 1200 if tier == "quick" else 40000
    cases = []
    for i in range(n_rand):
        ms = [rand_msg(r, maxbody=r.choice([40, 300, 2048])) for _ in range(r.choice([1, 2, 3, 4, 6]))]
        s = b"".join(m[0] for m in ms)
        tail = b""
        if r.random() < 0.25:                      # an incomplete next message must not be delivered
            nxt = rand_msg(r, 40)[0]
            tail = nxt[: r.randrange(1, len(nxt))] if len(nxt) > 1 else b""
            if ref_parse(s + tail)[1] != "incomplete":
                tail = b""
        k = r.choice([1, 2, 3, 5, 8, 13, 40])
        if r.random() < 0.05 and (tier != "quick" or len(s + tail) <= 800):
            cuts = tuple(range(1, len(s + tail)))     # byte by byte
        elif r.random() < 0.08:
            cuts = ()                                 # everything in one read
        else:
            cuts = rand_cuts(r, s + tail, k)
        cases.append((ms, s + tail, cuts))
    lines = ["feed " + " ".join(hx(p) for p in split(s, cuts)) for ms, s, cuts in cases]
    answers = drv.batch(lines)
    xc["feedB"] = list(zip(lines, answers))
    check_wires(drv, [m for ms, s, cuts in cases for m in ms], add, xc["wire"])
    for (ms, s, cuts), ans in zip(cases, answers):
        want = canon_msgs("run", [m[1] for m in ms])
        ref_msgs, ref_status = ref_parse(s)
        if ref_status not in ("complete", "incomplete") or canon_msgs("run", ref_msgs) != want:
            raise RuntimeError(f"generator/reference disagree: {ref_status}")
        got = impl.run(split(s, cuts))
        check_wf(ms, s, cuts, got, want, model_canon(ans))
        cov.case("B" + hx(s) + repr(cuts), len(ms) > 0,
                 sample=dict(stream="B", stream_len=len(s), cuts=list(cuts)[:12], delivered=len(ms)) if cov.evaluations % 997 == 0 else None,
                 stream="B-random-multicut", messages=len(ms), n_cuts=min(len(cuts), 50) if len(cuts) < 50 else "bytewise",
                 framing="+".join(sorted({m[2] for m in ms})), body_len=max(len(m[1][5]) for m in ms))

    # ---- B2: large messages (8 KiB..64 KiB bodies, fixed-length and chunked) delivered whole, in 16 KiB / 8 KiB reads and
    #          cut around the end of the header block; alone, behind a small event, in front of a small message.
    #          (asyncio hands up to 256 KiB to one data_received on the plain connection.)
    r = rng(seed, "c07large")
    sizes = [8193, 16384, 40000] if tier == "quick" else [8100, 8192, 8193, 9000, 16384, 20000, 40000, 65535, 65536, 100000]
    small_ev = render("E", 200, "OK", [], "cl", b"{\"a\":1}", fr_name="Content-Length")
    small_nb = render("H", 204, "No Content", [], "none", b"")
    lcases = []
    for n in sizes:
        body = bytes((i * 7 + n) & 0xFF for i in range(n))
        bigs = [render("H", 200, "OK", [("Content-Type", ": ", "application/hap+json")], "cl", body, fr_name="Content-Length"),
                render("H", 200, "OK", [("Content-Type", ": ", "application/hap+json")], "chunked", body,
                       chunks=[4096] * (n // 4096) + ([n % 4096] if n % 4096 else []), hexfmt="%x"),
                render("E", 200, "OK", [], "chunked", body, chunks=[n], hexfmt="%X", fr_name="transfer-encoding")]
        if tier == "quick":
            bigs = bigs[: 2 if n != 16384 else 3]
        for big in bigs:
            for shape in ([big], [small_ev, big], [big, small_nb], [small_nb, big, small_ev]):
                if tier == "quick" and len(shape) == 3 and n != 8193:
                    continue
                s = b"".join(m[0] for m in shape)
                start = sum(len(m[0]) for m in shape[: shape.index(big)])
                hend = start + big[0].find(b"\r\n\r\n") + 4                     # first body byte of the large message
                segl = [(), tuple(range(16384, len(s), 16384)), tuple(range(8192, len(s), 8192)), (hend,), (hend - 1,),
                        (hend + 1,), (hend - 2, min(len(s) - 1, hend + 8192)), (8193,), (1,), (len(s) - 1,)]
                if start:
                    segl += [(start,), (start - 1,)]
                for cuts in segl:
                    cuts = tuple(sorted({c for c in cuts if 0 < c < len(s)}))
                    lcases.append((shape, s, cuts))
    lines = ["feed " + " ".join(hx(p) for p in split(s, cuts)) for ms, s, cuts in lcases]
    answers = par_batch(drv, lines)
    for (ms, s, cuts), ans in zip(lcases, answers):
        want = canon_msgs("run", [m[1] for m in ms])
        check_wf(ms, s, cuts, impl.run(split(s, cuts)), want, model_canon(ans))
        cov.case("L" + str(len(s)) + ms[-1][2] + repr(cuts) + str(len(ms)), True,
                 sample=dict(stream="B2", stream_len=len(s), cuts=list(cuts)[:6], delivered=len(ms)) if len(cuts) == 1 and len(ms) == 2 and cov.evaluations % 7 == 0 else None,
                 stream="B2-large", messages=len(ms), large_read=max(len(p) for p in split(s, cuts)) // 8192 * 8192,
                 large_body=max(len(m[1][5]) for m in ms), framing="+".join(m[2] for m in ms))

    # ---- C: mutated streams: all single cuts when short, random cuts otherwise
    r = rng(seed, "c07mut")
    n_mut = 800 if tier == "quick" else 25000
    mcases = []
    for i in range(n_mut):
        ms = [rand_msg(r, maxbody=40) for _ in range(r.choice([1, 2, 3]))]
        s = mutate(r, b"".join(m[0] for m in ms))
        if r.random() < 0.3:
            s = mutate(r, s)
        mcases.append(s)
    lines = []
    for s in mcases:
        lines.append(("cuts1 " if len(s) <= 220 else "feed ") + hx(s))
    answers = par_batch(drv, lines)
    xc["cuts1"] = [(q, a) for q, a in zip(lines, answers) if q.startswith("cuts1 ")]
    xc["feedC"] = [(q, a) for q, a in zip(lines, answers) if q.startswith("feed ")]
    multi = []
    for s, ans in zip(mcases, answers):
        if len(s) <= 220:
            t = ans.split(" ", 2)
            bad, model = int(t[0]), model_canon(t[2])
            if bad:
                add("model-self-inconsistent", "extracted model is segmentation dependent on a stream (contradicts hfeed_app)", False, stream=hx(s))
            seglist = [()] + [(i,) for i in range(1, len(s))]
        else:
            model = model_canon(ans)
            seglist = [()] + [rand_cuts(r, s, r.choice([1, 2, 5, 12])) for _ in range(6)]
            multi.append((s, seglist[1:]))
        mclass = model.split(" ")[0]
        ref_msgs, ref_status = ref_parse(s)
        whole = impl.run([s])
        dep = False
        for cuts in seglist:
            got = whole if not cuts else impl.run(split(s, cuts))
            if got != whole:
                dep = True
            if mclass in ("illformed", "unmodelled"):
                continue
            if got != model:
                # not on the property's domain unless the reference accepts the stream
                if ref_status in ("complete", "incomplete") and got != canon_msgs("run", ref_msgs):
                    add("wf:mutated-still-wellformed", "a stream the strict reference accepts is parsed differently", True,
                        stream=hx(s), cuts=list(cuts), impl=got, expected=canon_msgs("run", ref_msgs))
                else:
                    add("malformed:model-mismatch" + (":cut" if got != whole else ""),
                        f"malformed/unusual stream: implementation {got[:100]} != model {model[:100]}", False, stream=hx(s),
                        cuts=list(cuts), impl=got, impl_one_piece=whole, model=model, reference_status=ref_status,
                        broken="correspondence Model/Http.v <-> http/response.py + data_received")
        if mclass == "illformed":
            obs["excluded_streams"] += 1
            if dep:
                obs["excluded_segmentation_dependent"] += 1
                if obs["excluded_sample"] is None:
                    obs["excluded_sample"] = dict(stream=s.decode("latin1"), note="implementation result depends on the cut (ill-formed: excluded by the theorem)")
        elif mclass == "unmodelled":
            obs["unmodelled_streams"] += 1
        cov.bulk(len(seglist), len(seglist) if (whole != "run 0") else 0, stream="C-mutated", model_class=mclass,
                 reference_status=ref_status.split(":")[0])
        if len(cov.samples) < 10 and mclass in ("crash", "illformed"):
            cov.samples.append(dict(stream="C", bytes=s.decode("latin1")[:160], model_class=mclass, impl=whole[:60]))
    if multi:
        lines = ["feed " + " ".join(hx(p) for p in split(s, cuts)) for s, segs in multi for cuts in segs]
        answers = drv.batch(lines)
        xc["feedC"] += list(zip(lines, answers))
        k = 0
        for s, segs in multi:
            for cuts in segs:
                model = model_canon(answers[k]); k += 1
                if model.split(" ")[0] in ("illformed", "unmodelled"):
                    continue
                got = impl.run(split(s, cuts))
                if got != model:
                    add("malformed:model-mismatch:cut", f"malformed/unusual stream: implementation {got[:100]} != model {model[:100]}", False,
                        stream=hx(s), cuts=list(cuts), impl=got, model=model)

    # ---- E: the same parser behind the encrypted session (real SecureHomeKitProtocol, real cipher): harness/c07sec.py
    from c07sec import run_secure
    run_secure(ctx, drv, cov, add, xc, canon_msgs, catalogue, rand_msg, mutate, par_batch)

    # ---- R: the secure model AT THE REAL CIPHER (Proofs/HttpSecureReal.v) evaluated by vm_compute inside Coq against the
    #         real SecureHomeKitProtocol + parser, read by read: harness/c07real.py
    from c07real import run_real
    run_real(ctx, cov, add, canon_msgs, catalogue, rand_msg, mutate)

    # ---- D: the model's int()/title()/strip() against CPython
    prims = list(prim_cases(tier))
    for mode in ("int10b", "int10s", "int16"):
        # base 16 has no digit limit, but CPython cannot print a result of more than 4300 decimal digits
        pm = prims if mode != "int16" else [b for b in prims if len(b) <= 3500]
        ans = drv.batch([f"{mode} {hx(b)}" for b in pm])
        xc[mode] = [(f"{mode} {hx(b)}", a) for b, a in zip(pm, ans)]
        for b, a in zip(pm, ans):
            if a != py_int(b, mode):
                add(f"prim:{mode}", f"model {mode}({b!r}) = {a}, CPython = {py_int(b, mode)}", False, input=hx(b))
    for mode, f in (("title", lambda x: x.decode().title().encode()), ("strips", lambda x: x.decode().strip().encode()),
                    ("stripb", lambda x: bytes(bytearray(x).strip()))):
        ans = drv.batch([f"{mode} {hx(b)}" for b in prims])
        xc[mode] = [(f"{mode} {hx(b)}", a) for b, a in zip(prims, ans)]
        for b, a in zip(prims, ans):
            if a != hx(f(b)):
                add(f"prim:{mode}", f"model {mode}({b!r}) = {a}, CPython = {hx(f(b))}", False, input=hx(b))
    cov.bulk(6 * len(prims), 0, stream="D-primitives")

    # ---- kernel cross-check: a sample of the requests above re-evaluated by vm_compute inside Coq
    sample = xc_sample(xc)
    n_xc, bad = vm_crosscheck(ctx, sample)
    kinds = sorted({q.split(" ")[0] for q, _ in sample})
    cov.extra["vm_compute_crosscheck"] = dict(requests=n_xc, disagreements=len(bad), request_kinds=kinds)
    if bad:
        add("extraction-vs-vm_compute", f"{len(bad)} of {n_xc} sampled requests: extracted driver and vm_compute disagree; first: "
            f"request {bad[0][0][:120]} driver {str(bad[0][1])[:120]} vm_compute {str(bad[0][2])[:120]}", False,
            request=bad[0][0], driver=bad[0][1], vm_compute=str(bad[0][2])[:2000], broken="extraction / ocaml driver glue")

    cov.extra["observations"] = obs
    cov.extra["wf_domain"] = ("every generated well-formed message is checked (driver request 'wire') to satisfy wf_wire, the hypothesis of hfeed_correct, and to render to the same bytes. Property claimed for well-formed messages (strict grammar in harness/ref/http_ref.py). Explicitly excluded as "
                              "ill-formed (model class 'illformed', counted under observations, never a violation): a message with both "
                              "Transfer-Encoding: chunked and a positive Content-Length; a negative chunk size. Not modelled: status/header "
                              "lines with bytes >= 0x80 (model class 'unmodelled': implementation checked for nothing there).")
    return dict(coverage=cov.to_dict(), violations=viols)
