"""C16 correspondence: aiohomekit.tlv8 (TLVStruct, tlv_iterator, tlv_array, (de)serialisers) vs Model/Tlv8.v.

Nothing about the message types is copied: every TLVStruct subclass in the aiohomekit package is found by
reflection at run time, converted to the model's schema syntax (see ocaml/drv_c16.ml), and the *model*
evaluates wf_schema on it.  Values are generated per field kind at the boundary sizes {1,254,255,256,510,511}
(plus 0 = "set but empty" in the out-of-domain stream), with unset fields, nested structs and lists.

For every case three parties are compared: the implementation (real code), the extracted Coq model and the
independent reference codec harness/ref/tlv8struct.py.  The reference decides whether the implementation
violates the property on the round-trip domain (model `fits_msg`, cross-checked with the reference `ref_fits`):
   canonical : cls(**v).encode() == reference encoding
   roundtrip : cls.decode(cls(**v).encode()) == v
   order     : cls.decode(reference encoding with the items of every struct shuffled) == v
Outside that domain (set-but-empty fields, empty list elements, out-of-range ints, non-member enums, fields of
unsupported type, malformed bytes) implementation and model are compared exactly (result class and value).
"""
from __future__ import annotations

import base64
import collections
import collections.abc
import dataclasses
import enum
import importlib
import pkgutil
import struct as _struct
import typing

from common import Coverage, Driver, hx, rng, unhx, violation
from ref import tlv8struct as ref

SIZES = [1, 254, 255, 256, 510, 511]
INT_KINDS = {"u8": (1, False), "u16": (2, False), "bu16": (2, True), "u32": (4, False), "u64": (8, False), "u128": (16, False)}


# ============================================================================ reflection
def reflect():
    """-> (types, import_failures).  types: list of dict(cls, name, node) sorted by name."""
    import aiohomekit
    from aiohomekit import tlv8

    failures = []
    for m in pkgutil.walk_packages(aiohomekit.__path__, "aiohomekit."):
        try:
            importlib.import_module(m.name)
        except Exception as e:  # noqa  optional dependencies of some transports
            failures.append(f"{m.name}: {type(e).__name__}")
    seen, stack = [], list(tlv8.TLVStruct.__subclasses__())
    while stack:
        c = stack.pop()
        if c in seen:
            continue
        seen.append(c)
        stack.extend(c.__subclasses__())
    classes = [c for c in seen if c.__module__.startswith("aiohomekit") and dataclasses.is_dataclass(c)]
    classes.sort(key=lambda c: (c.__module__, c.__qualname__))
    kinds = {getattr(tlv8, k): k for k in INT_KINDS}

    def int_kind(tp):
        for base in getattr(tp, "__mro__", ()):
            if base in kinds:
                return kinds[base]
        return None

    def classify(tp, stack):
        origin = typing.get_origin(tp)
        if origin is not None:
            args = typing.get_args(tp)
            if isinstance(origin, type) and issubclass(origin, collections.abc.Sequence) and origin not in (str, bytes) \
                    and len(args) == 1 and isinstance(args[0], type):
                inner = args[0]
                if issubclass(inner, tlv8.TLVStruct) and dataclasses.is_dataclass(inner) and inner not in stack:
                    return dict(struct_node(inner, stack), k="seq")
                ik = int_kind(inner)
                if ik:
                    return dict(k="pint", kind=ik, w=INT_KINDS[ik][0], be=INT_KINDS[ik][1])
            return dict(k="unsupp", why=repr(tp))
        if isinstance(tp, type):
            for base in tp.__mro__:
                if base in kinds:
                    ik = kinds[base]
                    return dict(k="int", kind=ik, w=INT_KINDS[ik][0], be=INT_KINDS[ik][1])
                if base is str:
                    return dict(k="str")
                if base is enum.IntEnum:
                    members = sorted({int(m) for m in tp})
                    if any(m < 0 for m in members):
                        return dict(k="unsupp", why="negative enum member")
                    return dict(k="enum", members=members, cls=tp)
                if base is tlv8.TLVStruct:
                    if tp in stack or not dataclasses.is_dataclass(tp):
                        return dict(k="unsupp", why="recursive struct")
                    return struct_node(tp, stack)
                if base is bytes:
                    return dict(k="bytes")
        return dict(k="unsupp", why=repr(tp))

    def struct_node(cls, stack):
        fs, names = [], []
        for f in dataclasses.fields(cls):
            if not f.init:
                continue
            fs.append((int(f.metadata["tlv_type"]), classify(f.type, stack + [cls])))
            names.append(f.name)
        return dict(k="struct", fields=fs, names=names, cls=cls)

    types = [dict(cls=c, name=c.__qualname__, module=c.__module__, node=struct_node(c, [])) for c in classes]
    return types, failures


def sch_str(node) -> str:
    k = node["k"]
    if k == "int":
        return node["kind"]
    if k == "enum":
        return "e(" + ",".join(str(m) for m in node["members"]) + ")"
    if k == "str":
        return "s"
    if k == "bytes":
        return "b"
    if k in ("struct", "seq"):
        return ("S[" if k == "struct" else "Q[") + ";".join(f"{t}:{sch_str(n)}" for t, n in node["fields"]) + "]"
    if k == "pint":
        return "P" + node["kind"]
    return "x"


# ============================================================================ values: neutral <-> model syntax <-> python objects
class Bad(str):
    """marker for an implementation result of an unexpected Python type: prints as ?<type>, equal to nothing the model prints"""


def val_str(node, v) -> str:
    k = node["k"]
    try:
        if isinstance(v, Bad):
            return str(v)
        if k == "unsupp":
            return "i1"
        if k in ("int", "enum"):
            return "i" + str(int(v))
        if k == "str":
            return "h" + hx(v.encode("utf-8"))
        if k == "bytes":
            return "h" + hx(v)
        if k == "struct":
            return fields_str(node, v)
        if k == "seq":
            return "L[" + ";".join(fields_str(node, e) for e in v) + "]"
        if k == "pint":
            return "I(" + ",".join(str(int(x)) for x in v) + ")"
    except Exception as e:  # noqa
        return Bad("?" + type(e).__name__)
    return Bad("?unsupp")


def fields_str(node, vs) -> str:
    if isinstance(vs, Bad):
        return str(vs)
    return "V[" + ";".join("_" if v is None else val_str(n, v) for (_, n), v in zip(node["fields"], vs)) + "]"


def to_py(node, v):
    k = node["k"]
    if k == "enum":
        try:
            return node["cls"](v)
        except ValueError:
            return v
    if k == "struct":
        return obj_of(node, v)
    if k == "seq":
        return [obj_of(node, e) for e in v]
    if k == "pint":
        return list(v)
    return v


def obj_of(node, vs):
    return node["cls"](**{name: to_py(n, v) for name, (_, n), v in zip(node["names"], node["fields"], vs) if v is not None})


def from_py(node, o):
    """decoded python object -> neutral value; anything of an unexpected shape becomes '?...' (never equal)"""
    k = node["k"]
    try:
        if k in ("int", "enum"):
            if isinstance(o, bool) or not isinstance(o, int):
                return Bad("?" + type(o).__name__)
            return int(o)
        if k == "str":
            return o if isinstance(o, str) else "?" + type(o).__name__
        if k == "bytes":
            return bytes(o) if isinstance(o, (bytes, bytearray)) else "?" + type(o).__name__
        if k == "struct":
            return vals_of(node, o)
        if k == "seq":
            return [vals_of(node, e) for e in o] if isinstance(o, list) else "?" + type(o).__name__
        if k == "pint":
            if not isinstance(o, list) or any(isinstance(x, bool) or not isinstance(x, int) for x in o):
                return Bad("?" + type(o).__name__)
            return [int(x) for x in o]
    except Exception as e:  # noqa
        return Bad("?" + type(e).__name__)
    return Bad("?unsupp")


def vals_of(node, o):
    if not isinstance(o, node["cls"]):
        return Bad("?" + type(o).__name__)
    out = []
    for name, (_, n) in zip(node["names"], node["fields"]):
        x = getattr(o, name)
        out.append(None if x is None else from_py(n, x))
    return out


def exc_class(e: BaseException) -> str:
    from aiohomekit.tlv8 import TlvParseException, TlvSerializeException
    if isinstance(e, TlvParseException):
        return "err parse"
    if isinstance(e, TlvSerializeException):
        return "err serialize"
    if isinstance(e, (_struct.error, OverflowError)):
        return "err range"
    if isinstance(e, ValueError):
        return "err value"
    if isinstance(e, IndexError):
        return "crash"
    if isinstance(e, AttributeError):
        return "err attr"
    return "other:" + type(e).__name__


def impl_encode(node, vs) -> str:
    try:
        o = obj_of(node, vs)
    except Exception as e:  # noqa
        return "other:construct:" + type(e).__name__
    try:
        return "ok " + hx(o.encode())
    except Exception as e:  # noqa
        return exc_class(e)


def impl_decode(node, bs) -> str:
    try:
        o = node["cls"].decode(bytes(bs))
    except Exception as e:  # noqa
        return exc_class(e)
    return "ok " + fields_str(node, vals_of(node, o))



# ============================================================================ structured ("magic") constants
# Uniform and boundary values never hit code that special-cases values with DOMAIN meaning (a 128-bit type built on the
# HAP base UUID, a port number, an ASCII-looking word, a sign bit, ...).  Two sources:
#   * generic bit patterns for every width: sign/carry boundaries at every byte position, repeated bytes, all-ones halves,
#     ascending/descending bytes, ASCII-looking bytes, a single odd byte inside all-ones / all-zeros;
#   * constants harvested by reflection from the installed aiohomekit package itself: every UUID-looking string and every
#     integer constant found in module and class namespaces (service / characteristic type tables, TLV tags, status codes,
#     ports).  For 128-bit fields the harvested UUIDs are also analysed for a common "base" (most frequent low 96 bits) which
#     is spliced with boundary prefixes, and perturbed into near misses.
_HARVEST = None


def harvest_constants():
    """-> dict(uuids=[int...], ints=[int...], bases=[low-96-bit patterns by frequency]) from the loaded aiohomekit modules"""
    global _HARVEST
    if _HARVEST is not None:
        return _HARVEST
    import re
    import sys
    uu = re.compile(r"^[0-9a-fA-F]{8}-[0-9a-fA-F]{4}-[0-9a-fA-F]{4}-[0-9a-fA-F]{4}-[0-9a-fA-F]{12}$")
    uuids, ints = set(), set()

    def scan(ns, depth):
        for name, v in list(ns.items()):
            if name.startswith("__"):
                continue
            if isinstance(v, str):
                if uu.match(v):
                    uuids.add(int(v.replace("-", ""), 16))
            elif isinstance(v, bool):
                continue
            elif isinstance(v, int):
                if 0 <= int(v) < (1 << 128):
                    ints.add(int(v))
            elif isinstance(v, dict) and depth < 2:
                for k2 in list(v.keys())[:2000]:
                    if isinstance(k2, str) and uu.match(k2):
                        uuids.add(int(k2.replace("-", ""), 16))
                    elif isinstance(k2, int) and not isinstance(k2, bool) and 0 <= k2 < (1 << 128):
                        ints.add(int(k2))
            elif isinstance(v, type) and depth < 2 and getattr(v, "__module__", "").startswith("aiohomekit"):
                try:
                    scan(vars(v), depth + 1)
                except Exception:  # noqa
                    pass
    for mname, mod in sorted(sys.modules.items()):
        if mname.startswith("aiohomekit") and mod is not None:
            try:
                scan(vars(mod), 0)
            except Exception:  # noqa
                pass
    lows = collections.Counter(u & ((1 << 96) - 1) for u in uuids)
    bases = [b for b, c in lows.most_common(3) if c >= 3]
    _HARVEST = dict(uuids=sorted(uuids), ints=sorted(ints), bases=bases)
    return _HARVEST


def pattern_ints(w):
    """generic structured bit patterns of a w-byte unsigned integer"""
    top = (1 << (8 * w)) - 1
    out = set()
    for k in range(1, w + 1):                      # sign / carry boundaries at every byte position
        for x in ((1 << (8 * k - 1)) - 1, 1 << (8 * k - 1), (1 << (8 * k)) - 1, 1 << (8 * k), (1 << (8 * k)) + 1):
            out.add(x & top)
    for b in (0x01, 0x7F, 0x80, 0xAA, 0x55, 0xFE, 0x20, 0x30, 0x41, 0x61):   # one byte repeated (incl. ASCII ' ', '0', 'A', 'a')
        out.add(int.from_bytes(bytes([b]) * w, "little"))
    out.add(int.from_bytes(bytes(range(1, w + 1)), "little"))                  # ascending / descending bytes
    out.add(int.from_bytes(bytes(range(1, w + 1)), "big"))
    out.add(int.from_bytes(b"null-None-true-0"[:w].ljust(w, b"x"), "big"))     # ASCII words
    if w >= 2:
        half = 8 * w // 2
        out |= {top >> half, (top >> half) << half, 0xFEFF & top, 0xFFFE & top}  # all-ones halves, byte-order marks
        for pos in (0, w - 1):                                                  # one odd byte inside all-ones / all-zeros
            out.add(top ^ (0xFF << (8 * pos)))
            out.add(top ^ (0x7F << (8 * pos)))
            out.add(0x80 << (8 * pos))
    return sorted(out)


def magic_ints(w, r, limit):
    """structured constants for a w-byte field: patterns + harvested package constants (+ UUID bases for 128 bit)"""
    top = (1 << (8 * w)) - 1
    h = harvest_constants()
    out = list(pattern_ints(w))
    fit = [x for x in h["ints"] if (1 << (8 * (w - 1)) if w > 1 else 0) <= x <= top] or [x for x in h["ints"] if x <= top]
    out += r.sample(fit, min(len(fit), 12))
    if w == 16:
        mask96 = (1 << 96) - 1
        bases = list(h["bases"]) or []
        bases.append(0x0000_1000_8000_00805F9B34FB)                            # the Bluetooth base UUID (BLE transports)
        for base in bases:
            for pre in (1, 0x43, 0xFF, 0x100, 0x7FFFFFFF, 0x80000000, 0xFFFFFFFF):
                out.append((pre << 96) | base)                                  # <prefix>-<base>
            out += [base, (1 << 96) | (base ^ 1), (1 << 96) | (base ^ (1 << 95)), (1 << 96) | ((base + 1) & mask96),
                    (0x43 << 96) | (base >> 8), ((0x43 << 96) | base) ^ (1 << 40)]   # base alone and near misses
        us = h["uuids"]
        out += r.sample(us, min(len(us), limit))                                # real service / characteristic types
        if len(us) >= 2:                                                        # high part of one, low part of another
            for _ in range(4):
                a, b = r.sample(us, 2)
                out.append(((a >> 64) << 64) | (b & ((1 << 64) - 1)))
        out += [u >> 96 for u in r.sample(us, min(len(us), 6)) if u >> 96]      # their short forms
    seen, res = set(), []
    for x in out:
        if 0 <= x <= top and x not in seen:
            seen.add(x)
            res.append(x)
    return res


MAGIC_BYTES = [b"\x00", b"\xff", b"\x00\x00", b"\xff\xff", b"null", b"None", b"true", b"0", b" ", b"\xef\xbb\xbf", b"\xff\xfe",
               b"\x91\x52\x76\xbb\x26\x00\x00\x80\x00\x10\x00\x00\x43\x00\x00\x00",          # a HAP-base UUID, little endian
               b"00000043-0000-1000-8000-0026BB765291", b"\x7f", b"\x80", b"\r\n", b"{}", b"[]", b"\x1b[0m"]
MAGIC_STRS = ["0", " ", "null", "None", "true", "﻿", "\x00", "\x7f", "00000043-0000-1000-8000-0026BB765291", "{}", "\r\n",
              "‮", "A" * 16, "é", "\U0001F600"]

# ============================================================================ generators
def leaf_variants(node, tag, r, tier):
    k = node["k"]
    if k == "int":
        top = (1 << (8 * node["w"])) - 1
        base = {0, 1, top, top >> 1, (top >> 1) + 1, 0x0100 & top, 0xFF & top, r.randrange(top + 1)}
        return sorted(base | set(magic_ints(node["w"], r, 12 if tier == "quick" else 150)))
    if k == "enum":
        return node["members"][:8]
    if k == "str":
        out = []
        for n in SIZES:
            out.append("".join(chr(0x61 + (i % 26)) for i in range(n)))
        for n in (2, 255, 256, 511):
            out.append("é" * (n // 2) + ("z" if n % 2 else ""))          # 2-byte sequences straddling the cut
        out.append("€" * 85)                                             # 255 bytes of 3-byte sequences
        out.append("\U0001F600" * 64)                                         # 256 bytes of 4-byte sequences
        return out + MAGIC_STRS
    if k == "bytes":
        out = []
        for n in SIZES:
            out.append(bytes((i * 7 + n) & 0xFF for i in range(n)))
        for n in (255, 510, 511):
            out.append(bytes([tag & 0xFF]) * n)                               # data that looks like the own type byte
            out.append(bytes(n))                                              # data that looks like list separators
            out.append(b"\xff" * n)
        if tier != "quick":
            for n in (765, 1020, 1021):
                out.append(bytes((i * 13) & 0xFF for i in range(n)))
        return out + MAGIC_BYTES
    if k == "pint":
        out = []
        top = (1 << (8 * node["w"])) - 1
        for b in range(256):                                                  # every byte value, in every byte position
            n = (b % 6) + 1
            ids = []
            for i in range(n):
                x = 0
                for j in range(node["w"]):
                    x |= ((b + 7 * i + 31 * j) & 0xFF) << (8 * j)
                ids.append(x)
            ids[0] = sum(b << (8 * j) for j in range(node["w"]))
            out.append(ids)
        out += [[0], [top], [0, 0], [1, 2, 3, 4, 5, 6], [0x0010, 0x0020] if node["w"] == 2 else [1, 2]]
        if node["w"] == 2:
            # single ids: every (low, high) byte pair in the thorough tier, the boundary rows/columns in the quick tier
            his = range(256) if tier != "quick" else (0, 1, 2, 16, 254, 255)
            singles = {lo | (hi << 8) for lo in range(256) for hi in his} | {lo | (hi << 8) for lo in (0, 1, 255) for hi in range(256)}
            out += [[x] for x in sorted(singles)]
            out += [[0x0100, 0x0010], [0x0101, 0x0005], [0x2000], [0xFA50], [0x2000, 0xFA50]]
        out.append([(i * 257) & top for i in range(128)])                     # 256 bytes for u16: crosses a fragment
        return out
    return []


def leaf_paths(node, depth=0):
    """paths (list of field indices) to every leaf field, through nested structs and lists"""
    out = []
    for i, (tag, n) in enumerate(node["fields"]):
        if n["k"] in ("struct", "seq"):
            out += [[i] + p for p in leaf_paths(n, depth + 1)]
        elif n["k"] != "unsupp":
            out.append([i])
    return out


def on_path(node, path, leaf, copies):
    """value with exactly the fields along [path] set; lists get [copies] equal elements"""
    vs = [None] * len(node["fields"])
    i = path[0]
    n = node["fields"][i][1]
    if len(path) == 1:
        vs[i] = leaf
    elif n["k"] == "struct":
        vs[i] = on_path(n, path[1:], leaf, copies)
    else:
        vs[i] = [on_path(n, path[1:], leaf, copies) for _ in range(copies)]
    return vs


def node_at(node, path):
    n = node
    tag = None
    for i in path:
        tag, n = n["fields"][i]
    return tag, n


def rand_leaf(node, tag, r):
    k = node["k"]
    if k == "int":
        top = (1 << (8 * node["w"])) - 1
        if r.random() < 0.35:
            return r.choice(magic_ints(node["w"], r, 8))
        return r.choice([0, 1, top, r.randrange(top + 1), r.randrange(256)])
    if k == "enum":
        return r.choice(node["members"])
    n = r.choice(SIZES + [1, 2, 3, 7, 16, r.randrange(1, 40), r.randrange(1, 600)])
    if k == "str":
        m = r.random()
        if m < 0.6:
            return "".join(chr(r.randrange(0x20, 0x7F)) for _ in range(n))
        s = "".join(r.choice(["a", "é", "€", "\U0001F600", "\x00", "\x7f"]) for _ in range(n))
        while len(s.encode()) > n and len(s) > 1:
            s = s[:-1]
        return s
    if k == "bytes":
        m = r.random()
        if m < 0.5:
            return bytes(r.getrandbits(8) for _ in range(n))
        return bytes(r.choice([0, tag & 0xFF, 0xFF, 1, 2]) for _ in range(n))
    if k == "pint":
        top = (1 << (8 * node["w"])) - 1
        return [r.choice([0, 1, top, r.randrange(top + 1)]) for _ in range(r.randrange(1, 7))]
    return None


def rand_fields(node, r, p_set, depth=0):
    vs = []
    for tag, n in node["fields"]:
        if r.random() > p_set or n["k"] == "unsupp":
            vs.append(None)
            continue
        if n["k"] == "struct":
            inner = rand_fields(n, r, p_set, depth + 1)
            vs.append(inner if any(x is not None for x in inner) else None)
        elif n["k"] == "seq":
            elems = []
            for _ in range(r.choice([1, 1, 2, 3]) if depth < 3 else 1):
                e = rand_fields(n, r, max(p_set, 0.5), depth + 1)
                if any(x is not None for x in e):
                    elems.append(e)
            vs.append(elems or None)
        else:
            vs.append(rand_leaf(n, tag, r))
    return vs


def out_of_domain(t, r):
    """values the wire format cannot represent or the serialisers reject; each with a label"""
    node = t["node"]
    out = []
    for path in all_paths(node):
        tag, n = node_at(node, path)
        k = n["k"]
        if k == "int":
            for x in ((1 << (8 * n["w"])), (1 << (8 * n["w"])) + 1):
                out.append(("int-overflow", on_path(node, path, x, 1)))
        elif k == "enum":
            non = [x for x in (0, 1, 2, 3, 7, 200, 255, 256, 300) if x not in n["members"]][:3]
            for x in non:
                out.append(("enum-non-member", on_path(node, path, x, 1)))
        elif k == "str":
            out.append(("empty-str", on_path(node, path, "", 1)))
        elif k == "bytes":
            out.append(("empty-bytes", on_path(node, path, b"", 1)))
        elif k == "pint":
            out.append(("empty-id-list", on_path(node, path, [], 1)))
            out.append(("id-overflow", on_path(node, path, [1, 1 << (8 * n["w"])], 1)))
        elif k == "struct":
            out.append(("empty-struct-field", on_path(node, path, [None] * len(n["fields"]), 1)))
        elif k == "seq":
            out.append(("empty-list", on_path(node, path, [], 1)))
            empty = [None] * len(n["fields"])
            some = rand_fields(n, r, 0.7, 2)
            if any(x is not None for x in some):
                out.append(("empty-list-element-last", on_path(node, path, [some, empty], 1)))
                out.append(("empty-list-element-middle", on_path(node, path, [some, empty, some], 1)))
                out.append(("empty-list-element-first", on_path(node, path, [empty, some], 1)))
            out.append(("empty-list-element-only", on_path(node, path, [empty], 1)))
        elif k == "unsupp":
            out.append(("unsupported-field-set", on_path(node, path, 1, 1)))
    return out


def all_paths(node):
    """paths to every field (leaf or not), prefix paths included"""
    out = []
    for i, (tag, n) in enumerate(node["fields"]):
        out.append([i])
        if n["k"] in ("struct", "seq"):
            out += [[i] + p for p in all_paths(n)]
    return out


# ---------------------------------------------------------------------------- long values and long lists (round 8, seed C16-O)
# The property says "including values over 255 bytes" without an upper bound, and the theorems are about values of ANY length,
# but until round 8 no generated value had more than 3 (thorough: 5) fragments and no list more than 3 elements: a bound on the
# number of re-joined fragments / on a length counter / on the element count was invisible.  Dimensions driven here:
#   fragments of ONE value: a ladder around powers of two and round numbers (k-1|k|k+1 fragments via lengths 255k-1, 255k, 255k+1),
#   lengths around 2^16, and list element counts around 2^4 .. 2^10; on every kind of position a long value can sit in
#   (top-level bytes/str, inside nested structs, inside list elements - there every enclosing container is long as well).
LONG_FRAGS = {"quick": [5, 9, 17, 33, 52, 65, 101, 129],
              "thorough": [4, 5, 8, 9, 10, 16, 17, 20, 32, 33, 50, 51, 52, 64, 65, 100, 101, 128, 129, 200, 256, 257, 258]}
LONG_SIZES = {"quick": [65537], "thorough": [1024, 4096, 8192, 16384, 32768, 65535, 65536, 65537, 131073]}
LIST_COUNTS = [4, 16, 64, 255, 256, 257, 1025]


def long_leaf(n, tag, size, flavour):
    if n["k"] == "str":
        if flavour % 2:
            return "\u00e9" * (size // 2) + ("z" if size % 2 else "")
        return "".join(chr(0x21 + ((i * 5 + size) % 90)) for i in range(size))
    f = flavour % 4
    if f == 0:
        return bytes((i * 7 + size) & 0xFF for i in range(size))
    if f == 1:
        return bytes([tag & 0xFF]) * size                                     # looks like the own type byte
    if f == 2:
        return (bytes([tag & 0xFF, 255]) * (size // 2 + 1))[:size]            # looks like continuation headers
    return bytes(size)                                                        # looks like list separators


def on_path_counts(node, path, leaf, counts):
    """like on_path, the list levels get counts[0], counts[1], ... elements (1 when exhausted)"""
    vs = [None] * len(node["fields"])
    i = path[0]
    n = node["fields"][i][1]
    if len(path) == 1:
        vs[i] = leaf
    elif n["k"] == "struct":
        vs[i] = on_path_counts(n, path[1:], leaf, counts)
    else:
        c, rest = (counts[0], counts[1:]) if counts else (1, [])
        e = on_path_counts(n, path[1:], leaf, rest)
        vs[i] = [e] + [on_path_counts(n, path[1:], leaf, rest) for _ in range(c - 1)]
    return vs


def max_list_len(node, vs) -> int:
    m = 0
    for (tag, n), v in zip(node["fields"], vs):
        if v is None:
            continue
        if n["k"] == "struct":
            m = max(m, max_list_len(n, v))
        elif n["k"] == "seq":
            m = max([m, len(v)] + [max_list_len(n, e) for e in v[:3]])
        elif n["k"] == "pint":
            m = max(m, len(v))
    return m


def pow2_bucket(n: int) -> str:
    if n <= 3:
        return str(n)
    lo = 1 << (n.bit_length() - 1)
    return f"{lo}..{2 * lo - 1}"


_LONG_ROT = [0, 0]     # rotating index into the ladders; number of types with a top-level long-capable field seen


def long_cases(ti, t, tier, seed):
    """values with ONE long leaf (many fragments) and values with ONE long list (many elements), everything else unset"""
    node = t["node"]
    out = []
    lp = leaf_paths(node)
    longable = [p for p in lp if node_at(node, p)[1]["k"] in ("bytes", "str")]
    if tier == "quick" and len(longable) > 3:
        deepest = max(longable, key=len)
        pick = [longable[0], longable[-1]] + ([deepest] if deepest not in (longable[0], longable[-1]) else [])
    else:
        pick = longable
    ladder = [255 * k + d for k in LONG_FRAGS[tier] for d in (-1, 0, 1)]
    per_path = 1 if tier == "quick" else 2
    for path in pick:
        tag, n = node_at(node, path)
        for _ in range(per_path):
            rot = _LONG_ROT[0]
            _LONG_ROT[0] += 1
            size = ladder[(rot * 7) % len(ladder)]                           # 7 is coprime to both ladder lengths (24, 69)
            if len(path) > 3:
                size = min(size, 255 * 65 + 1)                                # every enclosing level re-joins the value again
            out.append((ti, on_path(node, path, long_leaf(n, tag, size, rot), 1), "long"))
    # lengths around 2^16 (and beyond, thorough): only on top-level fields (cost), every type that has one
    top = [p for p in longable if len(p) == 1][:1 if tier == "quick" else 2]
    if top:
        _LONG_ROT[1] += 1
    if top and (tier != "quick" or _LONG_ROT[1] <= 1):
        for j, size in enumerate(LONG_SIZES[tier]):
            if size > 70000 and _LONG_ROT[1] > 2:                             # the model's re-joining is quadratic: two types only
                continue
            path = top[j % len(top)]
            tag, n = node_at(node, path)
            out.append((ti, on_path(node, path, long_leaf(n, tag, size, j), 1), "long"))
    # long lists: many small elements at ONE list level (outermost / innermost in turn)
    listy = [p for p in lp if any(node_at(node, p[:j + 1])[1]["k"] == "seq" for j in range(len(p) - 1))
             and node_at(node, p)[1]["k"] != "pint"]
    if tier == "quick" and len(listy) > 2:
        listy = [listy[0], listy[-1]]
    r = rng(seed, "c16long/" + t["name"])
    for path in listy:
        tag, n = node_at(node, path)
        levels = sum(1 for j in range(len(path) - 1) if node_at(node, path[:j + 1])[1]["k"] == "seq")
        for _ in range(1 if tier == "quick" else 4):
            rot = _LONG_ROT[0]
            _LONG_ROT[0] += 1
            cnt = LIST_COUNTS[rot % len(LIST_COUNTS)]
            at = rot % levels
            leaf = rand_leaf(n, tag, r) if n["k"] in ("int", "enum") else long_leaf(n, tag, 1 + rot % 3, rot)
            out.append((ti, on_path_counts(node, path, leaf, [cnt if lv == at else 1 for lv in range(levels)]), "many"))
    return out


def gen_cases(types, tier, seed):
    """-> list of (type index, value list, origin label)"""
    cases = []
    _LONG_ROT[0] = _LONG_ROT[1] = 0
    for ti, t in enumerate(types):
        node = t["node"]
        r = rng(seed, "c16gen/" + t["name"])
        cases.append((ti, [None] * len(node["fields"]), "all-unset"))
        # exhaustive core: every leaf path x every boundary variant of the leaf, everything else unset
        for path in leaf_paths(node):
            tag, n = node_at(node, path)
            has_list = any(node_at(node, path[:j + 1])[1]["k"] == "seq" for j in range(len(path) - 1))
            # the full 65536 single-id sweep only where the id list is a top-level field (Service, Pdu09Service)
            for leaf in leaf_variants(n, tag, r, tier if not (n["k"] == "pint" and len(path) > 1) else "quick"):
                cases.append((ti, on_path(node, path, leaf, 1), "path"))
                if has_list:
                    cases.append((ti, on_path(node, path, leaf, 2), "path-x2"))
                    if tier != "quick":
                        cases.append((ti, on_path(node, path, leaf, 3), "path-x3"))
        # structured random: mostly valid, boundary-biased sizes
        n_rand = (60 if tier == "quick" else 3500)
        for _ in range(n_rand):
            cases.append((ti, rand_fields(node, r, r.choice([0.3, 0.6, 0.9, 1.0])), "random"))
        for label, v in out_of_domain(t, r):
            cases.append((ti, v, "ood:" + label))
    # appended after all types so that the earlier streams' per-type random draws are unchanged
    for ti, t in enumerate(types):
        cases += long_cases(ti, t, tier, seed)
    return cases


# ============================================================================ shrinking of a failing value to the culprit field
def shrink_candidates(node, vs):
    """smaller variants of a positional value list: unset a field, drop a list element, shorten a payload"""
    for i, ((tag, n), v) in enumerate(zip(node["fields"], vs)):
        if v is None:
            continue
        yield vs[:i] + [None] + vs[i + 1:]
        k = n["k"]
        if k == "struct":
            for c in shrink_candidates(n, v):
                yield vs[:i] + [c] + vs[i + 1:]
        elif k == "seq":
            if len(v) > 1:
                for j in range(len(v)):
                    yield vs[:i] + [v[:j] + v[j + 1:]] + vs[i + 1:]
            for j, e in enumerate(v):
                for c in shrink_candidates(n, e):
                    yield vs[:i] + [v[:j] + [c] + v[j + 1:]] + vs[i + 1:]
        elif k == "pint" and len(v) > 1:
            yield vs[:i] + [v[:-1]] + vs[i + 1:]
            yield vs[:i] + [v[1:]] + vs[i + 1:]
        elif k in ("bytes", "str") and len(v) > 1:
            for cut in (1, 255, 256, len(v) // 2, len(v) - 1):
                if 0 < cut < len(v):
                    yield vs[:i] + [v[:cut]] + vs[i + 1:]
        elif k == "int" and v not in (0, 1):
            yield vs[:i] + [1] + vs[i + 1:]


def shrink_value(node, vs, fails, budget=250):
    """greedy: take any smaller variant on which the same failure persists"""
    progress = True
    while progress and budget > 0:
        progress = False
        for cand in shrink_candidates(node, vs):
            budget -= 1
            if budget <= 0:
                break
            try:
                if fails(cand):
                    vs = cand
                    progress = True
                    break
            except Exception:  # noqa
                continue
    return vs


def culprit(node, vs) -> str:
    """dotted name path of the first set leaf of a (shrunk) value"""
    parts = []
    n, v = node, vs
    while True:
        idx = next((i for i, x in enumerate(v) if x is not None), None)
        if idx is None:
            break
        parts.append(n["names"][idx])
        sub = n["fields"][idx][1]
        x = v[idx]
        if sub["k"] == "struct":
            n, v = sub, x
        elif sub["k"] == "seq" and x:
            n, v = sub, x[0]
        else:
            break
    return ".".join(parts)


def culprit_leaf(node, vs):
    """(dotted name path, leaf schema node) of the first set leaf of a (shrunk) value"""
    parts, leaf = [], None
    n, v = node, vs
    while True:
        idx = next((i for i, x in enumerate(v) if x is not None), None)
        if idx is None:
            break
        parts.append(n["names"][idx])
        sub = n["fields"][idx][1]
        leaf = sub
        x = v[idx]
        if sub["k"] == "struct":
            n, v = sub, x
        elif sub["k"] == "seq" and x:
            n, v = sub, x[0]
        else:
            break
    return ".".join(parts), leaf


# ---------------------------------------------------------------------------- Sequence[<fixed width int>] fields ("pint")
def has_pint(node, vs) -> bool:
    for (tag, n), v in zip(node["fields"], vs):
        if v is None:
            continue
        if n["k"] == "pint":
            return True
        if n["k"] == "struct" and has_pint(n, v):
            return True
        if n["k"] == "seq" and any(has_pint(n, e) for e in v):
            return True
    return False


def strip_pint(node, vs):
    """the same value with every Sequence[int] field unset (nested structs/elements that become empty are dropped)"""
    out = []
    for (tag, n), v in zip(node["fields"], vs):
        if v is None or n["k"] == "pint":
            out.append(None)
        elif n["k"] == "struct":
            inner = strip_pint(n, v)
            out.append(inner if any(x is not None for x in inner) else None)
        elif n["k"] == "seq":
            elems = [e for e in (strip_pint(n, e) for e in v) if any(x is not None for x in e)]
            out.append(elems or None)
        else:
            out.append(v)
    return out


def pint_diff(node, want, got):
    """walk two neutral values in parallel -> (other_difference: bool, [(want_ids, got_ids) for differing Sequence[int] fields])"""
    other, pd = False, []
    if isinstance(got, Bad) or len(want) != len(got):
        return True, pd
    for (tag, n), w, g in zip(node["fields"], want, got):
        if w is None or g is None:
            other = other or (w is not g)
            continue
        k = n["k"]
        if k == "pint":
            if w != g:
                pd.append((w, g))
        elif k == "struct":
            o, p2 = pint_diff(n, w, g)
            other, pd = other or o, pd + p2
        elif k == "seq":
            if isinstance(g, Bad) or len(w) != len(g):
                other = True
            else:
                for we, ge in zip(w, g):
                    o, p2 = pint_diff(n, we, ge)
                    other, pd = other or o, pd + p2
        elif w != g:
            other = True
    return other, pd


def sequ16_good(ids) -> bool:
    """the predicate of theorem tlv8_sequ16_exact: the packed lists the current decoder gets RIGHT
    (zero ids, optionally followed by one last id with a non-zero low byte)"""
    ids = list(ids)
    while len(ids) > 1:
        if ids[0] != 0:
            return False
        ids = ids[1:]
    return not ids or ids[0] == 0 or (ids[0] & 0xFF) != 0


def ids_class(want_ids) -> str:
    """which shape of packed id list the current decoder gets wrong: one id (only possible with a zero low byte) or several.
    A wrong result on a list the theorem says is decoded correctly is NOT the known finding."""
    if sequ16_good(want_ids):
        return "regression-on-good-list"
    return "zero-low-byte" if len(want_ids) == 1 else "multi-id"


# ============================================================================ the property oracle (implementation vs reference)
def impl_decode_value(node, bs):
    """-> (canonical answer string, neutral value or None)"""
    try:
        o = node["cls"].decode(bytes(bs))
    except Exception as e:  # noqa
        return exc_class(e), None
    v = vals_of(node, o)
    return "ok " + fields_str(node, v), v


def fail_sig(node, vs, which, seed):
    """Signature of the implementation's property failure on the in-domain value [vs] for one check, None if it passes.
       which = enc : cls(**v).encode() == canonical reference encoding
               dec : cls.decode(reference encoding) == v            (= round trip when enc passes)
               ord : cls.decode(reference encoding, items of every struct shuffled) == v
       -> (signature, detail).  Signatures: 'canonical', 'raises:<class>', 'crash', 'err ...', 'value',
          'pint:zero-low-byte' / 'pint:multi-id' when the ONLY differences are in Sequence[int] fields."""
    fields = node["fields"]
    if which == "enc":
        want = ref.ref_message(fields, vs)
        got = impl_encode(node, vs)
        if got == "ok " + hx(want):
            return None
        sig = "canonical" if got.startswith("ok") else "raises:" + got
        return sig, f"encode() = {got[:90]} ; canonical encoding = {hx(want)[:90]}"
    wire = ref.ref_message(fields, vs, perm=rng(seed, "perm") if which == "ord" else None)
    expect = "ok " + fields_str(node, vs)
    back, val = impl_decode_value(node, wire)
    if back == expect:
        return None
    how = "decode(encode(v))" if which == "dec" else f"decode(items in another order {hx(wire)[:60]})"
    detail = f"{how} = {back[:120]} ; v = {expect[3:][:120]}"
    if val is None:
        return back, detail
    other, pd = pint_diff(node, vs, val)
    if not other and pd:
        return "pint:" + ids_class(pd[0][0]), detail + f" ; ids {pd[0][0]} came back as {pd[0][1]}"
    return "value", detail


CHECK_KIND = {"enc": None, "dec": "roundtrip", "ord": "order"}


def failures(node, vs, seed):
    """all failing checks of one in-domain value: [(which, signature, detail)] (ord only if dec passes)"""
    out = []
    e = fail_sig(node, vs, "enc", seed)
    if e:
        out.append(("enc",) + e)
    d = fail_sig(node, vs, "dec", seed)
    if d:
        out.append(("dec",) + d)
    else:
        o = fail_sig(node, vs, "ord", seed)
        if o:
            out.append(("ord",) + o)
    return out


LINKED_DECODE = {"crash": "IndexError", "pint:zero-low-byte": "zero-low-byte", "pint:multi-id": "multi-id"}


def violation_key(tname, node, small, which, sig):
    """stable key: check kind + dotted field path; the Sequence[int] (linked services) defect gets its own family"""
    path, leaf = culprit_leaf(node, small)
    if leaf is not None and leaf["k"] == "pint":
        if which == "enc":
            cls = {"raises:err attr": "AttributeError"}.get(sig, sig.replace("raises:", "").replace(" ", "-"))
            return f"linked:encode:{cls}"
        return "linked:decode:" + LINKED_DECODE.get(sig, sig.replace(" ", "-"))
    kind = CHECK_KIND[which] or ("canonical" if sig == "canonical" else "encode")
    return f"{kind}:{tname}.{path}"


def shrink_failure(node, vs, which, sig, seed):
    return shrink_value(node, vs, lambda c: ref.ref_fits(node["fields"], c) and (fail_sig(node, c, which, seed) or ("",))[0] == sig)


def neighbourhood_failure(node, vs, seed_idx, limit=120):
    """breadth-first over shrunk forms of [vs]; first in-domain one on which the implementation violates the property"""
    queue, seen, n = [vs], set(), 0
    while queue and n < limit:
        cur = queue.pop(0)
        for cand in shrink_candidates(node, cur):
            key = fields_str(node, cand)
            if key in seen:
                continue
            seen.add(key)
            n += 1
            if n >= limit:
                break
            if ref.ref_fits(node["fields"], cand) and not has_pint(node, cand):
                fl = failures(node, cand, seed_idx)
                if fl:
                    which, sig, detail = fl[0]
                    small = shrink_failure(node, cand, which, sig, seed_idx)
                    again = fail_sig(node, small, which, seed_idx) or (sig, detail)
                    return which, sig, small, again[1]
            queue.append(cand)
    return None


# ============================================================================ extraction cross-check (driver vs vm_compute)
# A small deterministic sample of the run's REAL driver requests is evaluated a second time inside Coq (`Eval vm_compute`
# on the same Model/Tlv8.v functions the driver calls) and compared, token for token, with what the extracted OCaml
# driver answered.  The textual schema/value syntax is parsed here independently of ocaml/drv_c16.ml, so the hand-written
# OCaml parser/printer is cross-checked together with the extraction.
XC_QUOTA = {"wf": 3, "fits": 3, "enc": 5, "spec": 3, "dec": 7, "arr": 3, "items": 3, "utf8": 3}
XC_MAX_CHARS = 2400          # request and answer each: keeps every Gallina literal well under ~1500 list elements
XC_ERR = {"parse": 0, "serialize": 1, "range": 2, "value": 3, "attr": 4}
XC_FIN = {"end": 0, "crash": 1, "fuel": 2}
XC_KIND = {"u8": "U8", "u16": "U16", "bu16": "BU16", "u32": "U32", "u64": "U64", "u128": "U128"}
XC_HEADER = """From Coq Require Import List NArith.
From AHK Require Import Lib.Res Lib.ByteStr Model.Tlv8.
Import ListNotations.
Definition len {A} (l : list A) : N := N.of_nat (length l).
Fixpoint show_val (v : val) : list N :=
  match v with
  | VInt n => [0%N; n]
  | VB b => 1%N :: len b :: b
  | VStruct vs => 2%N :: len vs :: flat_map (fun o => match o with None => [0%N] | Some x => 1%N :: show_val x end) vs
  | VSeq l => 3%N :: len l :: flat_map (fun vs => len vs :: flat_map (fun o => match o with None => [0%N] | Some x => 1%N :: show_val x end) vs) l
  | VIds l => 4%N :: len l :: l
  end.
Definition show_r {A} (f : A -> list N) (r : R A) : list N :=
  match r with Ok x => 0%N :: f x | Err EParse => [1%N; 0%N] | Err ESerialize => [1%N; 1%N] | Err ERange => [1%N; 2%N]
  | Err EValue => [1%N; 3%N] | Err EAttr => [1%N; 4%N] | Crash => [2%N] | OutOfFuel => [3%N] end.
Definition show_bytes (b : bytes) : list N := b.
Definition show_bool (b : bool) : list N := [if b then 1%N else 0%N].
Definition show_fin (e : fin) : N := match e with FinOk => 0%N | FinCrash => 1%N | FinFuel => 2%N end.
Definition show_arr (p : list bytes * fin) : list N := show_fin (snd p) :: len (fst p) :: flat_map (fun b => len b :: b) (fst p).
Definition show_items (p : list (N * bytes) * fin) : list N :=
  show_fin (snd p) :: len (fst p) :: flat_map (fun kv => fst kv :: len (snd kv) :: snd kv) (fst p).
"""


class _XcParse(Exception):
    pass


def _xc_num(s, p):
    q = p
    while q < len(s) and s[q].isdigit():
        q += 1
    if q == p:
        raise _XcParse(f"number at {p}")
    return int(s[p:q]), q


def _xc_list(s, p, close, sep, elem):
    """p is just after the opening bracket -> ([elements], position after the closing bracket)"""
    if s[p:p + 1] == close:
        return [], p + 1
    out = []
    while True:
        x, p = elem(s, p)
        out.append(x)
        if s[p:p + 1] == sep:
            p += 1
            continue
        if s[p:p + 1] != close:
            raise _XcParse(f"expected {close} at {p}")
        return out, p + 1


def _xc_kind(s, p):
    q = p
    while q < len(s) and (s[q].isdigit() or s[q] in "ub"):
        q += 1
    if s[p:q] not in XC_KIND:
        raise _XcParse(f"kind at {p}")
    return XC_KIND[s[p:q]], q


def _xc_ty(s, p):
    """schema syntax (see ocaml/drv_c16.ml) -> (Gallina term of type ty, next position)"""
    c = s[p:p + 1]
    if c == "e":
        if s[p + 1:p + 2] != "(":
            raise _XcParse(f"enum at {p}")
        ms, p = _xc_list(s, p + 2, ")", ",", _xc_num)
        return "(TEnum [" + "; ".join(f"{m}%N" for m in ms) + "])", p
    if c == "s":
        return "TStr", p + 1
    if c == "x":
        return "TUnsupp", p + 1
    if c in ("S", "Q"):
        if s[p + 1:p + 2] != "[":
            raise _XcParse(f"fields at {p}")

        def field(s, p):
            t, p = _xc_num(s, p)
            if s[p:p + 1] != ":":
                raise _XcParse(f"expected : at {p}")
            ft, p = _xc_ty(s, p + 1)
            return f"({t}%N, {ft})", p
        fs, p = _xc_list(s, p + 2, "]", ";", field)
        return "(" + ("TStruct" if c == "S" else "TSeq") + " [" + "; ".join(fs) + "])", p
    if c == "P":
        k, p = _xc_kind(s, p + 1)
        return f"(TSeqInt {k})", p
    if c == "b" and s[p + 1:p + 2] != "u":
        return "TBytes", p + 1
    k, p = _xc_kind(s, p)
    return f"(TInt {k})", p


def _xc_val(s, p):
    """value syntax -> (tree, next position); tree = ('int', n) | ('b', bytes) | ('struct', [opt]) | ('seq', [[opt]]) | ('ids', [n])"""
    c = s[p:p + 1]
    if c == "i":
        n, p = _xc_num(s, p + 1)
        return ("int", n), p
    if c == "h":
        p += 1
        if s[p:p + 1] == "-":
            return ("b", b""), p + 1
        q = p
        while q < len(s) and s[q] in "0123456789abcdef":
            q += 1
        return ("b", bytes.fromhex(s[p:q])), q
    if c == "V":
        if s[p + 1:p + 2] != "[":
            raise _XcParse(f"struct at {p}")
        vs, p = _xc_list(s, p + 2, "]", ";", _xc_oval)
        return ("struct", vs), p
    if c == "L":
        if s[p + 1:p + 2] != "[":
            raise _XcParse(f"list at {p}")

        def elem(s, p):
            if s[p:p + 2] != "V[":
                raise _XcParse(f"list element at {p}")
            return _xc_list(s, p + 2, "]", ";", _xc_oval)
        l, p = _xc_list(s, p + 2, "]", ";", elem)
        return ("seq", l), p
    if c == "I":
        if s[p + 1:p + 2] != "(":
            raise _XcParse(f"ids at {p}")
        l, p = _xc_list(s, p + 2, ")", ",", _xc_num)
        return ("ids", l), p
    raise _XcParse(f"value at {p}")


def _xc_oval(s, p):
    if s[p:p + 1] == "_":
        return None, p + 1
    return _xc_val(s, p)


def _xc_all(f, s):
    x, p = f(s, 0)
    if p != len(s):
        raise _XcParse(f"trailing input at {p}")
    return x


def _xc_nlist(xs) -> str:
    return "[" + "; ".join(f"{int(x)}%N" for x in xs) + "]"


def _xc_val_coq(v) -> str:
    k, x = v
    opts = lambda vs: "[" + "; ".join("None" if o is None else f"Some {_xc_val_coq(o)}" for o in vs) + "]"
    if k == "int":
        return f"(VInt {x}%N)"
    if k == "b":
        return f"(VB {_xc_nlist(x)})"
    if k == "struct":
        return f"(VStruct {opts(x)})"
    if k == "seq":
        return "(VSeq [" + "; ".join(opts(e) for e in x) + "])"
    return f"(VIds {_xc_nlist(x)})"


def _xc_val_tokens(v) -> list:
    """the same flattening as show_val in XC_HEADER"""
    k, x = v
    opts = lambda vs: [t for o in vs for t in ([0] if o is None else [1] + _xc_val_tokens(o))]
    if k == "int":
        return [0, x]
    if k == "b":
        return [1, len(x)] + list(x)
    if k == "struct":
        return [2, len(x)] + opts(x)
    if k == "seq":
        return [3, len(x)] + [t for e in x for t in [len(e)] + opts(e)]
    return [4, len(x)] + list(x)


def _xc_res_tokens(ans: str, ok_tokens) -> list:
    if ans.startswith("ok "):
        return [0] + ok_tokens(ans[3:])
    if ans.startswith("err ") and ans[4:] in XC_ERR:
        return [1, XC_ERR[ans[4:]]]
    if ans == "crash":
        return [2]
    if ans == "fuel":
        return [3]
    raise _XcParse("answer " + ans[:40])


def xc_render(req: str, ans: str):
    """one driver request/answer -> (Gallina term of type list N, the token list the driver's answer stands for).
    Raises _XcParse on anything outside the driver's grammar (such pairs are not sampled)."""
    w = req.split(" ")
    kind = w[0]
    hexl = lambda h: _xc_nlist(unhx(h))
    if kind == "wf" and len(w) == 2 and ans in ("true", "false"):
        return f"show_bool (wf_schema {_xc_all(_xc_ty, w[1])})", [int(ans == "true")]
    if kind == "fits" and len(w) == 3 and ans in ("true", "false"):
        return f"show_bool (fits_msg {_xc_all(_xc_ty, w[1])} {_xc_val_coq(_xc_all(_xc_val, w[2]))})", [int(ans == "true")]
    if kind == "utf8" and len(w) == 2 and ans in ("true", "false"):
        return f"show_bool (utf8_valid {hexl(w[1])})", [int(ans == "true")]
    if kind == "enc" and len(w) == 3:
        return (f"show_r show_bytes (tlv8_encode {_xc_all(_xc_ty, w[1])} {_xc_val_coq(_xc_all(_xc_val, w[2]))})",
                _xc_res_tokens(ans, lambda h: list(unhx(h))))
    if kind == "spec" and len(w) == 3 and ans.startswith("ok "):
        return (f"0%N :: show_bytes (tlv8_spec {_xc_all(_xc_ty, w[1])} {_xc_val_coq(_xc_all(_xc_val, w[2]))})",
                [0] + list(unhx(ans[3:])))
    if kind == "dec" and len(w) == 3:
        return (f"show_r show_val (tlv8_decode {_xc_all(_xc_ty, w[1])} {hexl(w[2])})",
                _xc_res_tokens(ans, lambda s: _xc_val_tokens(_xc_all(_xc_val, s))))
    if kind in ("arr", "items") and len(w) == 2:
        toks = [t for t in ans.split(" ") if t]
        if not toks or toks[-1] not in XC_FIN:
            raise _XcParse("answer " + ans[:40])
        out = [XC_FIN[toks[-1]], len(toks) - 1]
        for t in toks[:-1]:
            if kind == "items":
                k, t = t.split(":")
                out.append(int(k))
            b = unhx(t)
            out += [len(b)] + list(b)
        return f"show_{kind} (tlv8_{'array' if kind == 'arr' else 'items'} {hexl(w[1])})", out
    raise _XcParse("request " + req[:40])


def xc_class(kind: str, ans: str) -> str:
    """result class of an answer: used to spread the sample over ok / every error class / crash / true / false"""
    if kind in ("arr", "items"):
        toks = ans.split(" ")
        return toks[-1] + ("+" if len(toks) > 2 else "")
    if ans.startswith("ok"):
        return "ok"
    return ans


class XcSampler:
    """Wraps Driver.batch: answers are passed through untouched; per (request kind, result class, size class) the first and
    the last small-enough (request, answer) pair of the stream are remembered (a few hundred strings at most)."""

    def __init__(self, drv):
        self.slots = {}
        self.seen = collections.Counter()
        self._batch = drv.batch
        drv.batch = self.batch

    def batch(self, lines):
        lines = list(lines)
        ans = self._batch(lines)
        for q, a in zip(lines, ans):
            if len(q) > XC_MAX_CHARS or len(a) > XC_MAX_CHARS:
                continue
            kind = q.split(" ", 1)[0]
            if kind not in XC_QUOTA:
                continue
            self.seen[kind] += 1
            size = "s" if len(q) + len(a) < 200 else ("m" if len(q) + len(a) < 900 else "l")
            slot = self.slots.setdefault((kind, xc_class(kind, a), size), [])
            if not slot:
                slot.append((q, a))
            elif (q, a) != slot[0]:
                slot[1:] = [(q, a)]
        return ans

    def sample(self):
        """deterministic: per kind, round-robin over the result classes (ok/true first), within a class small before large
        and first-of-stream before last-of-stream; only pairs that xc_render accepts"""
        out = []
        for kind, quota in XC_QUOTA.items():
            by_cls = {}
            for rank in (0, 1):
                for size in "sml":
                    for k in sorted(self.slots):
                        if k[0] == kind and k[2] == size and len(self.slots[k]) > rank:
                            pair = self.slots[k][rank]
                            try:
                                xc_render(*pair)
                            except (_XcParse, ValueError):
                                continue
                            by_cls.setdefault(k[1], []).append(pair)
            order = sorted(by_cls, key=lambda c: (not c.startswith(("ok", "true", "end")), c))
            picked, rnd = [], 0
            while len(picked) < quota and any(len(by_cls[c]) > rnd for c in order):
                for c in order:
                    if len(by_cls[c]) > rnd and len(picked) < quota:
                        picked.append(by_cls[c][rnd])
                rnd += 1
            out += picked
        return out


def vm_crosscheck(ctx, sample):
    """sample: [(request line, driver answer line)].  Every request is evaluated with `Eval vm_compute` in ONE generated Coq file
    (same Model/Tlv8.v function the driver calls, result flattened to a list N by the show_* helpers) and compared in full with
    the token list the driver's answer denotes.  -> (requests, disagreements, [first disagreeing requests])"""
    import re
    from common import coq_eval
    if not sample:
        return 0, 0, []
    body, wants = [XC_HEADER], []
    bad, where, kept = 0, [], []
    for q, a in sample:
        try:
            term, want = xc_render(q, a)
        except (_XcParse, ValueError):          # an answer outside the driver's own grammar cannot agree with anything
            bad += 1
            where.append(dict(request=q[:300], driver=a[:300], vm_compute="(not evaluated: answer outside the driver's grammar)"))
            continue
        body.append(f"Eval vm_compute in ({term}).")
        wants.append(want)
        kept.append((q, a))
    out = coq_eval(ctx["verif"], "C16", "crosscheck", "\n".join(body) + "\n", timeout=300)
    blocks = out.split("= ")[1:]
    bad += abs(len(blocks) - len(kept))
    for (q, a), blk, want in zip(kept, blocks, wants):
        got = [int(x) for x in re.findall(r"\d+", blk.split(":")[0])]
        if got != want:
            bad += 1
            where.append(dict(request=q[:300], driver=a[:300], vm_compute=" ".join(map(str, got))[:300]))
    return len(sample), bad, where[:3]


# ============================================================================ run
def run(ctx):
    tier, seed = ctx["tier"], ctx["seed"]
    drv = Driver(ctx["driver"])
    xc = XcSampler(drv)          # records a small sample of the (request, answer) stream; answers pass through unchanged
    cov = Coverage("a case counts when its (type, value) or (type, bytes) is distinct and at least one field is set / "
                   "at least one item is decoded or an error is raised")
    viols = []
    keys_seen = set()

    def add(key, what, found, **payload):
        if key in keys_seen:
            return
        keys_seen.add(key)
        viols.append(violation(key, what, found, **payload))

    types, import_failures = reflect()
    if not types:
        add("reflection:no-types", "no TLVStruct subclass found in the aiohomekit package", False)
        return dict(coverage=cov.to_dict(), violations=viols)
    schemas = [sch_str(t["node"]) for t in types]

    # ---- schemas: the model evaluates wf_schema on every reflected type
    wf_model = drv.batch(["wf " + s for s in schemas])
    wf_info = {}
    for t, s, w in zip(types, schemas, wf_model):
        rw = ref.ref_wf(t["node"]["fields"])
        wf_info[t["name"]] = dict(schema=s if len(s) < 300 else s[:300] + "...", wf_schema=w)
        t["wf"] = (w == "true")
        if (w == "true") != rw:
            add(f"wf:{t['name']}:model-vs-reference", f"wf_schema({t['name']}) = {w} but the reference says {rw}", False, schema=s)
    unsupp = []

    def find_unsupp(node, prefix):
        for name, (tag, n) in zip(node["names"], node["fields"]):
            if n["k"] == "unsupp":
                unsupp.append(f"{prefix}.{name}: {n.get('why')}")
            elif n["k"] in ("struct", "seq"):
                find_unsupp(n, prefix + "." + name)
    for t in types:
        find_unsupp(t["node"], t["name"])
    pint_paths = []

    def find_pint(node, prefix):
        for name, (tag, n) in zip(node["names"], node["fields"]):
            if n["k"] == "pint":
                pint_paths.append(f"{prefix}.{name}: Sequence[{n['kind']}]")
            elif n["k"] in ("struct", "seq"):
                find_pint(n, prefix + "." + name)
    for t in types:
        find_pint(t["node"], t["name"])

    # ---- stream 1: values
    cases = gen_cases(types, tier, seed)
    sv = [fields_str(types[ti]["node"], v) for ti, v, _ in cases]
    m_fits = drv.batch([f"fits {schemas[ti]} {s}" for (ti, _, _), s in zip(cases, sv)])
    m_enc = drv.batch([f"enc {schemas[ti]} {s}" for (ti, _, _), s in zip(cases, sv)])
    m_spec = drv.batch([f"spec {schemas[ti]} {s}" for (ti, _, _), s in zip(cases, sv)])
    dec_reqs, dec_meta = [], []
    failing_types = set()
    excluded = collections.Counter()
    strip_ok = {}     # cache: does the value without its Sequence[int] fields satisfy the property?

    def report_failure(t, ti, node, vs, s, which, sig, detail, seed_i, near=None):
        """shrink a failing in-domain value and file the violation under its stable key"""
        if has_pint(node, vs) and (sig in LINKED_DECODE or sig == "raises:err attr"):
            # fast path for the known linked-services defect: if the value without its Sequence[int] fields is fine,
            # the key is determined by the signature alone; shrink only the first representative of each key
            st = strip_pint(node, vs)
            k = fields_str(node, st)
            if k not in strip_ok:
                strip_ok[k] = not failures(node, st, seed_i)
            if strip_ok[k]:
                key = "linked:encode:AttributeError" if which == "enc" else "linked:decode:" + LINKED_DECODE[sig]
                if key in keys_seen:
                    return
        small = shrink_failure(node, vs, which, sig, seed_i)
        again = fail_sig(node, small, which, seed_i) or (sig, detail)
        failing_types.add(t["name"])
        wire = ref.ref_message(node["fields"], small, perm=rng(seed_i, "perm") if which == "ord" else None)
        add(violation_key(t["name"], node, small, which, sig), f"{t['module']}.{t['name']}: {again[1]}", True,
            type=t["name"], schema=schemas[ti], value=fields_str(node, small), original_value=s[:2000], check=which, signature=sig,
            impl_encode=impl_encode(node, small), reference_encoding=hx(wire), impl_decode_of_reference_encoding=impl_decode(node, wire),
            wf_schema=t["wf"], **({"found_near": near} if near else {}))

    for idx, ((ti, vs, origin), s, mf, me, ms) in enumerate(zip(cases, sv, m_fits, m_enc, m_spec)):
        t = types[ti]
        node = t["node"]
        in_thm = (mf == "true")                         # domain of the theorems (model fits_msg)
        rf = ref.ref_fits(node["fields"], vs)           # domain of the property (reference)
        hp = has_pint(node, vs)
        if in_thm != (rf and not hp):
            add(f"fits:{t['name']}:model-vs-reference", f"fits_msg = {mf} but reference domain says {rf} (Sequence[int] field set: {hp}) on {s[:200]}",
                False, type=t["name"], value=s)
        ie = impl_encode(node, vs)
        if not rf:
            excluded[origin if origin.startswith("ood:") else "ood:generated"] += 1
        elif hp:
            excluded["known-finding:sequence-of-int-field-set"] += 1
        if rf:
            want = "ok " + hx(ref.ref_message(node["fields"], vs))
            if in_thm and (me != want or ms != want):
                add(f"enc:{t['name']}:model-vs-reference", f"model encode {me[:80]} / spec {ms[:80]} != reference {want[:80]}", False,
                    type=t["name"], value=s, broken="Model/Tlv8.v enc or harness/ref/tlv8struct.py")
            if hp and ms != want:
                add(f"spec:{t['name']}:model-vs-reference", f"model spec encoder {ms[:80]} != reference {want[:80]}", False, type=t["name"], value=s)
            fl = failures(node, vs, idx)
            for which, sig, detail in fl:
                report_failure(t, ti, node, vs, s, which, sig, detail, idx)
            if ie != me:
                add(f"enc:{t['name']}:model-mismatch", f"encode: implementation {ie[:100]} != model {me[:100]} on {s[:160]}", False,
                    type=t["name"], value=s, impl=ie, model=me, broken="correspondence Model/Tlv8.v <-> aiohomekit/tlv8.py")
            if hp:
                # accessory side: the model must agree with the code on the reference (packed) wire form too
                for perm in (None, rng(idx, "perm")):
                    w = ref.ref_message(node["fields"], vs, perm=perm)
                    dec_reqs.append(f"dec {schemas[ti]} {hx(w)}")
                    dec_meta.append((ti, w, "reference-wire:sequence-of-int", None))
        else:
            if ie != me:
                # before blaming the correspondence: does the implementation break the property on an
                # in-domain value in the neighbourhood (shrunk forms) of this one?
                # the canonical-form half of the property also binds values that cannot round-trip (e.g. a list with an
                # all-unset element): "00 00" between ALL list items, declaration order, 255-byte fragments.  If the reference
                # can encode the value and the implementation returns other bytes, that is a concrete violating input.
                canon = None
                if not hp and ie.startswith("ok "):
                    try:
                        canon = "ok " + hx(ref.ref_message(node["fields"], vs))
                    except Exception:  # noqa  (Unrepresentable: ints out of range, non-member enums, unsupported fields)
                        canon = None
                near = None
                if canon is not None and ie != canon:
                    failing_types.add(t["name"])
                    pth, _leaf = culprit_leaf(node, vs)
                    add(f"canonical:{t['name']}.{pth}:{origin.replace('ood:', '')}",
                        f"{t['module']}.{t['name']}: encode() = {ie[:90]} ; canonical encoding (00 00 between all list items) = {canon[:90]} "
                        f"on {s[:160]}", True, type=t["name"], schema=schemas[ti], value=s[:3000], impl_encode=ie, reference_encoding=canon[3:],
                        model_encode=me, check="canonical (outside the round-trip domain)", wf_schema=t["wf"])
                else:
                    near = neighbourhood_failure(node, vs, idx)
                if canon is not None and ie != canon:
                    pass
                elif near is not None:
                    which, sig, small, detail = near
                    report_failure(t, ti, node, small, fields_str(node, small), which, sig, detail, idx, near=s[:2000])
                else:
                    add(f"enc-ood:{t['name']}:{origin}:model-mismatch",
                        f"encode outside the round-trip domain ({origin}): implementation {ie[:100]} != model {me[:100]} on {s[:160]}", False,
                        type=t["name"], value=s, impl=ie, model=me, broken="correspondence Model/Tlv8.v <-> aiohomekit/tlv8.py")
        # decode what the implementation produced (also out of domain: what does an unrepresentable value come back as)
        if ie.startswith("ok "):
            dec_reqs.append(f"dec {schemas[ti]} {ie[3:]}")
            dec_meta.append((ti, unhx(ie[3:]), "enc-output:" + origin, s if in_thm else None))
        nset = sum(1 for x in vs if x is not None)
        cov.case(f"v{ti}/{s}", nset > 0,
                 sample=dict(stream="value", type=t["name"], origin=origin, value=s[:160], impl=ie[:60]) if idx % 701 == 0 else None,
                 value_origin=origin.split(":")[0], value_domain="theorem" if in_thm else ("property-only(known finding)" if rf else "out"),
                 enc_result=ie.split(" ")[0] if ie[:2] in ("ok", "er") else ie,
                 enc_len=(lambda n: n if n < 4 else ((n // 255) * 255 if n < 2000 else "2000+"))(len(ie) // 2 if ie.startswith("ok") else 0),
                 enc_fragments=pow2_bucket((len(ie) // 2) // 257 if ie.startswith("ok") else 0),
                 list_elements=pow2_bucket(max_list_len(node, vs)))

    # ---- stream 2: accessory-side encodings (shuffled order), mutations, malformed input
    r = rng(seed, "c16dec")
    n_mut = 25 if tier == "quick" else 1000
    for ti, t in enumerate(types):
        node = t["node"]
        for j in range(n_mut):
            vs = rand_fields(node, r, r.choice([0.5, 0.9]))
            if not ref.ref_fits(node["fields"], vs):
                continue
            if j % 3:
                vs = strip_pint(node, vs)        # Sequence[int] fields: property oracle in stream 1; here model == code only
            with_pint = has_pint(node, vs)
            good = ref.ref_message(node["fields"], vs, perm=r if j % 2 else None)
            enc = bytearray(good)
            m = r.random()
            label = "valid"
            if m < 0.2 and enc:
                enc = enc[: r.randrange(len(enc))]; label = "truncated"
            elif m < 0.4 and enc:
                k = r.randrange(len(enc)); enc[k] ^= 1 << r.randrange(8); label = "bitflip"
            elif m < 0.5 and enc:
                k = r.randrange(len(enc)); enc = enc[:k] + enc[k:k + r.randrange(1, 6)] + enc[k:]; label = "duplicated"
            elif m < 0.6:
                tags = {tg for tg, _ in node["fields"]}
                unk = next(x for x in (0xEE, 0xEF, 0xF0, 0xF1, 0xF2) if x not in tags)
                k = 0 if m < 0.55 else len(enc)
                enc = enc[:k] + bytes([unk, 1, 7]) + enc[k:]; label = "unknown-type"
            elif m < 0.65:
                enc += bytes([r.randrange(256)]); label = "lone-byte"
            dec_reqs.append(f"dec {schemas[ti]} {hx(enc)}")
            dec_meta.append((ti, bytes(enc), ("mutation+seqint:" if with_pint else "mutation:") + label, None))
    m_dec = drv.batch(dec_reqs)
    for idx, ((ti, bs, origin, expect), md) in enumerate(zip(dec_meta, m_dec)):
        t = types[ti]
        node = t["node"]
        idec = impl_decode(node, bs)
        # reference verdict (not for wire forms carrying a Sequence[int] field: known finding, keyed in stream 1)
        verdict, rv = None, None
        try:
            if origin.startswith(("reference-wire", "mutation+seqint")):
                raise ref.Unspecified("sequence-of-int")
            rv = ref.ref_decode(node["fields"], bs)
            verdict = "ok " + fields_str(node, rv)
        except ref.RefParseError:
            verdict = "err parse"
        except ref.Unspecified:
            verdict = None
        except Exception:  # noqa
            verdict = None
        linked_key = None
        if verdict is not None and idec != verdict and verdict.startswith("ok") and has_pint(node, rv):
            # a mutation produced an item of a Sequence[int] field: known linked-services defect, or something else?
            back, val = impl_decode_value(node, bs)
            if val is not None:
                other, pd = pint_diff(node, rv, val)
                if not other and pd:
                    linked_key = "linked:decode:" + ids_class(pd[0][0])
            elif back == "crash":
                st = strip_pint(node, rv)
                if impl_decode(node, ref.ref_message(node["fields"], st)) == "ok " + fields_str(node, st):
                    linked_key = "linked:decode:IndexError"
        if linked_key is not None:
            failing_types.add(t["name"])
            add(linked_key, f"{t['module']}.{t['name']}.decode({hx(bs)[:80]}) = {idec[:120]} ; a conformant decoder gives {verdict[:120]}",
                True, type=t["name"], schema=schemas[ti], bytes=hx(bs), impl=idec, reference=verdict, origin=origin, wf_schema=t["wf"])
            if idec != md:
                add(f"dec:{t['name']}:{origin.split(':')[0]}:model-mismatch",
                    f"decode ({origin}): implementation {idec[:100]} != model {md[:100]} on {hx(bs)[:120]}", False,
                    type=t["name"], bytes=hx(bs), impl=idec, model=md, broken="correspondence Model/Tlv8.v <-> aiohomekit/tlv8.py")
        elif verdict is not None and idec != verdict:
            slug = "unknown-type-accepted" if (verdict == "err parse" and idec.startswith("ok")) else \
                   (culprit_of_decode(node, verdict, idec) or "value")
            failing_types.add(t["name"])
            add(f"decode:{t['name']}:{slug}", f"{t['module']}.{t['name']}.decode({hx(bs)[:80]}) = {idec[:120]} ; a conformant decoder gives {verdict[:120]}",
                True, type=t["name"], schema=schemas[ti], bytes=hx(bs), impl=idec, reference=verdict, origin=origin, wf_schema=t["wf"])
        elif idec != md:
            add(f"dec:{t['name']}:{origin.split(':')[0]}:model-mismatch",
                f"decode ({origin}): implementation {idec[:100]} != model {md[:100]} on {hx(bs)[:120]}", False,
                type=t["name"], bytes=hx(bs), impl=idec, model=md, broken="correspondence Model/Tlv8.v <-> aiohomekit/tlv8.py")
        if verdict is not None and md != verdict and t["wf"] and not (verdict.startswith("ok") and has_pint(node, rv)):
            add(f"dec:{t['name']}:model-vs-reference", f"model decode {md[:100]} != reference {verdict[:100]} on {hx(bs)[:120]}", False,
                type=t["name"], bytes=hx(bs), model=md, reference=verdict)
        cov.case(f"d{ti}/{hx(bs)}", idec != "ok " + fields_str(node, [None] * len(node["fields"])),
                 sample=dict(stream="decode", type=t["name"], origin=origin, bytes=hx(bs)[:100], impl=idec[:80]) if idx % 997 == 0 else None,
                 decode_origin=origin, decode_result=idec.split(" ")[0] if idec[:2] in ("ok", "er") else idec,
                 decode_len=(lambda n: n if n < 4 else (n // 255) * 255)(len(bs)))

    # ---- stream 3: the iterator and the list splitter on raw bytes
    raw_cases = gen_raw(tier, rng(seed, "c16raw"))
    m_items = drv.batch(["items " + hx(b) for b in raw_cases])
    m_arr = drv.batch(["arr " + hx(b) for b in raw_cases])
    for idx, (bs, mi, ma) in enumerate(zip(raw_cases, m_items, m_arr)):
        ii, ia = impl_items(bs), impl_array(bs)
        # independent rule (round 8): on a byte string that IS the canonical encoding of an item list (reference codec of C15,
        # harness/ref/tlv8.py: strict fragment parser, merge, re-encode gives the same bytes, neighbouring items of different type)
        # the iterator must yield exactly these items, and the list splitter exactly the 00 00-separated elements.
        want_items, want_arr = conformant_raw(bs)
        if want_items is not None and ii != want_items:
            add("iter:conformant-encoding", f"tlv_iterator on the canonical encoding of {want_items.count(':')} item(s) ({len(bs)} bytes, "
                f"longest value {max([len(x.split(':')[1]) // 2 for x in want_items.split(' ')[:-1]] or [0])} bytes): yields {ii[:80]} ... "
                f"({ii.count(':')} items) ; encoded were {want_items[:80]} ...", True, bytes=hx(bs), impl=ii, expected=want_items)
        if want_arr is not None and ia != want_arr:
            add("array:conformant-encoding", f"tlv_array on a canonical list encoding of {want_arr.count(' ')} element(s) ({len(bs)} bytes): "
                f"yields {ia[:80]} ... ; elements were {want_arr[:80]} ...", True, bytes=hx(bs), impl=ia, expected=want_arr)
        if ii != mi:
            add("iter:model-mismatch", f"tlv_iterator: implementation {ii[:100]} != model {mi[:100]} on {hx(bs)[:100]}", False,
                bytes=hx(bs), impl=ii, model=mi, broken="correspondence Model/Tlv8.v step/items <-> tlv_iterator")
        if ia != ma:
            add("array:model-mismatch", f"tlv_array: implementation {ia[:100]} != model {ma[:100]} on {hx(bs)[:100]}", False,
                bytes=hx(bs), impl=ia, model=ma, broken="correspondence Model/Tlv8.v arr_f <-> tlv_array")
        cov.case("r" + hx(bs), len(bs) > 1,
                 sample=dict(stream="raw", bytes=hx(bs)[:80], items=ii[:80], array=ia[:80]) if idx % 1999 == 0 else None,
                 raw_len=len(bs) if len(bs) < 6 else ((len(bs) // 255) * 255 if len(bs) < 2000 else "2000+"), raw_iter_end=ii.split(" ")[-1],
                 raw_fragments=pow2_bucket(len(bs) // 257))

    # ---- stream 4: struct-valued characteristics (Characteristic.value) and to_dict() of accessory-side structures
    stream_charvalue(types, schemas, drv, add, cov, tier, rng(seed, "c16char"))
    stream_database(types, add, cov, tier, rng(seed, "c16db"), r_big=rng(seed, "c16dbbig"))

    # ---- stream 6: the secondary codec of characteristic signatures (to_dict / _unpack_value / _pack_value), the exact
    #      boundary of the linked-services finding, and the catalogue of struct classes vs a source scan
    stream_signature(types, drv, add, cov, tier, rng(seed, "c16sig"))
    stream_linked_exact(types, drv, add, cov, tier, rng(seed, "c16good"))
    catalogue_check(types, add, cov)

    # ---- stream 5: decode purity (every decode hands out a fresh message built from the bytes it was given)
    stream_purity(types, add, cov, tier, rng(seed, "c16purity"))

    # ---- stream 8: encode on ONE long-lived message object; Sequence container kinds
    stream_encode_object(types, add, cov, tier, rng(seed, "c16encobj"))

    # a type outside wf_schema must come with a concrete failing input
    for t in types:
        if not t["wf"] and t["name"] not in failing_types:
            add(f"wf:{t['name']}:no-failing-input", f"{t['name']} is outside wf_schema (theorems do not cover it) but no failing input was found",
                False, type=t["name"])

    # ---- extraction cross-check: a sample of the requests above, re-evaluated by vm_compute inside Coq
    if not ctx.get("replay"):
        # the driver's utf8 entry point is not used by the streams above: three requests of its own so that it is covered too
        drv.batch(["utf8 " + hx(b) for b in ("a\u00e9\u20ac\U0001F600".encode(), "\u20ac".encode()[:2], b"\xc0\x80")])
        xc_sample = xc.sample()
        n_xc, bad_xc, where_xc = vm_crosscheck(ctx, xc_sample)
        cov.extra["vm_compute_crosscheck"] = dict(requests=n_xc, disagreements=bad_xc,
                                                  kinds=dict(collections.Counter(q.split(" ", 1)[0] for q, _ in xc_sample)))
        if bad_xc:
            add("extraction-vs-vm_compute", f"{bad_xc} of {n_xc} sampled requests: extracted driver and vm_compute disagree", False,
                broken="extraction / ocaml/drv_c16.ml glue", disagreements=where_xc)

    cov.extra["exhaustive"] = False
    cov.extra["exhaustive_part"] = ("per reflected type: every leaf field path x every boundary variant of the leaf kind (sizes 1,254,255,256,510,511; "
                                    "ints 0,1,max,...; every enum member (<=8); packed ids: every byte value in every byte position, 1..6 entries), "
                                    "other fields unset, list levels with 1 and 2 elements; raw iterator/array: all byte strings of length <= 2 and "
                                    "all strings of length <= 5 over {0,1,2,255}")
    cov.extra["reflected_types"] = wf_info
    cov.extra["import_failures"] = import_failures
    cov.extra["domain"] = dict(
        wf_schema="distinct one-byte item types per struct; a struct used as a list element has no item type 0; any nesting depth",
        fits_msg="ints in range of their width; enum values are members < 256; strings valid UTF-8; every SET string/bytes/list/"
                 "nested struct/list element serialises to >= 1 byte (a set-but-empty field is not transmitted, so it cannot be told "
                 "from an unset one); fields of unsupported type unset; Sequence[<fixed-width int>] fields (linked services) unset",
        sequence_of_int_fields="EXCLUDED from the theorems' domain (known finding): the current code cannot encode a non-empty list "
                 "(AttributeError) and decodes the packed id array through tlv_array (split at 0x00 type bytes).  Values with such a field "
                 "set stay in the PROPERTY's domain: the reference packed-array codec judges the implementation on them (violation keys "
                 "linked:*), and model == implementation is still checked exactly on them",
        sequence_of_int_paths=pint_paths,
        excluded_by_fits=dict(excluded),
        unsupported_fields=unsupp,
        not_wf=[t["name"] for t in types if not t["wf"]])
    return dict(coverage=cov.to_dict(), violations=viols)


# ---------------------------------------------------------------------------- encode on one long-lived object (round 8, part B)
# The model's encoder is a pure function of the message VALUE.  Every other stream builds a fresh object per case and encodes it
# once, so nothing ever observed: a second encode() of the same object, encode() after the application edited a field (a cached
# wire form), encode() consuming / reordering the caller's list, or a list-valued field given as another Sequence kind (the
# annotation is Sequence[...]: tuple, a user-defined collections.abc.Sequence).  Oracle: the reference encoding of the value the
# object holds at that moment; the object's observable state must be the same before and after encode().
class _MinimalSequence(collections.abc.Sequence):
    """a Sequence with nothing but the two abstract methods (no list API: pop/append/sort/copy raise AttributeError)"""

    def __init__(self, items):
        self._items = tuple(items)

    def __getitem__(self, i):
        if isinstance(i, slice):
            return _MinimalSequence(self._items[i])
        return self._items[i]

    def __len__(self):
        return len(self._items)


def obj_with_containers(node, vs, kind):
    """like obj_of, every list-valued field (at every depth) is a [kind] instead of a list"""
    kw = {}
    for name, (_, n), v in zip(node["names"], node["fields"], vs):
        if v is None:
            continue
        if n["k"] == "struct":
            kw[name] = obj_with_containers(n, v, kind)
        elif n["k"] == "seq":
            kw[name] = kind([obj_with_containers(n, e, kind) for e in v])
        else:
            kw[name] = to_py(n, v)
    return node["cls"](**kw)


def has_seq(node, vs) -> bool:
    for (tag, n), v in zip(node["fields"], vs):
        if v is None:
            continue
        if n["k"] == "seq" or (n["k"] == "struct" and has_seq(n, v)):
            return True
    return False


def stream_encode_object(types, add, cov, tier, r):
    def enc(o):
        try:
            return "ok " + hx(o.encode())
        except Exception as e:  # noqa
            return exc_class(e)
    for t in types:
        node, cls = t["node"], t["cls"]
        vals = []
        for _ in range(40 if tier == "quick" else 400):
            v = strip_pint(node, rand_fields(node, r, r.choice([0.5, 0.9, 1.0])))
            if ref.ref_fits(node["fields"], v) and t["wf"]:
                vals.append(v)
            if len(vals) >= (8 if tier == "quick" else 80):
                break
        for path in leaf_paths(node):                        # every list level: 2 and 5 elements (distinct payloads)
            if not any(node_at(node, path[:j + 1])[1]["k"] == "seq" for j in range(len(path) - 1)) or not t["wf"]:
                continue
            tag, n = node_at(node, path)
            if n["k"] == "pint":
                continue
            for copies in (2, 5):
                v = on_path(node, path, rand_leaf(n, tag, r), copies)
                if ref.ref_fits(node["fields"], v):
                    vals.append(v)
            if tier == "quick":
                break
        for vi, vs in enumerate(vals):
            want = "ok " + hx(ref.ref_message(node["fields"], vs))
            payload = dict(type=t["name"], value=fields_str(node, vs)[:3000], reference_encoding=want[3:][:3000])
            try:
                o = obj_of(node, vs)
            except Exception:  # noqa
                continue
            s0 = purity_state(node, o)
            e1 = enc(o)
            s1 = purity_state(node, o)
            e2 = enc(o)
            s2 = purity_state(node, o)
            if e1 == want and e2 != want:
                add(f"encode-object:{t['name']}:second-encode", f"{t['module']}.{t['name']}: the second encode() of the same message object "
                    f"returns {e2[:90]} ; the first returned the canonical {want[:90]}", True, first=e1[:3000], second=e2[:3000], **payload)
            d = state_diff_path(node, s0, s1)
            if d is None:
                d = state_diff_path(node, s0, s2)
            if d is not None:
                add(f"encode-object:{t['name']}{'.' + d if d else ''}:message-changed", f"{t['module']}.{t['name']}: encode() changed the message "
                    f"it was called on (first difference at {d or 'top'})", True, before=str(s0)[:1500], after=str(s2)[:1500], **payload)
            # the application edits the object it holds (every field gets the value of another message), then encodes again
            vs2 = vals[(vi + 1) % len(vals)]
            want2 = "ok " + hx(ref.ref_message(node["fields"], vs2))
            try:
                for name, (_, n), v in zip(node["names"], node["fields"], vs2):
                    setattr(o, name, None if v is None else to_py(n, v))
                e3 = enc(o)
            except Exception as e:  # noqa  frozen dataclass: nothing to edit
                e3 = None
            if e3 is not None and e1 == want and e3 != want2:
                add(f"encode-object:{t['name']}:encode-after-edit", f"{t['module']}.{t['name']}: after the fields of an already encoded message "
                    f"object were set to another value, encode() returns {e3[:90]} ; canonical encoding of the new value {want2[:90]}", True,
                    new_value=fields_str(node, vs2)[:3000], impl=e3[:3000], expected=want2[:3000], stale=(e3 == e1), **payload)
            # decode -> edit -> encode on the decoded object (what a controller does with a configuration it read)
            try:
                o4 = cls.decode(unhx(want[3:]))
                e4 = enc(o4)
            except Exception as e:  # noqa
                e4 = exc_class(e)
            if e4 != want:
                add(f"encode-object:{t['name']}:encode-of-decoded", f"{t['module']}.{t['name']}: decode(canonical bytes).encode() = {e4[:90]} ; "
                    f"the bytes were {want[:90]}", True, impl=e4[:3000], **payload)
            kinds = ["list"]
            if has_seq(node, vs):
                for kname, kind in (("tuple", tuple), ("abc.Sequence", _MinimalSequence)):
                    kinds.append(kname)
                    try:
                        ok = enc(obj_with_containers(node, vs, kind))
                    except Exception as e:  # noqa
                        ok = "other:construct:" + type(e).__name__
                    if ok != want and e1 == want:
                        add(f"encode-object:{t['name']}:sequence-as-{kname}", f"{t['module']}.{t['name']}: with its Sequence[...] fields given as "
                            f"{kname} instead of list, encode() = {ok[:90]} ; canonical {want[:90]}", True, impl=ok[:3000], **payload)
            cov.case(f"eo{t['name']}/{fields_str(node, vs)}", True, encode_object_sequence_kinds="+".join(kinds),
                     encode_object_steps="encode,encode,edit,encode,decode,encode")


def culprit_of_decode(node, verdict, idec):
    """name of the first top-level field on which two 'ok V[...]' answers differ"""
    if not (verdict.startswith("ok V[") and idec.startswith("ok V[")):
        return idec.split(" ")[0] if not idec.startswith("ok") else None
    a, b = split_top(verdict[5:-1]), split_top(idec[5:-1])
    for name, x, y in zip(node["names"], a, b):
        if x != y:
            return name
    return None


def split_top(s):
    out, depth, cur = [], 0, ""
    for ch in s:
        if ch in "[(":
            depth += 1
        elif ch in "])":
            depth -= 1
        if ch == ";" and depth == 0:
            out.append(cur)
            cur = ""
        else:
            cur += ch
    out.append(cur)
    return out


# ---------------------------------------------------------------------------- raw iterator / array
def conformant_raw(bs):
    """-> (expected answer of impl_items, expected answer of impl_array); None where the reference does not bind the result:
    bs is not the canonical encoding of an item list / not a list of non-empty elements separated by zero-length type-0 items"""
    from ref import tlv8 as flat
    fr = flat.ref_parse_frags(bs)
    if fr is None:
        return None, None
    items = flat.ref_merge(fr)
    if any(a[0] == b[0] for a, b in zip(items, items[1:])) or flat.ref_encode(items) != bytes(bs):
        return None, None
    want_items = " ".join([f"{k}:{hx(v)}" for k, v in items] + ["end"])
    if any(k == 0 and len(v) for k, v in items):
        return want_items, None
    elems, cur = [], b""
    for k, v in items:
        if k == 0:
            elems.append(cur)
            cur = b""
        else:
            cur += flat.ref_encode([(k, v)])
    elems.append(cur)
    if any(len(e) == 0 for e in elems):
        return want_items, None
    return want_items, " ".join([hx(e) for e in elems] + ["end"])


def impl_items(bs) -> str:
    from aiohomekit.tlv8 import tlv_iterator
    out = []
    try:
        for offset, t, length, value in tlv_iterator(bytes(bs)):
            out.append(f"{int(t)}:{hx(value)}")
        out.append("end")
    except IndexError:
        out.append("crash")
    except Exception as e:  # noqa
        out.append("other:" + type(e).__name__)
    return " ".join(out)


def impl_array(bs) -> str:
    from aiohomekit.tlv8 import tlv_array
    out = []
    try:
        for item in tlv_array(bytes(bs)):
            out.append(hx(item))
        out.append("end")
    except IndexError:
        out.append("crash")
    except Exception as e:  # noqa
        out.append("other:" + type(e).__name__)
    return " ".join(out)


def gen_raw(tier, r):
    import itertools
    cases = [b""]
    for a in range(256):
        cases.append(bytes([a]))
    for a in range(256):
        for b in range(256):
            cases.append(bytes([a, b]))
    alpha = [0, 1, 2, 255]
    for n in range(3, 6 if tier == "quick" else 7):
        for t in itertools.product(alpha, repeat=n):
            cases.append(bytes(t))
    # fragment-boundary shapes: full fragments followed by same / other type / separator / nothing / a lone byte
    for k in (1, 2, 3):
        for tag in (0, 1, 7):
            body = b"".join(bytes([tag, 255]) + bytes([(tag + i) & 0xFF for i in range(255)]) for _ in range(k))
            for tail in (b"", bytes([tag]), bytes([tag, 0]), bytes([tag, 3, 1, 2, 3]), bytes([tag, 5, 1]), b"\x00\x00", b"\x00",
                         bytes([tag ^ 1, 1, 9]), bytes([tag ^ 1]), bytes([tag, 255]) + bytes(100), b"\x00\x00" + bytes([tag, 1, 5])):
                cases.append(body + tail)
                cases.append(b"\x02\x01\x05" + body + tail)
    n_rand = 1500 if tier == "quick" else 100000
    for _ in range(n_rand):
        parts = []
        for _ in range(r.choice([1, 2, 3, 5, 8])):
            tag = r.choice([0, 0, 1, 2, 3, 255, r.randrange(256)])
            ln = r.choice([0, 0, 1, 2, 254, 255, 255, 256, 510, 511, r.randrange(0, 40)])
            data = bytes(r.choice([0, tag, 255, r.getrandbits(8)]) for _ in range(ln))
            for i in range(0, len(data), 255):
                c = data[i:i + 255]
                parts.append(bytes([tag, len(c)]) + c)
            if ln == 0:
                parts.append(bytes([tag, 0]))
        bs = bytearray(b"".join(parts))
        m = r.random()
        if m < 0.3 and bs:
            bs = bs[: r.randrange(len(bs))]
        elif m < 0.45 and bs:
            k = r.randrange(len(bs)); bs[k] ^= 1 << r.randrange(8)
        elif m < 0.5:
            bs += bytes([r.randrange(256)])
        cases.append(bytes(bs))
    # many fragments of one value (round 8): k full fragments, then nothing / a short fragment of the same type / another item /
    # a separator; with a leading item; payload bytes that look like headers.  (No draw from r: the stream above is unchanged.)
    for ki, k in enumerate(LONG_FRAGS[tier]):
        for tag in (((1,), (0,))[ki % 4 == 2] if tier == "quick" else ((1, 0, 255) if k <= 65 else (1, 0)[ki % 2:ki % 2 + 1])):
            if tier == "quick" and ki % 2 == 1 and k < 100:
                continue
            body = b"".join(bytes([tag, 255]) + bytes([(tag + i + j) & 0xFF for i in range(255)]) for j in range(k))
            tails = (b"", bytes([tag, 1, 9]) + bytes([tag ^ 1, 1, 9])) if tier == "quick" else \
                    (b"", bytes([tag, 1, 9]), bytes([tag ^ 1, 1, 9]), b"\x00\x00" + bytes([tag, 1, 5]), bytes([tag]), bytes([tag, 255]) + bytes(100))
            for tail in tails:
                cases.append(body + tail)
            if tier != "quick" and k <= 129:
                cases.append(b"\x02\x01\x05" + body)
                cases.append(b"".join(bytes([tag, 255]) + bytes([tag, 255]) * 127 + bytes([tag]) for _ in range(k)) + bytes([tag, 2, tag, 255]))
    return cases


# ---------------------------------------------------------------------------- Characteristic.value
def stream_charvalue(types, schemas, drv, add, cov, tier, r):
    from aiohomekit.model import Accessory
    from aiohomekit.model.characteristics.characteristic import characteristics as meta
    by_cls = {t["cls"]: (i, t) for i, t in enumerate(types)}
    reqs, info = [], []
    for uuid, extra in sorted(meta.items()):
        st = extra.get("struct")
        if st is None or st not in by_cls or extra.get("format") != "tlv8":
            continue
        ti, t = by_cls[st]
        node = t["node"]
        is_array = bool(extra.get("array"))
        for j in range(40 if tier == "quick" else 1000):
            if is_array:
                elems = []
                for _ in range(r.choice([1, 2, 3])):
                    e = rand_fields(node, r, 0.9)
                    if any(x is not None for x in e) and ref.ref_fits(node["fields"], e):
                        elems.append(e)
                if not elems:
                    continue
                raw = b"\x00\x00".join(ref.ref_message(node["fields"], e) for e in elems)
                expect = "ok L[" + ";".join(fields_str(node, e) for e in elems) + "]"
                sch = "S[1:Q" + schemas[ti][1:] + "]"                  # wrap: a struct with one list field of type 1
                wire = b"".join(bytes([1, len(raw[i:i + 255])]) + raw[i:i + 255] for i in range(0, len(raw), 255))
                reqs.append(f"dec {sch} {hx(wire)}")
            else:
                vs = rand_fields(node, r, 0.8)
                if not ref.ref_fits(node["fields"], vs):
                    continue
                raw = ref.ref_message(node["fields"], vs)
                expect = "ok " + fields_str(node, vs)
                reqs.append(f"dec {schemas[ti]} {hx(raw)}")
            info.append((uuid, extra.get("name"), node, is_array, raw, expect))
    model = drv.batch(reqs)
    for (uuid, name, node, is_array, raw, expect), md in zip(info, model):
        try:
            acc = Accessory(1)
            svc = acc.add_service("00000110-0000-1000-8000-0026BB765291")
            ch = svc.add_char(uuid)
            ch._value = base64.b64encode(raw).decode()
            v = ch.value
            if is_array:
                got = "ok L[" + ";".join(fields_str(node, vals_of(node, e)) for e in v) + "]"
            else:
                got = "ok " + fields_str(node, vals_of(node, v))
        except Exception as e:  # noqa
            got = exc_class(e)
        if is_array and md.startswith("ok V[L["):
            md = "ok " + md[5:-1]
        if got != expect:
            add(f"charvalue:{name}", f"Characteristic.value of {name} = {got[:120]} ; encoded value was {expect[:120]}", True,
                characteristic=name, bytes=hx(raw), impl=got, expected=expect)
        elif md != expect:
            add(f"charvalue:{name}:model-vs-reference", f"model {md[:120]} != expected {expect[:120]}", False, bytes=hx(raw))
        cov.case("c" + uuid + hx(raw), True, charvalue=name)


# ---------------------------------------------------------------------------- to_dict() of accessory-side structures
def stream_database(types, add, cov, tier, r, r_big=None):
    by_name = {t["name"]: t for t in types}
    db_t = by_name.get("Pdu09Database")
    n_runs = 60 if tier == "quick" else 3000
    if db_t is not None and hasattr(db_t["cls"], "to_dict"):
        node = db_t["node"]

        def fld(n, name):
            i = n["names"].index(name)
            return i, n["fields"][i][1]
        try:
            ia, acc_c = fld(node, "_accessories")
            iacc, acc = fld(acc_c, "accessory")
            i_aid, _ = fld(acc, "instance_id")
            i_svcs, svc_c = fld(acc, "_services")
            i_svc, svc = fld(svc_c, "service")
            s_type, _ = fld(svc, "type"); s_iid, _ = fld(svc, "instance_id"); s_chars, chr_c = fld(svc, "_characteristics")
            s_link, _ = fld(svc, "linked_services"); s_props, _ = fld(svc, "properties")
            i_chr, chrn = fld(chr_c, "characteristic")
            c_type, _ = fld(chrn, "type"); c_iid, _ = fld(chrn, "instance_id"); c_props, _ = fld(chrn, "properties")
            c_pf, _ = fld(chrn, "presentation_format")
        except ValueError as e:
            add("database:fields-renamed", f"Pdu09 structures no longer expose the expected field names: {e}", False)
            return
        def judge_database(wire, want, top, n_acc, size_class=None):
            def view(w):
                try:
                    d = db_t["cls"].decode(w).to_dict()
                    return [(a["aid"], [(s["type"], s["iid"], [(c["type"], c["iid"]) for c in s["characteristics"]], list(s.get("linked", [])))
                                        for s in a["services"]]) for a in d]
                except Exception as e:  # noqa
                    return exc_class(e)
            got = view(wire)
            if got != want:
                nolink = lambda x: [(a, [(s[0], s[1], s[2]) for s in ss]) for a, ss in x]
                key = "database:to_dict:structure"
                if isinstance(got, list) and nolink(got) == nolink(want):
                    bad = next((ws[3], gs[3]) for (_, wss), (_, gss) in zip(want, got) for ws, gs in zip(wss, gss) if ws[3] != gs[3])
                    key = "linked:database-to_dict:" + ids_class(bad[0])
                elif got == "crash":
                    # attributable to the linked services? the same database without them must decode fine
                    st = strip_pint(node, top)
                    w2 = nolink(want)
                    g2 = view(ref.ref_message(node["fields"], st))
                    if isinstance(g2, list) and nolink(g2) == w2:
                        key = "linked:database-to_dict:IndexError"
                if size_class:
                    key += ":" + size_class
                add(key, f"Pdu09Database.decode(reference-encoded database of {len(wire)} bytes).to_dict() differs: got {str(got)[:140]} ; want {str(want)[:140]}",
                    True, bytes=hx(wire), impl=str(got)[:3000], expected=str(want)[:3000])
            cov.case("db" + hx(wire), True, database_accessories=n_acc, database_kib=pow2_bucket(len(wire) // 1024))

        for run in range(n_runs):
            want = []
            accs = []
            for a in range(r.choice([1, 2, 3])):
                aid = r.choice([1, 2, 255, 256, 65535, r.randrange(1, 65536)])
                svcs, wsv = [], []
                for s in range(r.choice([1, 2, 3])):
                    siid = r.randrange(1, 65536)
                    stype = r.choice([0x3E, 0x43, 0xA2, (1 << 128) - 1, r.getrandbits(128) | 1] + [x for x in magic_ints(16, r, 6) if x][:40])
                    linked = [r.choice([1, 16, 0x0100, 0xFF00, 0x00FF, 65535, r.randrange(1, 65536)]) for _ in range(r.choice([0, 1, 2, 3, 6]))]
                    chars, wch = [], []
                    for c in range(r.choice([1, 2, 3])):
                        ciid = r.randrange(1, 65536)
                        ctype = r.choice([0x14, 0x23, 0x25, r.getrandbits(128) | 1] + [x for x in magic_ints(16, r, 6) if x][:40])
                        cv = [None] * len(chrn["fields"])
                        cv[c_type], cv[c_iid], cv[c_props] = ctype, ciid, r.choice([0x0010, 0x0030, 0x00B0, 0x0001])
                        cv[c_pf] = bytes([r.choice([1, 4, 6, 8, 0x19, 0x1B]), 0, 0, 0x27, 1, 0, 0])
                        cc = [None] * len(chr_c["fields"]); cc[i_chr] = cv
                        chars.append(cc); wch.append((f"{ctype:X}", ciid))
                    sv = [None] * len(svc["fields"])
                    sv[s_type], sv[s_iid], sv[s_chars] = stype, siid, chars
                    sv[s_props] = r.choice([None, 1, 3])
                    sv[s_link] = linked or None
                    sc = [None] * len(svc_c["fields"]); sc[i_svc] = sv
                    svcs.append(sc); wsv.append((f"{stype:X}", siid, wch, linked))
                av = [None] * len(acc["fields"]); av[i_aid], av[i_svcs] = aid, svcs
                ac = [None] * len(acc_c["fields"]); ac[iacc] = av
                accs.append(ac); want.append((aid, wsv))
            top = [None] * len(node["fields"]); top[ia] = accs
            wire = ref.ref_message(node["fields"], top, perm=r if run % 3 == 0 else None)
            judge_database(wire, want, top, len(want))

        # large databases (round 8): the outer container items wrap the WHOLE database, so a realistic accessory with a dozen
        # services makes every enclosing level a value of tens of kilobytes.  No linked services here (known finding, keyed above).
        if r_big is not None:
            shapes = [(3, 10, 14), (1, 40, 9), (4, 16, 16)] if tier == "quick" else \
                     [(3, 10, 14), (1, 40, 9), (4, 16, 16), (1, 1, 400), (8, 8, 8), (2, 70, 5), (1, 300, 1), (12, 3, 30)] * 3
            for run, (na, ns, nc) in enumerate(shapes):
                want, accs = [], []
                for a in range(na):
                    aid = a + 1
                    svcs, wsv = [], []
                    for sidx in range(ns):
                        siid = 1 + a * 4000 + sidx * (nc + 1)
                        stype = r_big.choice([0x3E, 0x43, r_big.getrandbits(128) | (1 << 127)])
                        chars, wch = [], []
                        for c in range(nc):
                            ciid = siid + 1 + c
                            ctype = r_big.getrandbits(128) | (1 << 127) if c % 3 else r_big.choice([0x14, 0x23, 0x25])
                            cv = [None] * len(chrn["fields"])
                            cv[c_type], cv[c_iid], cv[c_props] = ctype, ciid, r_big.choice([0x0010, 0x0030, 0x00B0, 0x0001])
                            cv[c_pf] = bytes([r_big.choice([1, 4, 6, 8, 0x19, 0x1B]), 0, 0, 0x27, 1, 0, 0])
                            cc = [None] * len(chr_c["fields"]); cc[i_chr] = cv
                            chars.append(cc); wch.append((f"{ctype:X}", ciid))
                        sv = [None] * len(svc["fields"])
                        sv[s_type], sv[s_iid], sv[s_chars] = stype, siid, chars
                        sc = [None] * len(svc_c["fields"]); sc[i_svc] = sv
                        svcs.append(sc); wsv.append((f"{stype:X}", siid, wch, []))
                    av = [None] * len(acc["fields"]); av[i_aid], av[i_svcs] = aid, svcs
                    ac = [None] * len(acc_c["fields"]); ac[iacc] = av
                    accs.append(ac); want.append((aid, wsv))
                top = [None] * len(node["fields"]); top[ia] = accs
                wire = ref.ref_message(node["fields"], top, perm=r_big if run % 2 else None)
                judge_database(wire, want, top, na, size_class="large")
        stream_fixture(db_t, add, cov)
    svc_t = by_name.get("Service")
    if svc_t is not None and hasattr(svc_t["cls"], "to_dict") and "linked_services" in svc_t["node"]["names"]:
        node = svc_t["node"]
        il = node["names"].index("linked_services")
        ip = node["names"].index("service_properties") if "service_properties" in node["names"] else None
        for run in range(n_runs * 4):
            n = run % 7
            linked = [r.choice([r.randrange(1, 65536), (run * 257 + i) & 0xFFFF or 1, 0x0100, 0x00FF]) for i in range(n)]
            vs = [None] * len(node["fields"])
            vs[il] = linked or None
            if ip is not None:
                vs[ip] = r.choice([None, 0, 1, 2, 7])
            wire = ref.ref_message(node["fields"], vs, perm=r if run % 2 else None)
            try:
                d = svc_t["cls"].decode(wire).to_dict()
                got = list(d.get("linked", []))
            except Exception as e:  # noqa
                got = exc_class(e)
            if got != linked:
                cls = "IndexError" if got == "crash" else (ids_class(linked) if isinstance(got, list) else str(got).replace(" ", "-"))
                add(f"linked:signature-to_dict:{cls}",
                    f"BLE service signature {hx(wire)} with linked services {linked}: Service.decode(...).to_dict()['linked'] = {got}", True,
                    bytes=hx(wire), impl=str(got), expected=str(linked))
            cov.case("sig" + hx(wire), True, signature_linked=n)


def stream_fixture(db_t, add, cov):
    """The captured Schlage Encode Plus database shipped with the library's own tests (home-assistant/core#100160):
    linked services as the reference decoder reads them vs to_dict().  Optional: skipped when the fixture is not importable."""
    try:
        import tests.test_coap_structs as tcs
        blob = bytes(tcs.database_schlage_encode_plus)
    except Exception:  # noqa
        cov.extra["fixture_schlage"] = "not available"
        return
    node = db_t["node"]
    try:
        rv = ref.ref_decode(node["fields"], blob, short_ints=True)
    except Exception as e:  # noqa
        cov.extra["fixture_schlage"] = "reference decoder: " + type(e).__name__
        return

    def links(vs_db):
        out = {}
        n_acc_c = node["fields"][node["names"].index("_accessories")][1]
        for ac in vs_db[node["names"].index("_accessories")] or []:
            n_acc = n_acc_c["fields"][n_acc_c["names"].index("accessory")][1]
            av = ac[n_acc_c["names"].index("accessory")]
            n_svc_c = n_acc["fields"][n_acc["names"].index("_services")][1]
            for sc in av[n_acc["names"].index("_services")] or []:
                n_svc = n_svc_c["fields"][n_svc_c["names"].index("service")][1]
                sv = sc[n_svc_c["names"].index("service")]
                out[sv[n_svc["names"].index("instance_id")]] = list(sv[n_svc["names"].index("linked_services")] or [])
        return out
    want = links(rv)
    try:
        d = db_t["cls"].decode(blob).to_dict()
        got = {s["iid"]: list(s.get("linked", [])) for a in d for s in a["services"]}
    except Exception as e:  # noqa
        got = exc_class(e)
    cov.extra["fixture_schlage"] = dict(services=len(want), with_linked=sum(1 for v in want.values() if v))
    cov.case("fixture-schlage", True, fixture="schlage")
    if got != want:
        if isinstance(got, dict):
            iid = next(k for k in want if got.get(k) != want[k])
            cls, detail = ids_class(want[iid]), f"service {iid}: linked {want[iid]} read as {got.get(iid)}"
        else:
            cls, detail = ("IndexError" if got == "crash" else str(got)), str(got)
        add(f"linked:fixture-schlage-to_dict:{cls}",
            f"Pdu09Database.decode(tests/test_coap_structs.py::database_schlage_encode_plus).to_dict(): {detail}", True,
            fixture="tests.test_coap_structs.database_schlage_encode_plus", impl=str(got)[:2000], expected=str(want)[:2000])


# ---------------------------------------------------------------------------- decode purity
# The model's decoder is a pure function of (schema, bytes).  The implementation's must be too, observably: whatever was
# decoded before and whatever a caller did with earlier results, decode(bytes) returns a message equal to the value the
# bytes encode, built from objects nobody else holds.  (Immutable leaves - ints, bytes, str, enum members - may be shared.)
def _is_frozen(o) -> bool:
    try:
        return bool(getattr(type(o), "__dataclass_params__").frozen)
    except Exception:  # noqa
        return False


def purity_state(node, o):
    """full observable state of a decoded message: TLV fields (neutral value) + the non-TLV dataclass slots (e.g. _value)"""
    if o is None:
        return None
    if not isinstance(o, node["cls"]):
        return Bad("?" + type(o).__name__)
    out = []
    for name, (tag, n) in zip(node["names"], node["fields"]):
        x = getattr(o, name)
        if x is None:
            out.append(None)
        elif n["k"] == "struct":
            out.append(purity_state(n, x))
        elif n["k"] == "seq":
            out.append([purity_state(n, e) for e in x] if isinstance(x, (list, tuple)) else Bad("?" + type(x).__name__))
        else:
            out.append(from_py(n, x))
    extra = []
    for f in dataclasses.fields(o):
        if not f.init:
            extra.append((f.name, repr(getattr(o, f.name, None))))
    return (out, extra)


def state_diff_path(node, a, b):
    """dotted field path of the first difference between two purity states, None if equal"""
    if a == b:
        return None
    if a is None or b is None or isinstance(a, Bad) or isinstance(b, Bad):
        return ""
    (fa, ea), (fb, eb) = a, b
    for name, (tag, n), x, y in zip(node["names"], node["fields"], fa, fb):
        if x == y:
            continue
        if n["k"] == "struct":
            sub = state_diff_path(n, x, y)
            return name + ("." + sub if sub else "")
        if n["k"] == "seq" and isinstance(x, list) and isinstance(y, list):
            if len(x) != len(y):
                return name
            for ex, ey in zip(x, y):
                sub = state_diff_path(n, ex, ey)
                if sub is not None:
                    return name + ("." + sub if sub else "")
        return name
    for (na, va), (nb, vb) in zip(ea, eb):
        if va != vb:
            return na
    return ""


def mutable_objects(node, o, path=""):
    """(path, object) for every mutable container of a decoded message: struct instances (unless frozen) and lists"""
    out = []
    if o is None or not isinstance(o, node["cls"]):
        return out
    if not _is_frozen(o):
        out.append((path, o))
    for name, (tag, n) in zip(node["names"], node["fields"]):
        x = getattr(o, name)
        p = (path + "." if path else "") + name
        if x is None:
            continue
        if n["k"] == "struct":
            out += mutable_objects(n, x, p)
        elif n["k"] == "seq":
            if isinstance(x, list):
                out.append((p, x))
            if isinstance(x, (list, tuple)):
                for e in x:
                    out += mutable_objects(n, e, p)
        elif n["k"] == "pint" and isinstance(x, list):
            out.append((p, x))
    return out


def other_value(n, x, r):
    k = n["k"]
    if k == "int":
        top = (1 << (8 * n["w"])) - 1
        return ((int(x) if x is not None else 0) + 1 + r.randrange(7)) & top
    if k == "enum":
        others = [m for m in n["members"] if x is None or m != int(x)]
        return n["cls"](others[0]) if others else 255
    if k == "str":
        return (x or "") + "-edited"
    if k == "bytes":
        return b"\xee" + (bytes(x) if x is not None else b"")
    return 1


def mutate_message(node, o, r) -> int:
    """edit every mutable slot of a decoded message in place (what an application is free to do with ITS copy)"""
    n_mut = 0
    if o is None or not isinstance(o, node["cls"]):
        return 0
    for name, (tag, n) in zip(node["names"], node["fields"]):
        x = getattr(o, name, None)
        try:
            if n["k"] == "struct":
                if x is not None:
                    n_mut += mutate_message(n, x, r)
            elif n["k"] == "seq":
                if isinstance(x, list) and x:
                    for e in x:
                        n_mut += mutate_message(n, e, r)
                    x.append(x[0])
                    n_mut += 1
            elif n["k"] == "pint":
                if isinstance(x, list):
                    x.append(7)
                    n_mut += 1
            elif n["k"] != "unsupp":
                setattr(o, name, other_value(n, x, r))
                n_mut += 1
        except Exception:  # noqa  frozen / read-only: nothing to spoil
            pass
    for f in dataclasses.fields(o):
        if not f.init:
            try:
                setattr(o, f.name, b"stale-from-an-earlier-decode")
                n_mut += 1
            except Exception:  # noqa
                pass
    return n_mut


def purity_values(node, r, tier):
    """values whose wire form repeats: random ones, lists with byte-identical elements, the empty message"""
    out = [[None] * len(node["fields"])]
    for _ in range(6 if tier == "quick" else 60):
        v = strip_pint(node, rand_fields(node, r, r.choice([0.5, 0.9, 1.0])))
        if ref.ref_fits(node["fields"], v):
            out.append(v)
    for _ in range(2 if tier == "quick" else 10):         # with a Sequence[int] field: only self-consistency is judged
        v = rand_fields(node, r, 0.9)
        if ref.ref_fits(node["fields"], v) and has_pint(node, v):
            out.append(v)
    for path in leaf_paths(node):                          # every list level: two and three byte-identical elements
        if not any(node_at(node, path[:j + 1])[1]["k"] == "seq" for j in range(len(path) - 1)):
            continue
        tag, n = node_at(node, path)
        if n["k"] == "pint":
            continue
        leaf = rand_leaf(n, tag, r)
        for copies in (2, 3):
            v = on_path(node, path, leaf, copies)
            if ref.ref_fits(node["fields"], v):
                out.append(v)
    return out


def stream_purity(types, add, cov, tier, r):
    for t in types:
        node, cls = t["node"], t["cls"]
        for vi, vs in enumerate(purity_values(node, r, tier)):
            wire = ref.ref_message(node["fields"], vs)
            tag = f"{t['name']}"
            try:
                o1 = cls.decode(wire)
                s1 = purity_state(node, o1)
                o2 = cls.decode(bytes(wire))
                s2 = purity_state(node, o2)
            except Exception:  # noqa  (decode failures are the other streams' business)
                continue
            expected = fields_str(node, vs) if not has_pint(node, vs) else None
            payload = dict(type=t["name"], bytes=hx(wire), value=fields_str(node, vs))
            # (a) equal, but no mutable object shared between the two results or between two positions of one result
            d = state_diff_path(node, s1, s2)
            if d is not None:
                add(f"purity:{tag}{'.' + d if d else ''}:unstable", f"{t['module']}.{t['name']}.decode({hx(wire)[:60]}) twice gives different messages "
                    f"(first difference at {d or 'top'})", True, first=str(s1)[:600], second=str(s2)[:600], **payload)
            seen = {}
            for res_i, o in ((1, o1), (2, o2)):
                for pth, obj in mutable_objects(node, o):
                    if id(obj) in seen and seen[id(obj)][2] is obj:
                        prev = seen[id(obj)]
                        how = "two decodes of the same bytes" if prev[0] != res_i else "two positions of one decoded message"
                        add(f"purity:{tag}{'.' + pth if pth else ''}:shared-object",
                            f"{t['module']}.{t['name']}.decode({hx(wire)[:60]}): {how} share one mutable {type(obj).__name__} object "
                            f"(at {prev[1] or 'top'} and {pth or 'top'}); editing one edits the other", True, **payload)
                    else:
                        seen[id(obj)] = (res_i, pth, obj)
            # aliasing inside ONE result: edit the first element of every list, the others must not move
            # (b) edit everything the caller can edit on the first result, decode the same bytes again
            n_mut = mutate_message(node, o1, r)
            try:
                o3 = cls.decode(bytes(wire))
                s3 = purity_state(node, o3)
            except Exception as e:  # noqa
                s3 = Bad("?" + type(e).__name__)
            d = state_diff_path(node, s1, s3)
            if d is not None:
                add(f"purity:{tag}{'.' + d if d else ''}", f"{t['module']}.{t['name']}: decode({hx(wire)[:60]}), edit the returned message ({n_mut} slots), "
                    f"decode the same bytes again: the second message differs from what the bytes encode at {d or 'top'} "
                    f"(decode(encode(m)) != m after an earlier result was edited)", True,
                    expected=expected, first_decode=str(s1)[:800], decode_after_edit=str(s3)[:800], mutated_slots=n_mut, **payload)
            cov.case(f"p{t['name']}/{hx(wire)}", True, purity_type=t["name"], purity_mutated_slots=min(n_mut, 20))
    purity_users(types, add, cov, tier, r)


def purity_users(types, add, cov, tier, r):
    """(c) the same through the users the property names"""
    by_name = {t["name"]: t for t in types}
    by_cls = {t["cls"]: t for t in types}
    # Characteristic.value read twice, the caller edits the first result
    try:
        from aiohomekit.model import Accessory
        from aiohomekit.model.characteristics.characteristic import characteristics as meta
    except Exception:  # noqa
        meta = {}
    for uuid, extra in sorted(meta.items()):
        st = extra.get("struct")
        if st is None or st not in by_cls or extra.get("format") != "tlv8":
            continue
        t = by_cls[st]
        node = t["node"]
        for j in range(6 if tier == "quick" else 60):
            e = strip_pint(node, rand_fields(node, r, 0.9))
            if not (any(x is not None for x in e) and ref.ref_fits(node["fields"], e)):
                continue
            one = ref.ref_message(node["fields"], e)
            raw = b"\x00\x00".join([one, one]) if extra.get("array") else one
            try:
                acc = Accessory(1)
                ch = acc.add_service("00000110-0000-1000-8000-0026BB765291").add_char(uuid)
                ch._value = base64.b64encode(raw).decode()
                v1 = ch.value
                items1 = v1 if isinstance(v1, list) else [v1]
                s1 = [purity_state(node, x) for x in items1]
                if isinstance(v1, list) and len(v1) > 1:
                    mutate_message(node, v1[0], r)           # edit only the first of two byte-identical entries
                    mid = [purity_state(node, x) for x in v1[1:]]
                    if mid != s1[1:]:
                        add(f"purity:Characteristic.value:{extra.get('name')}:aliased-entries",
                            f"Characteristic.value of {extra.get('name')}: editing entry 0 of the returned list changed entry 1 "
                            f"(two byte-identical entries are one object)", True, bytes=hx(raw))
                for x in items1:
                    mutate_message(node, x, r)
                v2 = ch.value
                s2 = [purity_state(node, x) for x in (v2 if isinstance(v2, list) else [v2])]
            except Exception as ex:  # noqa
                s1, s2 = "?", "?" + type(ex).__name__
            if s1 != s2:
                add(f"purity:Characteristic.value:{extra.get('name')}",
                    f"Characteristic.value of {extra.get('name')} read twice with the caller editing the first result: the second read "
                    f"does not give the stored value any more", True, bytes=hx(raw), first=str(s1)[:600], second=str(s2)[:600])
            cov.case("pc" + uuid + hx(raw), True, purity_user="Characteristic.value")
    # to_dict() of accessory-side structures after a previous decode result was edited (re-fetch after a reconnect)
    for name in ("Pdu09Database", "Service", "Characteristic", "Pdu09Service", "Pdu09Characteristic"):
        t = by_name.get(name)
        if t is None or not hasattr(t["cls"], "to_dict"):
            continue
        node, cls = t["node"], t["cls"]
        for j in range(8 if tier == "quick" else 80):
            vs = strip_pint(node, rand_fields(node, r, 1.0 if j % 2 else 0.8))
            if not ref.ref_fits(node["fields"], vs):
                continue
            wire = ref.ref_message(node["fields"], vs)

            def view():
                try:
                    return repr(cls.decode(bytes(wire)).to_dict())
                except Exception as ex:  # noqa
                    return "raises " + type(ex).__name__
            try:
                first = cls.decode(wire)
            except Exception:  # noqa
                continue
            before = view()
            n_mut = mutate_message(node, first, r)
            after = view()
            if before != after:
                add(f"purity:{name}.to_dict", f"{t['module']}.{name}: decode, edit the result ({n_mut} slots, incl. the raw value slots), fetch and "
                    f"decode the same bytes again: to_dict() changed from {before[:160]} to {after[:160]}", True,
                    bytes=hx(wire), to_dict_before=before[:3000], to_dict_after=after[:3000])
            cov.case("pu" + name + hx(wire), True, purity_user=name + ".to_dict")


# ---------------------------------------------------------------------------- characteristic signatures: secondary codec
def _sval_py(x, fmt) -> str:
    import struct as st
    if x is None:
        return "n"
    if isinstance(x, bool):
        return "b1" if x else "b0"
    if isinstance(x, int):
        return "i%d" % x
    if isinstance(x, float):
        return "f" + hx(st.pack("<f", x))
    if isinstance(x, str):
        if fmt == 0x1B:
            try:
                return "x" + hx(bytes.fromhex(x))
            except ValueError:
                return "?str"
        return "t" + hx(x.encode("utf-8"))
    if isinstance(x, (bytes, bytearray)):
        return "r" + hx(x)
    return "?" + type(x).__name__


SIG_KEYS = {"type", "iid", "perms", "broadcast_events", "disconnected_events", "format", "unit", "value", "minStep", "minValue", "maxValue"}


def impl_sig(obj, fmt) -> str:
    try:
        d = obj.to_dict()
    except Exception as e:  # noqa
        return exc_class(e)
    try:
        extra = sorted(set(d) - SIG_KEYS)
        mm = (_sval_py(d["minValue"], fmt) + "/" + _sval_py(d["maxValue"], fmt)) if "minValue" in d else "_"
        return ("ok type=%d iid=%s perms=%s bcast=%d disc=%d format=%s unit=%s value=%s minstep=%s minmax=%s%s" % (
            int(d["type"], 16), "_" if d["iid"] is None else int(d["iid"]), ",".join(d["perms"]),
            1 if d.get("broadcast_events") else 0, 1 if d.get("disconnected_events") else 0,
            d.get("format", "_"), d.get("unit", "_"),
            _sval_py(d["value"], fmt) if "value" in d else "_",
            _sval_py(d["minStep"], fmt) if "minStep" in d else "_", mm,
            (" extra=" + ",".join(extra)) if extra else ""))
    except Exception as e:  # noqa
        return "other:shape:" + type(e).__name__


def _le(n, k):
    return bytes((n >> (8 * i)) & 0xFF for i in range(k))


def sig_cases(tier, r):
    """(type, iid, props, pf, range, step, raw) descriptors"""
    import struct as st
    cases = []
    unit_codes = [0x2700, 0x272F, 0x2763, 0x27AD, 0x2731, 0x2703, 0x2701, 0, 0xFFFF]
    pf_of = lambda f, u=0x2700: bytes([f, 0, u & 0xFF, u >> 8, 1, 0, 0])
    for props in range(1024):                                    # every combination of the ten defined property bits
        cases.append((0x25, 10, props, pf_of(0x01), None, None, None))
    for props in (0x0400, 0x8000, 0xFC00, 0xFFFF, 0x8010):        # undefined high bits
        cases.append((0x25, 10, props, None, None, None, None))
    for f in range(256):                                          # every format code
        cases.append((0x14, 2, 0x0010, pf_of(f, r.choice(unit_codes)), None, None, None))
    for u in unit_codes + [r.randrange(65536) for _ in range(20)]:
        for f in (0x04, 0x14):
            cases.append((0x11, 3, 0x0030, pf_of(f, u), None, None, None))
    sizes = {0x04: 1, 0x06: 2, 0x08: 4, 0x0A: 8, 0x10: 4}
    for f, k in sizes.items():
        top = (1 << (8 * k)) - 1
        vals = sorted({0, 1, 2, top, top >> 1, (top >> 1) + 1, 10, 100, 0x0100 & top} | set(pattern_ints(k)[:14]))
        for a in vals:
            for b in (vals[-1], vals[len(vals) // 2], 0):
                cases.append((0x23, 7, 0x00B0, pf_of(f, 0x27AD), _le(a, k) + _le(b, k), _le(a, k), _le(b, k)))
        # wrong sizes / empties / unset
        for bad in (b"", _le(1, k) + b"\x00", _le(1, k)[:-1] if k > 1 else b"\x01\x02", _le(1, k) * 3):
            cases.append((0x23, 7, 0x0010, pf_of(f), bad, None, None))
            cases.append((0x23, 7, 0x0010, pf_of(f), None, bad, None))
            cases.append((0x23, 7, 0x0010, pf_of(f), None, None, bad))
    for x in (0.0, -0.0, 1.0, 0.5, -1.5, 100.0, 0.1, 360.0, 1e-3):   # float32: bytes only, never interpreted
        fb = st.pack("<f", x)
        cases.append((0x11, 9, 0x0090, pf_of(0x14, 0x272F), fb + st.pack("<f", 100.0), fb, fb))
    for f in (0x01, 0x19, 0x1B, 0x00, 0x02, 0x15, 0xFF, None):       # non-numeric / unknown formats with descriptors present
        pf = None if f is None else pf_of(f)
        for raw in (b"\x00", b"\x01", b"\x02", b"abc", "é€".encode(), b"\xff\xfe", b"", bytes(range(20))):
            cases.append((0x37, 5, 0x0011, pf, b"\x00\x64", b"\x01", raw))
    for pf in (b"", b"\x04", bytes(6), bytes(8), bytes(14)):             # presentation format of the wrong size
        cases.append((0x25, 1, 0x0010, pf, None, None, None))
    n = 300 if tier == "quick" else 6000
    for _ in range(n):
        f = r.choice([0x01, 0x04, 0x06, 0x08, 0x0A, 0x10, 0x14, 0x19, 0x1B, r.randrange(256)])
        k = sizes.get(f, 4 if f == 0x14 else r.choice([1, 2, 4]))
        rb = lambda m: bytes(r.choice([0, 1, 0x7F, 0x80, 0xFF, r.getrandbits(8)]) for _ in range(m))
        if f == 0x14:
            rb = lambda m: b"".join(st.pack("<f", r.choice([0.0, 1.0, -2.5, 50.0, 0.25])) for _ in range(m // 4))
        cases.append((r.choice(magic_ints(16, r, 4) + [0x25, 0x14]) or 1, r.choice([None, 0, 1, 65535, r.randrange(65536)]), r.getrandbits(r.choice([10, 16])),
                      r.choice([None, pf_of(f, r.choice(unit_codes))]),
                      r.choice([None, rb(2 * k), rb(2 * k), rb(r.randrange(0, 9))]),
                      r.choice([None, rb(k), rb(k), rb(r.randrange(0, 5))]),
                      r.choice([None, rb(k), rb(k), rb(r.randrange(0, 9))])))
    return cases


def stream_signature(types, drv, add, cov, tier, r):
    from ref import hapsig
    targets = []
    for t in types:
        if t["name"] == "Characteristic" and t["module"].endswith("ble.structs"):
            targets.append(("ble", t))
        if t["name"] == "Pdu09Characteristic":
            targets.append(("coap", t))
    if len(targets) != 2:
        add("signature:classes-not-found", "BLE Characteristic / CoAP Pdu09Characteristic signature structs not found by reflection", False)
        return
    cases = sig_cases(tier, r)
    H = lambda b: "_" if b is None else hx(b)
    for variant, t in targets:
        node, cls = t["node"], t["cls"]
        need = ("type", "instance_id", "properties", "presentation_format", "valid_range", "step_value")
        if any(n not in node["names"] for n in need) or not hasattr(cls, "to_dict"):
            add(f"signature:{variant}:fields-renamed", f"{t['name']} no longer has the fields {need} / to_dict()", False)
            continue
        ix = {n: node["names"].index(n) for n in need}
        reqs = [f"sig {variant} {ty} {'_' if iid is None else iid} {props & 0xFFFF} {H(pf)} {H(rg)} {H(stp)} {H(raw)}"
                for (ty, iid, props, pf, rg, stp, raw) in cases]
        model = drv.batch(reqs)
        for ci, ((ty, iid, props, pf, rg, stp, raw), md) in enumerate(zip(cases, model)):
            props &= 0xFFFF
            # the real path: an accessory's signature on the wire -> decode -> (raw value stored by a read) -> to_dict()
            vs = [None] * len(node["fields"])
            vs[ix["type"]], vs[ix["instance_id"]], vs[ix["properties"]] = ty, iid, props
            for name, val in (("presentation_format", pf), ("valid_range", rg), ("step_value", stp)):
                vs[ix[name]] = val if val else None
            try:
                obj = cls.decode(ref.ref_message(node["fields"], vs))
                for name, val in (("presentation_format", pf), ("valid_range", rg), ("step_value", stp)):
                    if val is not None and len(val) == 0:
                        setattr(obj, name, b"")                   # an explicitly empty descriptor cannot travel; set it directly
                if raw is not None:
                    obj.raw_value = bytes(raw)
            except Exception as e:  # noqa
                add(f"signature:{variant}:construct", f"cannot build the signature object: {type(e).__name__}", False)
                continue
            fmt = pf[0] if pf is not None and len(pf) == 7 else None
            got = impl_sig(obj, fmt)
            payload = dict(variant=variant, type=ty, iid=iid, properties=props, presentation_format=H(pf), valid_range=H(rg),
                           step_value=H(stp), raw_value=H(raw), impl=got, model=md)
            exp = hapsig.expected(variant, props, pf, rg, stp, raw)
            bad = None
            if exp is not None and got.startswith("ok "):
                kv = dict(x.split("=", 1) for x in got[3:].split(" "))
                if "extra" in kv:
                    bad = ("extra-keys", kv["extra"], "")
                else:
                    for aspect, want in exp.items():
                        if want != hapsig.WILD and kv.get(aspect) != want:
                            bad = (aspect, kv.get(aspect), want)
                            break
                    if bad is None and (kv["type"] != str(ty) or kv["iid"] != ("_" if iid is None else str(iid))):
                        bad = ("type-iid", kv["type"] + "/" + kv["iid"], f"{ty}/{iid}")
            elif exp is not None and all(v != hapsig.WILD for v in exp.values()):
                bad = ("raises", got, "a dictionary")
            if bad is not None:
                add(f"signature:{variant}:to_dict:{bad[0]}",
                    f"{t['module']}.{t['name']}.to_dict() of a signature (properties 0x{props:04x}, format {H(pf)}, range {H(rg)}, step {H(stp)}, "
                    f"raw value {H(raw)}): {bad[0]} = {bad[1]} ; the HAP/Bluetooth tables give {bad[2]}", True, expected=exp, **payload)
            elif got != md:
                add(f"signature:{variant}:to_dict:model-mismatch", f"to_dict(): implementation {got[:160]} != model {md[:160]}", False,
                    broken="correspondence Model/Tlv8Sig.v <-> to_dict()/_unpack_value", **payload)
            cov.case(f"s{variant}{ci}", True, sig_variant=variant, sig_format="none" if fmt is None else ("0x%02x" % fmt if fmt in
                     (1, 4, 6, 8, 10, 16, 20, 25, 27) else "other"), sig_result=got.split(" ")[0],
                     sig_descriptors=("R" if rg else "-") + ("S" if stp else "-") + ("V" if raw is not None else "-"))
        # _pack_value / _unpack_value: the raw value codec used when values are written / read
        pv = []
        for f in (None, 0x00, 0x01, 0x04, 0x06, 0x08, 0x0A, 0x10, 0x14, 0x19, 0x1B, 0x02, 0xFF):
            k = {0x04: 1, 0x06: 2, 0x08: 4, 0x0A: 8}.get(f)
            if k:
                top = (1 << (8 * k)) - 1
                for z in sorted({0, 1, top, top + 1, -1, top >> 1} | set(pattern_ints(k)[:10])):
                    pv.append((f, "i%d" % z, z))
            elif f == 0x10:
                for z in (0, 1, -1, 2 ** 31 - 1, -2 ** 31, 2 ** 31, -2 ** 31 - 1, 300, -300):
                    pv.append((f, "i%d" % z, z))
            elif f == 0x01:
                pv += [(f, "b1", True), (f, "b0", False)]
            elif f == 0x14:
                import struct as _st
                for x in (0.0, 1.0, -2.5, 0.5, 100.0):
                    pv.append((f, "f" + hx(_st.pack("<f", x)), x))
            elif f == 0x19:
                for x in ("", "a", "é€", "x" * 300):
                    pv.append((f, "t" + hx(x.encode()), x))
            elif f == 0x1B:
                for x in (b"", b"\x00", bytes(range(40))):
                    pv.append((f, "x" + hx(x), x.hex()))
            else:
                for x in (b"", b"\x00\x01", bytes(range(10))):
                    pv.append((f, "r" + hx(x), x))
        F = lambda f: "_" if f is None else str(f)
        m_pack = drv.batch([f"pack {F(f)} {sv}" for f, sv, _ in pv])
        packed = []
        for (f, sv, py), mp in zip(pv, m_pack):
            o = cls()
            if f is not None:
                o.presentation_format = bytes([f, 0, 0, 0x27, 1, 0, 0])
            try:
                ip = "ok " + hx(o._pack_value(py))
            except Exception as e:  # noqa
                ip = exc_class(e)
            if ip != mp:
                add(f"signature:{variant}:pack_value:model-mismatch", f"_pack_value(format {F(f)}, {sv}): implementation {ip} != model {mp}", False,
                    variant=variant, format=F(f), value=sv, impl=ip, model=mp)
            if ip.startswith("ok "):
                packed.append((f, sv, py, unhx(ip[3:]), o))
            cov.case(f"pk{variant}{f}{sv}", True, sig_pack_format=F(f))
        m_unpack = drv.batch([f"unpack {F(f)} {hx(b)}" for f, _, _, b, _ in packed])
        for (f, sv, py, b, o), mu in zip(packed, m_unpack):
            try:
                iu = "ok " + _sval_py(o._unpack_value(b), f)
            except Exception as e:  # noqa
                iu = exc_class(e)
            if iu != "ok " + sv:
                add(f"signature:{variant}:unpack-pack", f"{t['name']}._unpack_value(_pack_value({sv})) with format {F(f)} = {iu}", True,
                    variant=variant, format=F(f), value=sv, packed=hx(b), impl=iu)
            elif iu != mu:
                add(f"signature:{variant}:unpack_value:model-mismatch", f"_unpack_value(format {F(f)}, {hx(b)}): implementation {iu} != model {mu}", False,
                    variant=variant, format=F(f), bytes=hx(b), impl=iu, model=mu)


# ---------------------------------------------------------------------------- linked services: the exact boundary (theorem tlv8_sequ16_exact)
def stream_linked_exact(types, drv, add, cov, tier, r):
    import itertools
    t = next((x for x in types if any(n["k"] == "pint" and n["w"] == 2 for _, n in x["node"]["fields"])), None)
    if t is None:
        cov.extra["linked_exact"] = "no Sequence[u16] field at top level"
        return
    node, cls = t["node"], t["cls"]
    i = next(j for j, (_, n) in enumerate(node["fields"]) if n["k"] == "pint" and n["w"] == 2)
    alpha = [0, 5, 0x0100, 0x0205, 0xFF00, 0x00FF, 0xFFFF, 0x0001]
    lists = [list(c) for n in (1, 2, 3) for c in itertools.product(alpha, repeat=n)]
    for _ in range(300 if tier == "quick" else 20000):
        lists.append([r.choice(alpha + [0, 0, r.randrange(65536)]) for _ in range(r.randrange(1, 8))])
    m_good = drv.batch(["good " + ",".join(str(x) for x in l) for l in lists])
    counts = collections.Counter()
    for ids, mg in zip(lists, m_good):
        good = sequ16_good(ids)
        if (mg == "true") != good:
            add("linked:good-predicate:model-vs-harness", f"sequ16_good({ids}): Coq says {mg}, harness says {good}", False, ids=str(ids))
        vs = [None] * len(node["fields"])
        vs[i] = ids
        wire = ref.ref_message(node["fields"], vs)
        try:
            got = getattr(cls.decode(wire), node["names"][i])
            right = (got == ids)
        except Exception as e:  # noqa
            got, right = exc_class(e), False
        counts["good" if good else "bad"] += 1
        if good and not right:
            add("linked:decode:regression-on-good-list", f"{t['name']}.decode({hx(wire)}): ids {ids} are in the set theorem tlv8_sequ16_exact proves "
                f"the current decoder handles correctly, but the implementation returned {got}", True, bytes=hx(wire), ids=str(ids), impl=str(got))
        elif right and not good:
            add("linked:decode:outside-the-theorem", f"{t['name']}.decode({hx(wire)}): ids {ids} decode correctly although the faithful model says they "
                f"cannot (the linked-services behaviour changed: re-derive the model and the known findings)", False, bytes=hx(wire), ids=str(ids))
        cov.case("lx" + hx(wire), True, linked_exact="good" if good else "bad")
    cov.extra["linked_exact"] = dict(counts)


# ---------------------------------------------------------------------------- catalogue: reflection vs an independent source scan
def catalogue_check(types, add, cov):
    """every class statement in the package's source files that derives (transitively) from TLVStruct must be in the reflected
    catalogue - a class in a module that failed to import, or one without @dataclass, would otherwise escape every stream"""
    import ast
    import os
    import aiohomekit
    root = os.path.dirname(aiohomekit.__file__)
    classes = {}          # name -> (module, [base names])
    for dp, dn, fn in os.walk(root):
        for f in fn:
            if not f.endswith(".py"):
                continue
            path = os.path.join(dp, f)
            mod = "aiohomekit." + os.path.relpath(path, root)[:-3].replace(os.sep, ".")
            mod = mod[:-9] if mod.endswith(".__init__") else mod
            try:
                tree = ast.parse(open(path, encoding="utf-8").read())
            except Exception:  # noqa
                continue
            for n in ast.walk(tree):
                if isinstance(n, ast.ClassDef):
                    bases = [b.id if isinstance(b, ast.Name) else (b.attr if isinstance(b, ast.Attribute) else "") for b in n.bases]
                    classes[(mod, n.name)] = bases
    derived = {k for k, b in classes.items() if "TLVStruct" in b}
    changed = True
    while changed:
        changed = False
        names = {k[1] for k in derived}
        for k, b in classes.items():
            if k not in derived and any(x in names for x in b):
                derived.add(k)
                changed = True
    reflected = {(t["module"], t["name"]) for t in types}
    missing = sorted(derived - reflected)
    unexpected = sorted(reflected - derived)
    cov.extra["catalogue"] = dict(reflected=len(reflected), source_scan=len(derived), in_source_not_reflected=[".".join(k) for k in missing],
                                  reflected_not_in_source=[".".join(k) for k in unexpected],
                                  modules=sorted({m for m, _ in reflected}))
    for k in missing:
        add(f"catalogue:{k[0]}.{k[1]}:not-reflected", f"class {k[0]}.{k[1]} derives from TLVStruct in the source but is not in the reflected catalogue "
            f"(module not importable, or not a dataclass): no stream exercises it", False, module=k[0], cls=k[1])
