"""C19 reference oracle, written from the property statement (not from aiohomekit, not from the Coq model).

A schedule is a list of events
    ("F", k, id_str, tau)        caller k starts waiting for id with timeout tau (ticks)
    ("A", adv)                   an advertisement is processed; adv = dict(valid, id, cn, sn, transport)
    ("C", k) / ("Cq", k)         caller k is cancelled
    ("T", delta)                 time advances by delta ticks
    ("L", id, has_state)         a pairing is loaded (no influence on waiters)
`expected(schedule, match)` returns {k: outcome}, outcome = ("found", id, cn, sn, t) | ("notfound", t) |
("cancelled", t), where `match(transport, waiter_id, adv_id)` says whether the advertisement is for the
waited id.  For the aggregate controller each call listens on every transport.
"""
from __future__ import annotations


def match_ci(transport, waiter_id, adv_id):
    return waiter_id.lower() == adv_id.lower()


def expected(schedule, match=match_ci, transports=("x",)):
    now = 0
    known = {}       # (transport, adv id) -> latest valid advertisement seen
    pending = {}     # k -> (id, deadline)
    res = {}
    for ev in schedule:
        if ev[0] == "F":
            _, k, wid, tau = ev
            hit = None
            for tr in transports:
                for (t2, aid), adv in known.items():
                    if t2 == tr and match(tr, wid, aid) and hit is None:
                        hit = adv
                if hit is not None:
                    break
            if hit is not None:
                res[k] = ("found", hit["id"], hit["cn"], hit["sn"], now)
            else:
                pending[k] = (wid, now + tau)
        elif ev[0] == "A":
            adv = ev[1]
            if not adv["valid"]:
                continue
            tr = adv.get("transport", "x")
            if tr not in transports:
                continue
            known[(tr, adv["id"])] = adv
            for k in sorted(pending):
                wid, _ = pending[k]
                if match(tr, wid, adv["id"]):
                    res[k] = ("found", adv["id"], adv["cn"], adv["sn"], now)
                    del pending[k]
        elif ev[0] in ("C", "Cq"):
            k = ev[1]
            if k in pending:
                res[k] = ("cancelled", now)
                del pending[k]
        elif ev[0] == "T":
            now = now + ev[1]
        # a deadline that has been reached is reported before the next event is looked at
        for k in sorted(pending):
            wid, dl = pending[k]
            if dl <= now:
                res[k] = ("notfound", dl)
                del pending[k]
    return res, set(pending)


# ---------------------------------------------------------------- parsing references
def ref_link_local(packed: bytes) -> bool:
    if len(packed) == 4:
        return packed[0] == 169 and packed[1] == 254
    return packed[0] == 0xFE and (packed[1] & 0xC0) == 0x80


def ref_unspecified(packed: bytes) -> bool:
    return not any(packed)


def ref_addresses(addrs):
    """addrs: list of packed addresses in the order given to ServiceInfo -> usable ones, IPv4 first."""
    v4 = [a for a in addrs if len(a) == 4]
    v6 = [a for a in addrs if len(a) == 16]
    return [a for a in v4 + v6 if not ref_link_local(a) and not ref_unspecified(a)]


def ref_ble_id(dev: bytes) -> str:
    return ":".join("%02x" % b for b in dev)
