"""Independent reference for the HAP PDU layer (HAP-BLE R2 ch. 7.3.3-7.3.5, HAP over CoAP/Thread PDU batches):
a spec accessory's reassembler, a response fragmenter, a batch parser/renderer and the per-fragment AEAD.
Shares no code with aiohomekit (the AEAD is cryptography's stock ChaCha20Poly1305)."""
from __future__ import annotations

import struct


# ---------------------------------------------------------------- BLE, accessory side
def acc_reassemble(frags):
    """What a conformant accessory reconstructs from the GATT writes of one request:
    (opcode, tid, iid, body) or None when the fragment train is not a well-formed HAP PDU."""
    if not frags:
        return None
    f = bytes(frags[0])
    if len(f) < 5:
        return None
    control, opcode, tid = f[0], f[1], f[2]
    if control & 0x8E:          # continuation bit or a non-request type in the first fragment
        return None
    iid = f[3] | (f[4] << 8)
    if len(f) == 5:
        want, body = 0, b""
    elif len(f) >= 7:
        want = f[5] | (f[6] << 8)
        body = f[7:]
    else:
        return None
    for c in frags[1:]:
        c = bytes(c)
        if len(body) >= want:    # surplus fragment
            return None
        if len(c) < 3:           # continuation must carry data
            return None
        if not (c[0] & 0x80) or c[1] != tid:
            return None
        body += c[2:]
    if len(body) != want:
        return None
    return opcode, tid, iid, body


def resp_fragments(control, tid, status, body, pieces, cont_controls=None, declared=None):
    """Accessory response for `body` cut into `pieces` (list of byte strings whose concatenation is body):
    first fragment control tid status len16 piece0, then control|0x80 tid piece_i."""
    assert b"".join(pieces) == bytes(body)
    n = len(body) if declared is None else declared
    out = [bytes([control, tid, status]) + struct.pack("<H", n) + pieces[0]]
    for i, p in enumerate(pieces[1:]):
        cc = 0x80 | control if cont_controls is None else cont_controls[i]
        out.append(bytes([cc, tid]) + p)
    return out


def compositions(total, first_may_be_empty=True):
    """All ways to cut range(total) into piece lengths: first piece >= 0, the others >= 1."""
    def pos(n):
        if n == 0:
            yield []
            return
        for k in range(1, n + 1):
            for r in pos(n - k):
                yield [k] + r
    for k0 in range(0 if first_may_be_empty else 1, total + 1):
        for r in pos(total - k0):
            yield [k0] + r


def cut(body, lens):
    out, i = [], 0
    for n in lens:
        out.append(bytes(body[i:i + n]))
        i += n
    assert i == len(body)
    return out


# ---------------------------------------------------------------- per-fragment AEAD (HAP-BLE session security)
class Aead:
    def __init__(self, key: bytes):
        from cryptography.hazmat.primitives.ciphers.aead import ChaCha20Poly1305
        self._c = ChaCha20Poly1305(key)

    @staticmethod
    def nonce(counter: int) -> bytes:
        return b"\x00\x00\x00\x00" + counter.to_bytes(8, "little")

    def seal(self, counter: int, plain: bytes) -> bytes:
        return self._c.encrypt(self.nonce(counter), bytes(plain), b"")

    def open(self, counter: int, data: bytes):
        from cryptography.exceptions import InvalidTag
        try:
            return self._c.decrypt(self.nonce(counter), bytes(data), b"")
        except InvalidTag:
            return None


# ---------------------------------------------------------------- CoAP batches
def coap_parse_request(buf):
    """Accessory-side parse of a request batch: list of (opcode, tid, iid, body) or None."""
    buf = bytes(buf)
    out, i = [], 0
    while i < len(buf):
        if i + 7 > len(buf):
            return None
        control, opcode, tid, iid, n = struct.unpack_from("<BBBHH", buf, i)
        if control != 0 or i + 7 + n > len(buf):
            return None
        out.append((opcode, tid, iid, buf[i + 7:i + 7 + n]))
        i += 7 + n
    return out


def coap_render_response(items):
    """items: list of (control, tid, status, body) -> response payload."""
    return b"".join(struct.pack("<BBBH", c, t, s, len(b)) + bytes(b) for c, t, s, b in items)


def coap_expected(idx, item):
    """The outcome the controller must attribute to request #idx given the accessory's item:
    ('body', bytes) | ('status', n) with 256 = tid mismatch, 257 = bad control."""
    c, t, s, b = item
    if t != idx:
        return ("status", 256)
    if s != 0:
        return ("status", s)
    if (c >> 1) & 7 != 1:
        return ("status", 257)
    return ("body", bytes(b))


# ---------------------------------------------------------------- BLE: a deterministic demo accessory
def demo_answer(op, tid, iid, body):
    """Specification of the demo accessory (independent implementation; the Coq model has its own, `demo_responder`):
    status (op + iid + tid) mod 7; response body = request body reversed; the first fragment carries iid mod 5 body
    bytes, every continuation 1 + tid mod 7 bytes.  Returns (control, status, body, pieces)."""
    out = bytes(reversed(bytes(body)))
    k = iid % 5
    step = 1 + tid % 7
    pieces = [out[:k]] + [out[i:i + step] for i in range(k, len(out), step)]
    return 2, (op + iid + tid) % 7, out, pieces
