"""Independent reference for HomeKit UUID normalisation (short form -> full upper-case UUID).
Written from the HAP convention, not from aiohomekit/uuid.py."""
BASE = "-0000-1000-8000-0026BB765291"
HEX = set("0123456789ABCDEF")


def ref_normalize(value: str):
    """Returns the normalised UUID string, or None when the value is not a UUID."""
    v = value.upper()
    if len(v) <= 8:
        return "0" * (8 - len(v)) + v + BASE
    if len(v) == 36:
        return v
    digits = v.rjust(32, "0").replace("-", "")      # left-padded to 32 characters, then hyphens are ignored
    if len(digits) != 32 or any(c not in HEX for c in digits):
        return None
    return "-".join([digits[0:8], digits[8:12], digits[12:16], digits[16:20], digits[20:32]])
