"""Independent SRP-6a accessory (server side) for HomeKit pair-setup.

Written from RFC 5054 (section 2.5/2.6, appendix A 3072-bit group), RFC 2945 (the
M1/M2 proofs) and the HAP rules (SHA-512; A, B and the premaster secret S are
left-padded to the 384-byte length of N wherever they are hashed; k = H(N | PAD(g));
the generator is NOT padded inside H(N) xor H(g); user name "Pair-Setup"; 16-byte salt
used exactly as sent).  Python ints + hashlib only; shares no code with aiohomekit.
"""
from __future__ import annotations

import hashlib

# RFC 5054 appendix A, 3072-bit group (copied from the RFC text, not from aiohomekit)
_N_HEX = """
FFFFFFFF FFFFFFFF C90FDAA2 2168C234 C4C6628B 80DC1CD1 29024E08
8A67CC74 020BBEA6 3B139B22 514A0879 8E3404DD EF9519B3 CD3A431B
302B0A6D F25F1437 4FE1356D 6D51C245 E485B576 625E7EC6 F44C42E9
A637ED6B 0BFF5CB6 F406B7ED EE386BFB 5A899FA5 AE9F2411 7C4B1FE6
49286651 ECE45B3D C2007CB8 A163BF05 98DA4836 1C55D39A 69163FA8
FD24CF5F 83655D23 DCA3AD96 1C62F356 208552BB 9ED52907 7096966D
670C354E 4ABC9804 F1746C08 CA18217C 32905E46 2E36CE3B E39E772C
180E8603 9B2783A2 EC07A28F B5C55DF0 6F4C52C9 DE2BCBF6 95581718
3995497C EA956AE5 15D22618 98FA0510 15728E5A 8AAAC42D AD33170D
04507A33 A85521AB DF1CBA64 ECFB8504 58DBEF0A 8AEA7157 5D060C7D
B3970F85 A6E1E4C7 ABF5AE8C DB0933D7 1E8C94E0 4A25619D CEE3D226
1AD2EE6B F12FFA06 D98A0864 D8760273 3EC86A64 521F2B18 177B200C
BBE11757 7A615D6C 770988C0 BAD946E2 08E24FA0 74E5AB31 43DB5BFC
E0FD108E 4B82D120 A93AD2CA FFFFFFFF FFFFFFFF
"""
N = int("".join(_N_HEX.split()), 16)
G = 5
NLEN = (N.bit_length() + 7) // 8          # 384
assert NLEN == 384 and N.bit_length() == 3072


def Hb(*parts: bytes) -> bytes:
    h = hashlib.sha512()
    for p in parts:
        h.update(bytes(p))
    return h.digest()


def i2osp(n: int, length: int) -> bytes:
    """RFC 8017 I2OSP: fixed-width big-endian."""
    if n < 0 or n >> (8 * length):
        raise ValueError("integer too large")
    out = bytearray(length)
    for i in range(length - 1, -1, -1):
        out[i] = n & 0xFF
        n >>= 8
    return bytes(out)


def os2ip(b: bytes) -> int:
    n = 0
    for x in bytes(b):
        n = (n << 8) | x
    return n


def PAD(n: int) -> bytes:
    return i2osp(n, NLEN)


def minimal(n: int) -> bytes:
    return PAD(n).lstrip(b"\x00")


K_MULT = os2ip(Hb(PAD(N), PAD(G)))                                   # SRP-6a multiplier
H_GROUP = bytes(x ^ y for x, y in zip(Hb(minimal(N)), Hb(minimal(G))))


def modexp(b: int, e: int, m: int) -> int:
    """Right-to-left binary exponentiation (own loop, not the builtin three-argument pow)."""
    assert e >= 0 and m > 0
    r = 1 % m
    b %= m
    while e:
        if e & 1:
            r = (r * b) % m
        b = (b * b) % m
        e >>= 1
    return r


class Accessory:
    """One pair-setup SRP session of an accessory with setup code `code`."""

    def __init__(self, code: bytes, salt: bytes, b: int, user: bytes = b"Pair-Setup"):
        self.user, self.code, self.salt, self.b = bytes(user), bytes(code), bytes(salt), b
        self.x = os2ip(Hb(self.salt, Hb(self.user + b":" + self.code)))
        self.v = modexp(G, self.x, N)
        self.B = (K_MULT * self.v + modexp(G, b, N)) % N
        self.B_b = PAD(self.B)

    def receive(self, A_b: bytes, M1_b: bytes):
        """Returns dict(ok, M2, K, S, M1_expected, u).  ok is False if A is out of range
        (A % N == 0, or wider than N) or the proof is wrong."""
        A = os2ip(A_b)
        if A >> (8 * NLEN):
            return dict(ok=False, M2=None, K=None, S=None, M1_expected=None, u=None)
        u = os2ip(Hb(PAD(A), self.B_b))
        S = modexp((A * modexp(self.v, u, N)) % N, self.b, N)
        K = Hb(PAD(S))
        M1 = Hb(H_GROUP, Hb(self.user), self.salt, PAD(A), self.B_b, K)
        ok = (A % N != 0) and bytes(M1_b) == M1
        M2 = Hb(PAD(A), bytes(M1_b), K)
        return dict(ok=ok, M2=M2, K=K, S=S, M1_expected=M1, u=u)


def client_values(code: bytes, salt: bytes, a: int, B_b: bytes, user: bytes = b"Pair-Setup"):
    """What a conformant *controller* computes (RFC 5054 client side), used only by the directed
    search for leading-zero cases and as a second opinion on the implementation's outputs."""
    A = modexp(G, a, N)
    B = os2ip(B_b)
    x = os2ip(Hb(salt, Hb(user + b":" + code)))
    u = os2ip(Hb(PAD(A), PAD(B)))
    base = (B - K_MULT * modexp(G, x, N)) % N
    S = modexp(base, a + u * x, N)
    K = Hb(PAD(S))
    M1 = Hb(H_GROUP, Hb(user), salt, PAD(A), PAD(B), K)
    return dict(A=A, A_b=PAD(A), u=u, S=S, K=K, M1=M1, M2=Hb(PAD(A), M1, K))


def skip_zero_variant_accepts(code: bytes, salt: bytes, b: int, A_b: bytes, M1_b: bytes, user: bytes = b"Pair-Setup") -> bool:
    """INFORMATIONAL ONLY - not the oracle.  Some SRP stacks (srptools' integer hashing; the
    'skip leading zeroes' option of other libraries) hash A, B and S *without* their leading zero
    bytes in M1 and K.  DESIGN.md section 5 fixes the padded convention for this property; this
    function only lets the evidence record how many generated exchanges would be judged
    differently under the other convention (they can differ only when A, B or S starts with 0x00)."""
    acc = Accessory(code, salt, b, user)
    A = os2ip(A_b)
    if A >> (8 * NLEN) or A % N == 0:
        return False
    u = os2ip(Hb(PAD(A), acc.B_b))
    S = modexp((A * modexp(acc.v, u, N)) % N, b, N)
    K = Hb(minimal(S))
    M1 = Hb(H_GROUP, Hb(user), bytes(salt), minimal(A), minimal(acc.B), K)
    return bytes(M1_b) == M1
