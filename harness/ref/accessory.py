"""Independent reference HAP accessory (pair-verify, pair-resume, pair-setup) for C01/C03.

Shares no code with aiohomekit: its own TLV8 codec (ref/tlv8.py), HKDF-SHA-512 from
hmac/hashlib, SRP-6a server on Python ints (RFC 5054 3072-bit group + HAP rules),
ChaCha20-Poly1305 / X25519 / Ed25519 taken directly from the `cryptography` package.

Every value the accessory computes is a *dual* value V(bytes, term): the concrete bytes
and, in lock-step, the symbolic term of Model/Sym.v in the driver's term syntax.  The
universe keeps a registry bytes -> term of every cryptographic atom it produced, so that
any (mutated) byte string can be abstracted back to a symbolic message: known atoms map
to their terms, everything else is literal bytes.  That mapping is the trusted
symbolic <-> concrete bridge of DESIGN.md 3.2 / Appendix B.
"""
from __future__ import annotations

import hashlib
import hmac

from cryptography.exceptions import InvalidSignature, InvalidTag
from cryptography.hazmat.primitives import serialization
from cryptography.hazmat.primitives.asymmetric.ed25519 import Ed25519PrivateKey, Ed25519PublicKey
from cryptography.hazmat.primitives.asymmetric.x25519 import X25519PrivateKey, X25519PublicKey
from cryptography.hazmat.primitives.ciphers.aead import ChaCha20Poly1305

from .tlv8 import ref_decode, ref_encode

# TLV types (HAP R2 table 5-6)
T_METHOD, T_ID, T_SALT, T_PK, T_PROOF, T_ENC, T_STATE, T_ERROR, T_SIG, T_SID = 0, 1, 2, 3, 4, 5, 6, 7, 10, 14

RAW = dict(encoding=serialization.Encoding.Raw, format=serialization.PublicFormat.Raw)


# ------------------------------------------------------------------ primitives
def hkdf_sha512(ikm: bytes, salt: bytes, info: bytes, length: int = 32) -> bytes:
    """RFC 5869 with SHA-512."""
    prk = hmac.new(salt if salt else bytes(64), ikm, hashlib.sha512).digest()
    out, t, i = b"", b"", 1
    while len(out) < length:
        t = hmac.new(prk, t + info + bytes([i]), hashlib.sha512).digest()
        out += t
        i += 1
    return out[:length]


def nonce12(label: bytes) -> bytes:
    return b"\x00\x00\x00\x00" + label


def aead_seal(key: bytes, nonce: bytes, aad: bytes, pt: bytes) -> bytes:
    return ChaCha20Poly1305(key).encrypt(nonce, pt, aad)


def aead_open(key: bytes, nonce: bytes, aad: bytes, ct: bytes):
    if len(key) != 32 or len(ct) < 16:
        return None
    try:
        return ChaCha20Poly1305(key).decrypt(nonce, ct, aad)
    except InvalidTag:
        return None


def x25519_pub(sk: bytes) -> bytes:
    return X25519PrivateKey.from_private_bytes(sk).public_key().public_bytes(**RAW)


def x25519_dh(sk: bytes, pk: bytes):
    """None when the public key is unusable (wrong length, low order point)."""
    if len(pk) != 32:
        return None
    try:
        return X25519PrivateKey.from_private_bytes(sk).exchange(X25519PublicKey.from_public_bytes(pk))
    except ValueError:
        return None


def ed_pub(seed: bytes) -> bytes:
    return Ed25519PrivateKey.from_private_bytes(seed).public_key().public_bytes(**RAW)


def ed_sign(seed: bytes, m: bytes) -> bytes:
    return Ed25519PrivateKey.from_private_bytes(seed).sign(m)


def ed_verify(pk: bytes, sig: bytes, m: bytes) -> bool:
    if len(pk) != 32:
        return False
    try:
        Ed25519PublicKey.from_public_bytes(pk).verify(sig, m)
        return True
    except (InvalidSignature, ValueError):
        return False


# ------------------------------------------------------------------ dual values
class V:
    """bytes + symbolic message (tuple of element strings of the driver's term syntax)."""
    __slots__ = ("b", "t")

    def __init__(self, b, t):
        self.b = bytes(b)
        self.t = tuple(t)

    def __add__(self, o):
        return V(self.b + o.b, self.t + o.t)

    def __repr__(self):
        return f"V({self.b.hex()[:16]}.., {msg(self)[:60]})"


def lit(b) -> V:
    b = bytes(b)
    return V(b, ("x" + b.hex(),) if b else ())


def msg(v: V) -> str:
    return "[" + ";".join(v.t) + "]"


def reply_term(items) -> str:
    """symbolic reply: list of (type, V)"""
    return "|".join(f"{t}={msg(v)}" for t, v in items) if items else "."


class Universe:
    """Names -> deterministic secrets, dual-valued crypto operations, atom registry."""

    def __init__(self, tag: str = "u"):
        self.tag = tag.encode()
        self.reg = {}
        self.lens = []

    # -- registry / abstraction
    def _reg(self, v: V) -> V:
        if len(v.b) >= 8 and v.b not in self.reg:
            self.reg[v.b] = v.t
            if len(v.b) not in self.lens:
                self.lens.append(len(v.b))
                self.lens.sort(reverse=True)
        return v

    def abstract(self, b: bytes) -> V:
        """Greedy segmentation of a byte string into known atoms and literal bytes."""
        b = bytes(b)
        if b in self.reg:
            return V(b, self.reg[b])
        out, i, run = V(b"", ()), 0, bytearray()
        n = len(b)
        while i < n:
            hit = None
            for L in self.lens:
                if i + L <= n and b[i:i + L] in self.reg:
                    hit = L
                    break
            if hit is None:
                run.append(b[i])
                i += 1
            else:
                if run:
                    out = out + lit(run)
                    run = bytearray()
                out = out + V(b[i:i + hit], self.reg[b[i:i + hit]])
                i += hit
        if run:
            out = out + lit(run)
        return out

    def abstract_int(self, v: "V") -> "V":
        """for a field the protocol reads as a big-endian INTEGER: a byte string that equals a known atom up to
        leading zero bytes denotes that atom (the atom's own leading zero bytes are invisible symbolically)"""
        if v.b in self.reg:
            return v
        core = v.b.lstrip(b"\x00")
        if len(core) >= 8:
            for kb, kt in self.reg.items():
                if len(kb) >= len(core) and kb.lstrip(b"\x00") == core:
                    return V(v.b, kt)
        return v

    def abstract_items(self, raw: bytes, expected=None):
        """decode a (possibly mutated) TLV blob with the reference codec; None = not TLV8."""
        d = ref_decode(raw, expected)
        if d is None:
            return None
        return [(t, self.abstract(v)) for t, v in d]

    # -- secrets
    def _secret(self, kind: bytes, n: int) -> bytes:
        return hashlib.sha512(b"verif|" + self.tag + b"|" + kind + b"|" + str(n).encode()).digest()[:32]

    def xsk(self, n: int) -> bytes:
        return self._secret(b"x25519", n)

    def edsk(self, n: int) -> bytes:
        return self._secret(b"ed25519", n)

    # -- dual crypto
    def xpub(self, n: int) -> V:
        return self._reg(V(x25519_pub(self.xsk(n)), (f"pub({n})",)))

    def edpub(self, n: int) -> V:
        return self._reg(V(ed_pub(self.edsk(n)), (f"pub({n})",)))

    def sign(self, n: int, m: V) -> V:
        return self._reg(V(ed_sign(self.edsk(n), m.b), (f"sig({n},{msg(m)})",)))

    def dh(self, n: int, pk: V):
        s = x25519_dh(self.xsk(n), pk.b)
        if s is None:
            return None
        return self._reg(V(s, (f"dh({n},{msg(pk)})",)))

    def hkdf(self, ikm: V, salt: V, info: V, length: int = 32) -> V:
        return self._reg(V(hkdf_sha512(ikm.b, salt.b, info.b, length),
                           (f"hkdf({msg(ikm)},{msg(salt)},{msg(info)},{length})",)))

    def seal(self, key: V, nonce: V, aad: V, pt: V) -> V:
        return self._reg(V(aead_seal(key.b, nonce.b, aad.b, pt.b),
                           (f"aead({msg(key)},{msg(nonce)},{msg(aad)},{msg(pt)})",)))

    def hash(self, m: V) -> V:
        return self._reg(V(hashlib.sha512(m.b).digest(), (f"hash({msg(m)})",)))

    def tlv(self, items) -> V:
        """plaintext of an encrypted sub-TLV: concrete TLV8 bytes, symbolic ATlv atoms"""
        return V(ref_encode([(t, v.b) for t, v in items]), tuple(f"tlv({t},{msg(v)})" for t, v in items))

    def plaintext(self, raw: bytes) -> V:
        """abstraction of arbitrary plaintext bytes: TLV items when they parse, else one literal"""
        d = ref_decode(raw)
        if d is None:
            return lit(raw)
        return V(raw, tuple(f"tlv({t},{msg(self.abstract(v))})" for t, v in d))


# ------------------------------------------------------------------ labels
L_PVE_SALT, L_PVE_INFO = b"Pair-Verify-Encrypt-Salt", b"Pair-Verify-Encrypt-Info"
L_RES_REQ, L_RES_RESP, L_RES_SECRET = (b"Pair-Resume-Request-Info", b"Pair-Resume-Response-Info",
                                       b"Pair-Resume-Shared-Secret-Info")
L_SID_SALT, L_SID_INFO = b"Pair-Verify-ResumeSessionID-Salt", b"Pair-Verify-ResumeSessionID-Info"


def session_keys(secret: bytes, transport: str) -> dict:
    """HAP R2 6.5.2 (IP), 7.4.7.2 (BLE); HAP over Thread/CoAP adds the event key."""
    k = dict(c2a=hkdf_sha512(secret, b"Control-Salt", b"Control-Write-Encryption-Key"),
             a2c=hkdf_sha512(secret, b"Control-Salt", b"Control-Read-Encryption-Key"))
    if transport == "coap":
        k["evt"] = hkdf_sha512(secret, b"Event-Salt", b"Event-Read-Encryption-Key")
    return k


# ------------------------------------------------------------------ pair-verify accessory
class M2Draft:
    """The honest M2 before sealing, open to scenario mutations at every level."""

    def __init__(self, state, pk, sub_items, key, nonce, aad):
        self.state, self.pk, self.sub_items, self.key, self.nonce, self.aad = state, pk, sub_items, key, nonce, aad
        self.sub_raw = None      # when set: plaintext bytes replacing the encoded sub_items

    def build(self, U: Universe):
        pt = U.plaintext(self.sub_raw) if self.sub_raw is not None else U.tlv(self.sub_items)
        return [(T_STATE, self.state), (T_PK, self.pk), (T_ENC, U.seal(self.key, self.nonce, self.aad, pt))]


class VerifyAccessory:
    """HAP R2 5.7 pair-verify + 7.3.7 pair-resume, accessory side."""

    def __init__(self, U: Universe, acc_id: bytes, ltsk: int, eph: int, ctrl_id: bytes, ctrl_ltpk: V,
                 session=None, new_sid: V | None = None):
        self.U, self.acc_id, self.ltsk, self.eph = U, bytes(acc_id), ltsk, eph
        self.ctrl_id, self.ctrl_ltpk = bytes(ctrl_id), ctrl_ltpk
        self.session = session           # (sid V, secret V) or None
        self.new_sid = new_sid if new_sid is not None else lit(b"\x09" * 8)
        self.state = "init"              # verify | resumed | rejected
        self.C = None
        self.shared = None               # V
        self.secret = None               # bytes of the session secret once established
        self.secret_v = None             # ... and as a dual value

    def on_m1(self, m1: bytes):
        """returns ('verify', M2Draft) | ('resumed', items) | ('rejected', items)"""
        U = self.U
        d = dict(ref_decode(m1) or [])
        if T_PK not in d or d.get(T_STATE) != b"\x01":
            self.state = "rejected"
            return "rejected", [(T_STATE, lit(b"\x02")), (T_ERROR, lit(b"\x02"))]
        C = U.abstract(d[T_PK])
        self.C = C
        if (self.session is not None and d.get(T_METHOD) == b"\x06" and d.get(T_SID) == self.session[0].b
                and T_ENC in d):
            sid, secret = self.session
            rk = hkdf_sha512(secret.b, C.b + sid.b, L_RES_REQ)
            if aead_open(rk, nonce12(b"PR-Msg01"), b"", d[T_ENC]) == b"":
                nsid = self.new_sid
                tag = U.seal(U.hkdf(secret, C + nsid, lit(L_RES_RESP)), lit(nonce12(b"PR-Msg02")), lit(b""), lit(b""))
                new_secret = U.hkdf(secret, C + nsid, lit(L_RES_SECRET))
                self.state, self.secret, self.sid = "resumed", new_secret.b, nsid.b
                self.secret_v = new_secret
                return "resumed", [(T_STATE, lit(b"\x02")), (T_METHOD, lit(b"\x06")), (T_SID, nsid), (T_ENC, tag)]
        shared = U.dh(self.eph, C)
        if shared is None:
            self.state = "rejected"
            return "rejected", [(T_STATE, lit(b"\x02")), (T_ERROR, lit(b"\x02"))]
        self.shared = shared
        pk = U.xpub(self.eph)
        info = pk + lit(self.acc_id) + C
        sig = U.sign(self.ltsk, info)
        key = U.hkdf(shared, lit(L_PVE_SALT), lit(L_PVE_INFO))
        self.state = "verify"
        return "verify", M2Draft(lit(b"\x02"), pk, [(T_ID, lit(self.acc_id)), (T_SIG, sig)], key,
                                 lit(nonce12(b"PV-Msg02")), lit(b""))

    def on_m3(self, m3: bytes):
        """returns (accepted, reply items)"""
        reject = [(T_STATE, lit(b"\x04")), (T_ERROR, lit(b"\x02"))]
        if self.state != "verify":
            return False, reject
        d = dict(ref_decode(m3) or [])
        if d.get(T_STATE) != b"\x03" or T_ENC not in d:
            return False, reject
        key = hkdf_sha512(self.shared.b, L_PVE_SALT, L_PVE_INFO)
        pt = aead_open(key, nonce12(b"PV-Msg03"), b"", d[T_ENC])
        if pt is None:
            return False, reject
        sub = dict(ref_decode(pt) or [])
        if T_ID not in sub or T_SIG not in sub or sub[T_ID] != self.ctrl_id:
            return False, reject
        info = self.C.b + self.ctrl_id + self.U.xpub(self.eph).b
        if not ed_verify(self.ctrl_ltpk.b, sub[T_SIG], info):
            return False, reject
        self.secret = self.shared.b
        self.secret_v = self.shared
        self.sid = hkdf_sha512(self.secret, L_SID_SALT, L_SID_INFO, 8)
        return True, [(T_STATE, lit(b"\x04"))]


# ------------------------------------------------------------------ property oracle (bytes only)
def _view(raw: bytes, transport: str, expected):
    """what the controller is entitled to look at: decoded items (adjacent fragments joined),
    cut at the first item outside `expected` on IP/CoAP, as a dict where later items win"""
    d = ref_decode(raw, expected if transport != "ble" else None)
    return None if d is None else dict(d)


def oracle_verify(m2: bytes, m4, transport: str, acc_id: bytes, ltpk: bytes, dh, eph_pk: bytes, resume=None):
    """Independent evaluation of the C01 acceptance condition on the bytes actually delivered.
    dh(P) = X25519(controller ephemeral secret, P) or None when it cannot be known / P is unusable;
    eph_pk = the controller's ephemeral public key as sent in M1.
    Returns (kind, secret, None) with kind in {'full', 'resume'} when a Done outcome is justified,
    else (None, None, reason).  resume = secret bytes of the previous session, or None."""
    v2 = _view(m2, transport, [T_STATE, T_ERROR, T_PK, T_ENC])
    if v2 is None:
        return None, None, "m2:not-tlv8"
    if T_ERROR in v2:
        return None, None, "m2:error-item" + ("" if T_STATE in v2 else ":state-absent")
    if T_STATE in v2 and v2[T_STATE] != b"\x02":
        return None, None, "m2:state"
    if eph_pk is None:
        return None, None, "m1:no-public-key"
    if resume is not None:
        meth, sid, tag = v2.get(T_METHOD), v2.get(T_SID), v2.get(T_ENC)
        if meth and int.from_bytes(meth, "little") == 6 and sid and tag:
            rk = hkdf_sha512(resume, eph_pk + sid, L_RES_RESP)
            if aead_open(rk, nonce12(b"PR-Msg02"), b"", tag) == b"":
                return "resume", hkdf_sha512(resume, eph_pk + sid, L_RES_SECRET), None
            if T_PK not in v2:
                return None, None, "m2:resume-tag"
    if T_PK not in v2 or T_ENC not in v2:
        return None, None, "m2:field-missing"
    shared = dh(v2[T_PK])
    if shared is None:
        return None, None, "m2:public-key-unusable"
    pt = aead_open(hkdf_sha512(shared, L_PVE_SALT, L_PVE_INFO), nonce12(b"PV-Msg02"), b"", v2[T_ENC])
    if pt is None:
        return None, None, "m2:auth-tag"
    sub = ref_decode(pt)
    if sub is None:
        return None, None, "m2:sub-tlv"
    sub = dict(sub)
    if sub.get(T_ID) != acc_id:
        return None, None, "m2:identifier"
    if T_SIG not in sub or not ed_verify(ltpk, sub[T_SIG], v2[T_PK] + acc_id + eph_pk):
        return None, None, "m2:signature"
    if m4 is None:
        return None, None, "m4:absent"
    v4 = _view(m4, transport, [T_STATE, T_ERROR])
    if v4 is None:
        return None, None, "m4:not-tlv8"
    if T_ERROR in v4:
        return None, None, "m4:error-item" + ("" if T_STATE in v4 else ":state-absent")
    if T_STATE in v4 and v4[T_STATE] != b"\x04":
        return None, None, "m4:state"
    return "full", shared, None


# ====================================================================== pair-setup (C03)
# ------------------------------------------------------------------ SRP-6a, RFC 5054 + HAP R2 5.5
def _arctan_inv(x: int, one: int) -> int:
    """arctan(1/x) * one, integer arithmetic"""
    total = term = one // x
    x2, n, sign = x * x, 3, -1
    while term:
        term //= x2
        total += sign * (term // n)
        sign, n = -sign, n + 2
    return total


def _pi_floor(bits: int) -> int:
    """floor(pi * 2**bits) (Machin), with guard bits"""
    guard = 64
    one = 1 << (bits + guard)
    pi = 4 * (4 * _arctan_inv(5, one) - _arctan_inv(239, one))
    return pi >> guard


# RFC 5054 appendix A 3072-bit group = RFC 3526 group 15:
#   p = 2^3072 - 2^3008 - 1 + 2^64 * ( [2^2942 pi] + 1690314 ),  g = 5
SRP_N = 2 ** 3072 - 2 ** 3008 - 1 + 2 ** 64 * (_pi_floor(2942) + 1690314)
SRP_G = 5
SRP_LEN = 384


def _H(*parts: bytes) -> bytes:
    return hashlib.sha512(b"".join(parts)).digest()


_pow_memo = {}


def _powm(b: int, e: int, m: int) -> int:
    """memoised modular exponentiation (many scenarios share one SRP exchange)"""
    k = (b, e, m)
    r = _pow_memo.get(k)
    if r is None:
        r = _pow_memo[k] = pow(b, e, m)
    return r


def _pad(n: int) -> bytes:
    return n.to_bytes(SRP_LEN, "big")


def _minimal(n: int) -> bytes:
    return n.to_bytes((n.bit_length() + 7) // 8, "big")


_srp_checked = False


def srp_selfcheck():
    """the derived modulus is a safe prime congruent 7 mod 8 ... (Miller-Rabin, two bases), once"""
    global _srp_checked
    if _srp_checked:
        return
    for p in (SRP_N, (SRP_N - 1) // 2):
        d, r = p - 1, 0
        while d % 2 == 0:
            d //= 2
            r += 1
        for a in (2, 3):
            x = pow(a, d, p)
            if x in (1, p - 1):
                continue
            for _ in range(r - 1):
                x = x * x % p
                if x == p - 1:
                    break
            else:
                raise AssertionError("derived SRP modulus is not a safe prime")
    _srp_checked = True


SRP_K = int.from_bytes(_H(_minimal(SRP_N), _pad(SRP_G)), "big")
USER = b"Pair-Setup"


def srp_x(salt: bytes, code: bytes) -> int:
    return int.from_bytes(_H(salt, _H(USER + b":" + code)), "big")


def srp_hgroup() -> bytes:
    hn, hg = _H(_minimal(SRP_N)), _H(_minimal(SRP_G))
    return bytes(a ^ b for a, b in zip(hn, hg))


def srp_client_proof(salt: bytes, A: bytes, B: bytes, K: bytes) -> bytes:
    return _H(srp_hgroup(), _H(USER), salt, A, B, K)


def srp_server_proof(A: bytes, M1: bytes, K: bytes) -> bytes:
    return _H(A, M1, K)


def srp_client_K(code: bytes, salt16: bytes, a: int, A: bytes, B: bytes) -> bytes:
    """client side session key for the oracle: S = (B - k g^x)^(a + u x), K = H(PAD(S))"""
    x = srp_x(salt16, code)
    u = int.from_bytes(_H(A, B), "big")
    Bi = int.from_bytes(B, "big")
    S = _powm((Bi - SRP_K * _powm(SRP_G, x, SRP_N)) % SRP_N, a + u * x, SRP_N)
    return _H(_pad(S))


def norm_salt(salt: bytes):
    """what an integer-valued salt means as 16 bytes; None if it does not fit"""
    s = salt.lstrip(b"\x00")
    return None if len(s) > 16 else bytes(16 - len(s)) + s


L_PSE_SALT, L_PSE_INFO = b"Pair-Setup-Encrypt-Salt", b"Pair-Setup-Encrypt-Info"
L_PSC_SALT, L_PSC_INFO = b"Pair-Setup-Controller-Sign-Salt", b"Pair-Setup-Controller-Sign-Info"
L_PSA_SALT, L_PSA_INFO = b"Pair-Setup-Accessory-Sign-Salt", b"Pair-Setup-Accessory-Sign-Info"
SRP_LABEL = b"Hgroup|H(Pair-Setup)"          # stands for the constant prefix of M1 in the symbolic model


class M6Draft:
    def __init__(self, state, sub_items, key, nonce, aad):
        self.state, self.sub_items, self.key, self.nonce, self.aad = state, sub_items, key, nonce, aad
        self.sub_raw = None

    def build(self, U: Universe):
        pt = U.plaintext(self.sub_raw) if self.sub_raw is not None else U.tlv(self.sub_items)
        return [(T_STATE, self.state), (T_ENC, U.seal(self.key, self.nonce, self.aad, pt))]


class SetupAccessory:
    """HAP R2 5.6 pair-setup, accessory side, dual-valued."""

    def __init__(self, U: Universe, code: bytes, salt: bytes, b: int, acc_id: bytes, ltsk: int,
                 client_name: int = 41, ctrl_ltsk_name: int = 12, lenient: bool = False, b_value=None):
        srp_selfcheck()
        self.U, self.code, self.salt, self.bname = U, bytes(code), bytes(salt), b
        self.acc_id, self.ltsk = bytes(acc_id), ltsk
        self.client_name, self.ctrl_ltsk_name = client_name, ctrl_ltsk_name
        self.lenient = lenient            # a malicious accessory: answers M3 with its own proof even if M1 is wrong
        self.b = b_value if b_value is not None else \
            int.from_bytes(hashlib.sha512(b"verif|srp-b|" + str(b).encode()).digest()[:32], "big")
        self.v = _powm(SRP_G, srp_x(self.salt, self.code), SRP_N)
        self.B = (SRP_K * self.v + _powm(SRP_G, self.b, SRP_N)) % SRP_N
        self.code_v, self.salt_v = lit(self.code), lit(self.salt)
        self.B_v = U._reg(V(_pad(self.B), (f"srpB({b},{msg(self.code_v)},{msg(self.salt_v)})",)))
        self.K = None
        self.stored = None
        self.m3_ok = self.m5_ok = None

    def on_m1(self, m1: bytes):
        return [(T_STATE, lit(b"\x02")), (T_PK, self.B_v), (T_SALT, self.salt_v)]

    def on_m3(self, m3: bytes):
        """returns (accepted, reply items)"""
        U = self.U
        d = dict(ref_decode(m3) or [])
        reject = [(T_STATE, lit(b"\x04")), (T_ERROR, lit(b"\x02"))]
        A = d.get(T_PK)
        M1 = d.get(T_PROOF)
        if d.get(T_STATE) != b"\x03" or A is None or M1 is None or int.from_bytes(A, "big") % SRP_N == 0:
            self.m3_ok = False
            return False, reject
        A_v = U._reg(V(A, (f"srpA({self.client_name})",)))
        u = int.from_bytes(_H(_pad(int.from_bytes(A, "big")), _pad(self.B)), "big")
        S = _powm(int.from_bytes(A, "big") * _powm(self.v, u, SRP_N), self.b, SRP_N)
        Kb = _H(_pad(S))
        K_v = U._reg(V(Kb, (f"srpks({msg(self.code_v)},{msg(self.salt_v)},{self.bname},{msg(A_v)})",)))
        self.K, self.A_v = K_v, A_v
        want = srp_client_proof(self.salt, A, _pad(self.B), Kb)
        ok = bytes(M1) == want
        self.m3_ok = ok
        if ok:
            M1_v = U._reg(V(want, ("hash(" + msg(lit(SRP_LABEL) + self.salt_v + A_v + self.B_v + K_v) + ")",)))
        else:
            M1_v = U.abstract(M1)
        if not ok and not self.lenient:
            return False, reject
        proof = U.hash(A_v + M1_v + K_v)
        return ok, [(T_STATE, lit(b"\x04")), (T_PROOF, proof)]

    def on_m5(self, m5: bytes):
        """returns (accepted, M6Draft | reject items)"""
        U = self.U
        reject = [(T_STATE, lit(b"\x06")), (T_ERROR, lit(b"\x02"))]
        d = dict(ref_decode(m5) or [])
        self.m5_ok = False
        if self.K is None or d.get(T_STATE) != b"\x05" or T_ENC not in d:
            return False, reject
        key = hkdf_sha512(self.K.b, L_PSE_SALT, L_PSE_INFO)
        pt = aead_open(key, nonce12(b"PS-Msg05"), b"", d[T_ENC])
        if pt is None:
            return False, reject
        sub = dict(ref_decode(pt) or [])
        if T_ID not in sub or T_PK not in sub or T_SIG not in sub:
            return False, reject
        cx = hkdf_sha512(self.K.b, L_PSC_SALT, L_PSC_INFO)
        if not ed_verify(sub[T_PK], sub[T_SIG], cx + sub[T_ID] + sub[T_PK]):
            return False, reject
        self.m5_ok = True
        self.stored = (bytes(sub[T_ID]), bytes(sub[T_PK]))
        U._reg(V(sub[T_PK], (f"pub({self.ctrl_ltsk_name})",)))
        return True, self.draft_m6()

    def draft_m6(self):
        U = self.U
        ax = U.hkdf(self.K, lit(L_PSA_SALT), lit(L_PSA_INFO))
        pk = U.edpub(self.ltsk)
        sig = U.sign(self.ltsk, ax + lit(self.acc_id) + pk)
        return M6Draft(lit(b"\x06"), [(T_ID, lit(self.acc_id)), (T_PK, pk), (T_SIG, sig)],
                       U.hkdf(self.K, lit(L_PSE_SALT), lit(L_PSE_INFO)), lit(nonce12(b"PS-Msg06")), lit(b""))


def _utf8(b: bytes):
    try:
        return b.decode("utf-8")
    except UnicodeDecodeError:
        return None


def oracle_setup(m2, m4, m6, transport, code: bytes, a, A):
    """Independent evaluation of the C03 acceptance condition on the delivered bytes.
    a = the client's SRP secret (int) and A = its public key bytes.
    Returns (record-core, None) = ((acc_id str, ltpk bytes), None) when returning pairing data is justified,
    else (None, reason)."""
    v2 = _view(m2, transport, [T_STATE, T_ERROR, T_PK, T_SALT])
    if v2 is None:
        return None, "m2:not-tlv8"
    if T_ERROR in v2:
        return None, "m2:error-item" + ("" if T_STATE in v2 else ":state-absent")
    if T_STATE in v2 and v2[T_STATE] != b"\x02":
        return None, "m2:state"
    if T_PK not in v2 or T_SALT not in v2:
        return None, "m2:field-missing"
    salt = norm_salt(v2[T_SALT])
    if salt is None:
        return None, "m2:salt-too-long"
    if m4 is None:
        return None, "m4:absent"
    v4 = _view(m4, transport, [T_STATE, T_ERROR, T_PROOF, T_ENC])
    if v4 is None:
        return None, "m4:not-tlv8"
    if T_ERROR in v4:
        return None, "m4:error-item" + ("" if T_STATE in v4 else ":state-absent")
    if T_STATE in v4 and v4[T_STATE] != b"\x04":
        return None, "m4:state"
    if T_PROOF not in v4:
        return None, "m4:field-missing"
    K = srp_client_K(code, salt, a, A, v2[T_PK])
    M1 = srp_client_proof(salt, A, v2[T_PK], K)
    if int.from_bytes(v4[T_PROOF], "big") != int.from_bytes(srp_server_proof(A, M1, K), "big"):
        return None, "m4:proof"
    if m6 is None:
        return None, "m6:absent"
    v6 = _view(m6, transport, [T_STATE, T_ERROR, T_ENC])
    if v6 is None:
        return None, "m6:not-tlv8"
    if T_ERROR in v6:
        return None, "m6:error-item" + ("" if T_STATE in v6 else ":state-absent")
    if T_STATE in v6 and v6[T_STATE] != b"\x06":
        return None, "m6:state"
    if T_ENC not in v6:
        return None, "m6:field-missing"
    pt = aead_open(hkdf_sha512(K, L_PSE_SALT, L_PSE_INFO), nonce12(b"PS-Msg06"), b"", v6[T_ENC])
    if pt is None:
        return None, "m6:auth-tag"
    sub = ref_decode(pt)
    if sub is None:
        return None, "m6:sub-tlv"
    sub = dict(sub)
    if T_ID not in sub or T_PK not in sub or T_SIG not in sub:
        return None, "m6:sub-field-missing"
    ax = hkdf_sha512(K, L_PSA_SALT, L_PSA_INFO)
    if not ed_verify(sub[T_PK], sub[T_SIG], ax + sub[T_ID] + sub[T_PK]):
        return None, "m6:signature"
    ident = _utf8(sub[T_ID])
    if ident is None:
        return None, "m6:identifier-not-text"
    return (ident, bytes(sub[T_PK])), None


def srp_exchange_values(code: bytes, salt: bytes, a: int, b: int) -> dict:
    """all SRP values of an honest exchange with client secret a and server secret b (server-side formulas)"""
    v = _powm(SRP_G, srp_x(salt, code), SRP_N)
    A = _powm(SRP_G, a, SRP_N)
    B = (SRP_K * v + _powm(SRP_G, b, SRP_N)) % SRP_N
    u = int.from_bytes(_H(_pad(A), _pad(B)), "big")
    S = pow(A * pow(v, u, SRP_N), b, SRP_N)
    K = _H(_pad(S))
    M1 = srp_client_proof(salt, _pad(A), _pad(B), K)
    M2 = srp_server_proof(_pad(A), M1, K)
    return dict(A=_pad(A), B=_pad(B), S=_pad(S), K=K, M1=M1, M2=M2)
