"""Independent accessory side of pair-setup M5/M6 (HAP 5.6.5/5.6.6), used by harness/c02.py to check that the
controller's SRP session key K is usable byte-for-byte: every Pair-Setup key is HKDF-SHA-512 over the 64-byte K.

HKDF from RFC 5869 on `hmac`; ChaCha20-Poly1305 and Ed25519 from `cryptography` called directly; TLV8 items are
parsed/encoded here (all values < 256 bytes).  Shares no code with aiohomekit.
"""
from __future__ import annotations

import hashlib
import hmac

from cryptography.exceptions import InvalidSignature, InvalidTag
from cryptography.hazmat.primitives import serialization
from cryptography.hazmat.primitives.asymmetric import ed25519
from cryptography.hazmat.primitives.ciphers.aead import ChaCha20Poly1305

T_IDENTIFIER, T_PUBLIC_KEY, T_SIGNATURE = 0x01, 0x03, 0x0A


def hkdf_sha512(ikm: bytes, salt: bytes, info: bytes, length: int = 32) -> bytes:
    prk = hmac.new(salt, ikm, hashlib.sha512).digest()
    okm, t, i = b"", b"", 1
    while len(okm) < length:
        t = hmac.new(prk, t + info + bytes([i]), hashlib.sha512).digest()
        okm += t
        i += 1
    return okm[:length]


def nonce(label: bytes) -> bytes:
    return bytes(4) + label          # 96-bit nonce: 32 zero bits then the 8-byte label


def tlv_items(b: bytes):
    """Flat TLV8 parse with merging of consecutive fragments of one type; None if truncated."""
    out, i = [], 0
    while i < len(b):
        if i + 2 > len(b) or i + 2 + b[i + 1] > len(b):
            return None
        t, ln = b[i], b[i + 1]
        v = b[i + 2:i + 2 + ln]
        if out and out[-1][0] == t and out[-1][2]:
            out[-1] = (t, out[-1][1] + v, ln == 255)
        else:
            out.append((t, v, ln == 255))
        i += 2 + ln
    return {t: v for t, v, _ in out}


def tlv_encode(items) -> bytes:
    out = b""
    for t, v in items:
        assert len(v) < 255
        out += bytes([t, len(v)]) + v
    return out


def open_m5(K: bytes, encrypted: bytes):
    """What a conformant accessory does with M5, given ITS 64-byte session key.  -> (ok, reason, device_id, device_ltpk)"""
    key = hkdf_sha512(K, b"Pair-Setup-Encrypt-Salt", b"Pair-Setup-Encrypt-Info")
    try:
        plain = ChaCha20Poly1305(key).decrypt(nonce(b"PS-Msg05"), bytes(encrypted), None)
    except InvalidTag:
        return False, "M5 auth tag does not verify under HKDF(K, Pair-Setup-Encrypt-*)", None, None
    d = tlv_items(plain)
    if d is None or not all(t in d for t in (T_IDENTIFIER, T_PUBLIC_KEY, T_SIGNATURE)):
        return False, "M5 sub-TLV lacks identifier/public key/signature", None, None
    x = hkdf_sha512(K, b"Pair-Setup-Controller-Sign-Salt", b"Pair-Setup-Controller-Sign-Info")
    try:
        ed25519.Ed25519PublicKey.from_public_bytes(d[T_PUBLIC_KEY]).verify(d[T_SIGNATURE], x + d[T_IDENTIFIER] + d[T_PUBLIC_KEY])
    except (InvalidSignature, ValueError):
        return False, "iOSDeviceX = HKDF(K, Pair-Setup-Controller-Sign-*) does not match the signed iOSDeviceInfo", None, None
    return True, "", d[T_IDENTIFIER], d[T_PUBLIC_KEY]


def build_m6(K: bytes, accessory_id: bytes = b"AA:BB:CC:DD:EE:FF", seed: bytes = bytes(range(32))):
    """The accessory's M6 encrypted data under its 64-byte K.  -> (encrypted, accessory_ltpk)"""
    sk = ed25519.Ed25519PrivateKey.from_private_bytes(seed)
    ltpk = sk.public_key().public_bytes(encoding=serialization.Encoding.Raw, format=serialization.PublicFormat.Raw)
    x = hkdf_sha512(K, b"Pair-Setup-Accessory-Sign-Salt", b"Pair-Setup-Accessory-Sign-Info")
    sig = sk.sign(x + accessory_id + ltpk)
    sub = tlv_encode([(T_IDENTIFIER, accessory_id), (T_PUBLIC_KEY, ltpk), (T_SIGNATURE, sig)])
    key = hkdf_sha512(K, b"Pair-Setup-Encrypt-Salt", b"Pair-Setup-Encrypt-Info")
    return ChaCha20Poly1305(key).encrypt(nonce(b"PS-Msg06"), sub, None), ltpk
