"""Minimal independent HAP accessory side of pair-verify and pair-resume (HAP R2 5.7, 7.3.7) for C06.

Shares no code with aiohomekit: TLV8 from ref/tlv8.py, HKDF-SHA-512 from hmac/hashlib, X25519 / Ed25519 /
ChaCha20-Poly1305 straight from `cryptography`.  It is used by harness/c06.py so that the BLE Reconnect
event runs the real controller code (get_session_keys, resume_m1, resume_m3) and the session keys the
accessory uses afterwards are computed here, not taken from the controller.
"""
from __future__ import annotations

import hashlib
import hmac

from cryptography.exceptions import InvalidSignature, InvalidTag
from cryptography.hazmat.primitives import serialization
from cryptography.hazmat.primitives.asymmetric.ed25519 import Ed25519PrivateKey, Ed25519PublicKey
from cryptography.hazmat.primitives.asymmetric.x25519 import X25519PrivateKey, X25519PublicKey
from cryptography.hazmat.primitives.ciphers.aead import ChaCha20Poly1305

from .tlv8 import ref_decode, ref_encode

T_METHOD, T_ID, T_PK, T_ENC, T_STATE, T_ERROR, T_SIG, T_SID = 0, 1, 3, 5, 6, 7, 10, 14
RAW = dict(encoding=serialization.Encoding.Raw, format=serialization.PublicFormat.Raw)


def hkdf(ikm: bytes, salt: bytes, info: bytes, length: int = 32) -> bytes:
    prk = hmac.new(salt if salt else bytes(64), ikm, hashlib.sha512).digest()
    out, t, i = b"", b"", 1
    while len(out) < length:
        t = hmac.new(prk, t + info + bytes([i]), hashlib.sha512).digest()
        out += t
        i += 1
    return out[:length]


def n12(label: bytes) -> bytes:
    return b"\x00\x00\x00\x00" + label


def _open(key, nonce, ct):
    try:
        return ChaCha20Poly1305(key).decrypt(nonce, bytes(ct), b"")
    except InvalidTag:
        return None


def session_keys(secret: bytes):
    return (hkdf(secret, b"Control-Salt", b"Control-Write-Encryption-Key"),     # controller -> accessory
            hkdf(secret, b"Control-Salt", b"Control-Read-Encryption-Key"))      # accessory -> controller


class PairVerifyAccessory:
    def __init__(self, acc_id: bytes, acc_ltsk: Ed25519PrivateKey, ctrl_id: bytes, ctrl_ltpk: bytes):
        self.acc_id, self.ltsk, self.ctrl_id = acc_id, acc_ltsk, ctrl_id
        self.ctrl_ltpk = Ed25519PublicKey.from_public_bytes(ctrl_ltpk)
        self.sessions = {}        # resumable: session id -> shared secret
        self.pending = None       # (controller public key, ephemeral key, shared secret) between M1 and M3
        self.nsid = 0
        self.last = None          # "full" | "resume" | None: how the last established session came about

    def forget(self):
        """The accessory lost its resumable sessions (it will decline pair-resume)."""
        self.sessions.clear()

    def handle(self, raw: bytes):
        """One pairing TLV in -> (reply TLV bytes, shared secret of a session established by this message or None)."""
        d = dict(ref_decode(bytes(raw)) or [])
        st = d.get(T_STATE)
        if st == b"\x01" and T_PK in d and len(d[T_PK]) == 32:
            C = d[T_PK]
            sid = d.get(T_SID)
            if d.get(T_METHOD) == b"\x06" and sid in self.sessions and T_ENC in d:
                secret = self.sessions[sid]
                if _open(hkdf(secret, C + sid, b"Pair-Resume-Request-Info"), n12(b"PR-Msg01"), d[T_ENC]) == b"":
                    self.nsid += 1
                    nsid = b"RS" + self.nsid.to_bytes(6, "big")
                    tag = ChaCha20Poly1305(hkdf(secret, C + nsid, b"Pair-Resume-Response-Info")).encrypt(n12(b"PR-Msg02"), b"", b"")
                    new = hkdf(secret, C + nsid, b"Pair-Resume-Shared-Secret-Info")
                    del self.sessions[sid]
                    self.sessions[nsid] = new
                    self.last = "resume"
                    return ref_encode([(T_STATE, b"\x02"), (T_METHOD, b"\x06"), (T_SID, nsid), (T_ENC, tag)]), new
            eph = X25519PrivateKey.generate()
            pk = eph.public_key().public_bytes(**RAW)
            shared = eph.exchange(X25519PublicKey.from_public_bytes(C))
            sig = self.ltsk.sign(pk + self.acc_id + C)
            key = hkdf(shared, b"Pair-Verify-Encrypt-Salt", b"Pair-Verify-Encrypt-Info")
            enc = ChaCha20Poly1305(key).encrypt(n12(b"PV-Msg02"), ref_encode([(T_ID, self.acc_id), (T_SIG, sig)]), b"")
            self.pending = (C, pk, shared, key)
            return ref_encode([(T_STATE, b"\x02"), (T_PK, pk), (T_ENC, enc)]), None
        if st == b"\x03" and self.pending is not None and T_ENC in d:
            C, pk, shared, key = self.pending
            self.pending = None
            pt = _open(key, n12(b"PV-Msg03"), d[T_ENC])
            sub = dict(ref_decode(pt) or []) if pt is not None else {}
            ok = sub.get(T_ID) == self.ctrl_id and T_SIG in sub
            if ok:
                try:
                    self.ctrl_ltpk.verify(bytes(sub[T_SIG]), C + self.ctrl_id + pk)
                except InvalidSignature:
                    ok = False
            if ok:
                sid = hkdf(shared, b"Pair-Verify-ResumeSessionID-Salt", b"Pair-Verify-ResumeSessionID-Info", 8)
                self.sessions[sid] = shared
                self.last = "full"
                return ref_encode([(T_STATE, b"\x04")]), shared
            return ref_encode([(T_STATE, b"\x04"), (T_ERROR, b"\x02")]), None
        nxt = bytes([(st[0] + 1) & 0xFF]) if st else b"\x02"
        return ref_encode([(T_STATE, nxt), (T_ERROR, b"\x02")]), None


def event_key(secret: bytes) -> bytes:
    """HAP over CoAP/Thread: the accessory -> controller event key."""
    return hkdf(secret, b"Event-Salt", b"Event-Read-Encryption-Key")
