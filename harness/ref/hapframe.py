"""Reference HAP-over-IP session framing (HAP spec R2 ch. 6.5.2), independent of aiohomekit.

ChaCha20-Poly1305 from `cryptography` called directly; nonce = 4 zero bytes || LE64(counter);
frame = LE16(len) || ciphertext || 16-byte tag, AAD = the two length bytes.
Used (a) as the accessory side that produces inbound streams and consumes outbound ones,
(b) as the property oracle: the reference receiver run on the *unsegmented* stream says
what must be delivered and whether the session must end.
"""
from __future__ import annotations

import struct

from cryptography.exceptions import InvalidTag
from cryptography.hazmat.primitives.ciphers.aead import ChaCha20Poly1305

TAG = 16


def nonce(ctr: int) -> bytes:
    return b"\x00\x00\x00\x00" + struct.pack("<Q", ctr)


def seal(key: bytes, nonce12: bytes, aad: bytes, pt: bytes) -> bytes:
    return ChaCha20Poly1305(key).encrypt(nonce12, pt, aad)


def open_(key: bytes, nonce12: bytes, aad: bytes, ct: bytes):
    try:
        return ChaCha20Poly1305(key).decrypt(nonce12, ct, aad)
    except InvalidTag:
        return None


def seal_frame(key: bytes, ctr: int, pt: bytes) -> bytes:
    lb = struct.pack("<H", len(pt))
    return lb + seal(key, nonce(ctr), lb, pt)


def seal_stream(key: bytes, ctr: int, frames) -> bytes:
    return b"".join(seal_frame(key, ctr + i, p) for i, p in enumerate(frames))


def split_payload(payload: bytes, size: int):
    return [payload[i:i + size] for i in range(0, len(payload), size)]


class RefReceiver:
    """Conformant receiver.  max_frame=1024 for the accessory side (rejects bigger frames),
    None for the controller side (any LE16 length)."""

    def __init__(self, key: bytes, ctr: int = 0, max_frame=None):
        self.key, self.ctr, self.max_frame = key, ctr, max_frame
        self.buf = b""
        self.dead = False
        self.why = None
        self.delivered = []
        self.bad_frame = None

    def feed(self, data: bytes):
        out = []
        if self.dead:
            return out
        self.buf += data
        while len(self.buf) >= 2:
            n = self.buf[0] | (self.buf[1] << 8)
            if self.max_frame is not None and n > self.max_frame:
                self.dead, self.why = True, "frame-too-big"
                break
            if len(self.buf) < 2 + n + TAG:
                break
            hdr, body, self.buf = self.buf[:2], self.buf[2:2 + n + TAG], self.buf[2 + n + TAG:]
            if self.ctr >= 1 << 64:
                self.dead, self.why = True, "counter-exhausted"
                break
            pt = open_(self.key, nonce(self.ctr), hdr, body)
            if pt is None:
                self.dead, self.why = True, "auth"
                self.bad_frame = (hdr, body)      # the frame that failed to authenticate (for diagnostics)
                break
            self.ctr += 1
            out.append(pt)
        self.delivered += out
        return out
