"""Independent reference pieces for C18 (HAP-BLE encrypted broadcast notifications).

Nothing here imports aiohomekit.  Sealing uses `cryptography`'s ChaCha20-Poly1305
directly (aiohomekit opens with a pure-Python implementation), so the two sides
share no AEAD code.
"""
from __future__ import annotations

import struct

from cryptography.hazmat.primitives.ciphers.aead import ChaCha20Poly1305

WINDOW = 100          # accepted: stored < n < stored + WINDOW


def hkdf_sha512(ikm: bytes, salt: bytes, info: bytes, length: int = 32) -> bytes:
    """RFC 5869 with HMAC-SHA-512, written out with hmac (independent of aiohomekit.crypto.hkdf)."""
    import hashlib
    import hmac
    prk = hmac.new(salt if salt else bytes(64), ikm, hashlib.sha512).digest()
    okm, t, i = b"", b"", 1
    while len(okm) < length:
        t = hmac.new(prk, t + info + bytes([i]), hashlib.sha512).digest()
        okm += t
        i += 1
    return okm[:length]


def broadcast_key(session_secret: bytes, controller_ltpk: bytes) -> bytes:
    """HAP-BLE 7.4.7.3: HKDF-SHA-512(ikm = current session shared secret, salt = controller LTPK,
    info = "Broadcast-Encryption-Key"), 32 bytes."""
    return hkdf_sha512(session_secret, controller_ltpk, b"Broadcast-Encryption-Key", 32)


def nonce(n: int) -> bytes:
    return b"\x00\x00\x00\x00" + n.to_bytes(8, "little")


def seal(key: bytes, n: int, aad: bytes, pt: bytes) -> bytes:
    """ciphertext || first 4 bytes of the Poly1305 tag (HAP-BLE 7.4.7.3)."""
    out = ChaCha20Poly1305(key).encrypt(nonce(n), pt, aad)
    return out[:len(pt)] + out[len(pt):len(pt) + 4]


def short_opens_at(key: bytes, aad: bytes, short: bytes, lo: int, hi: int):
    """Counters n in [lo, hi) at which a 1..3-byte string is a prefix of the tag of the
    empty ciphertext (what `tag.startswith(combined[-4:])` tests for such a string)."""
    c = ChaCha20Poly1305(key)
    return [n for n in range(lo, hi) if c.encrypt(nonce(n), b"", aad).startswith(short)]


def plaintext(inner: int, iid: int, value: bytes, ptlen=None) -> bytes:
    pt = (inner & 0xFFFF).to_bytes(2, "little") + (iid & 0xFFFF).to_bytes(2, "little") + value
    return pt if ptlen is None else pt[:ptlen]


NEED = {"bool": 1, "uint8": 1, "uint16": 2, "uint32": 4, "uint64": 8, "int": 4, "float": 4}


def decode_value(fmt: str, v: bytes):
    """Canonical rendering of the value a listener must receive, or None when the 8-byte
    field cannot be decoded in this format (too short / not UTF-8)."""
    v = bytes(v[:8])
    if fmt in NEED:
        k = NEED[fmt]
        if len(v) < k:
            return None
        n = int.from_bytes(v[:k], "little")
        if fmt == "bool":
            return "b1" if n else "b0"
        if fmt == "int":
            return "i%d" % (n - (1 << 32) if n >= (1 << 31) else n)
        if fmt == "float":
            return canon_float_bits(n)
        return "i%d" % n
    if fmt == "string":
        try:
            return "s" + hexs(v.decode("utf-8").encode("utf-8"))
        except UnicodeDecodeError:
            return None
    return "s" + hexs(v.hex().encode("ascii"))      # tlv8, data, ...: hex text


def canon_float_bits(bits: int) -> str:
    if (bits >> 23) & 0xFF == 0xFF and bits & 0x7FFFFF:
        return "fnan"
    return "f%d" % bits


def canon_py_value(v) -> str:
    """Canonical rendering of what the implementation handed to the listener."""
    if isinstance(v, bool):
        return "b1" if v else "b0"
    if isinstance(v, int):
        return "i%d" % v
    if isinstance(v, float):
        if v != v:
            return "fnan"
        return "f%d" % int.from_bytes(struct.pack("<f", v), "little")
    if isinstance(v, str):
        return "s" + hexs(v.encode("utf-8", "surrogatepass"))
    if isinstance(v, (bytes, bytearray)):
        return "y" + hexs(bytes(v))
    return "?" + type(v).__name__


def hexs(b: bytes) -> str:
    return b.hex() if b else "-"
