"""Independent reference codec for structured TLV8 messages (HAP R2 ch. 14.1 + 7.3.x / 7.4.x usage).

Shares no code with aiohomekit or with the Coq model.  Works on a neutral schema:

  node  ::= {"k":"int","w":bytes,"be":bool} | {"k":"enum","members":[int]} | {"k":"str"} | {"k":"bytes"}
          | {"k":"struct","fields":[(tag,node),...]} | {"k":"seq","fields":[(tag,node),...]}
          | {"k":"pint","w":bytes,"be":bool} | {"k":"unsupp"}
  value ::= int | str | bytes | [value|None per field] | [[value|None per field], ...] | [int, ...]

Wire rules written from the specification:
  * a message is the concatenation, in declaration order, of one TLV item per *present* field;
  * an item whose payload is longer than 255 bytes is split into consecutive fragments of the same
    type, every fragment but the last carrying exactly 255 bytes;
  * a field with an empty payload is not transmitted;
  * list items are separated by a zero-length item of type 0x00;
  * integers are little-endian at their fixed width (Thread/MeshCoP 16-bit values big-endian),
    enumerations one byte, strings UTF-8, "linked services" style id lists are packed arrays.
"""
from __future__ import annotations


class Unrepresentable(Exception):
    pass


def _int_bytes(n: int, w: int, be: bool) -> bytes:
    if not 0 <= n < (1 << (8 * w)):
        raise Unrepresentable("int range")
    out = bytearray()
    for _ in range(w):
        out.append(n & 0xFF)
        n >>= 8
    return bytes(reversed(out)) if be else bytes(out)


def _payload(node, v, perm=None) -> bytes:
    k = node["k"]
    if k == "int":
        return _int_bytes(v, node["w"], node["be"])
    if k == "enum":
        if v not in node["members"]:
            raise Unrepresentable("enum member")
        return _int_bytes(v, 1, False)
    if k == "str":
        return v.encode("utf-8")
    if k == "bytes":
        return bytes(v)
    if k == "struct":
        return ref_message(node["fields"], v, perm)
    if k == "seq":
        return b"\x00\x00".join(ref_message(node["fields"], e, perm) for e in v)
    if k == "pint":
        return b"".join(_int_bytes(x, node["w"], node["be"]) for x in v)
    raise Unrepresentable("unsupported field type")


def _item(tag: int, payload: bytes) -> bytes:
    if not 0 <= tag <= 255:
        raise Unrepresentable("tag")
    out = bytearray()
    pos = 0
    while pos < len(payload):
        n = min(255, len(payload) - pos)
        out.append(tag)
        out.append(n)
        out += payload[pos:pos + n]
        pos += n
    return bytes(out)


def ref_message(fields, values, perm=None) -> bytes:
    """perm: None for declaration order, else a random.Random used to shuffle the item order at
    every struct level (what a conformant accessory is free to do)."""
    if len(fields) != len(values):
        raise Unrepresentable("arity")
    parts = []
    for (tag, node), v in zip(fields, values):
        if v is None:
            continue
        parts.append(_item(tag, _payload(node, v, perm)))
    if perm is not None:
        perm.shuffle(parts)
    return b"".join(parts)


# ------------------------------------------------------------------ domain of the round trip
def ref_wf(fields, element=False) -> bool:
    tags = [t for t, _ in fields]
    if len(set(tags)) != len(tags) or any(not 0 <= t <= 255 for t in tags):
        return False
    if element and 0 in tags:
        return False
    for _, node in fields:
        if node["k"] == "struct" and not ref_wf(node["fields"]):
            return False
        if node["k"] == "seq" and not ref_wf(node["fields"], element=True):
            return False
    return True


def _fits_value(node, v) -> bool:
    """a *set* field: in range and non-empty on the wire"""
    k = node["k"]
    if k == "int":
        return isinstance(v, int) and 0 <= v < (1 << (8 * node["w"]))
    if k == "enum":
        return isinstance(v, int) and v in node["members"] and 0 <= v <= 255
    if k == "str":
        if not isinstance(v, str) or v == "":
            return False
        try:
            v.encode("utf-8")
        except UnicodeEncodeError:
            return False
        return True
    if k == "bytes":
        return isinstance(v, (bytes, bytearray)) and len(v) > 0
    if k == "struct":
        return ref_fits(node["fields"], v) and any(x is not None for x in v)
    if k == "seq":
        return len(v) > 0 and all(ref_fits(node["fields"], e) and any(x is not None for x in e) for e in v)
    if k == "pint":
        return len(v) > 0 and all(isinstance(x, int) and 0 <= x < (1 << (8 * node["w"])) for x in v)
    return False


def ref_fits(fields, values) -> bool:
    if len(fields) != len(values):
        return False
    return all(v is None or _fits_value(node, v) for (_, node), v in zip(fields, values))


# ------------------------------------------------------------------ strict reference decoder
class Unspecified(Exception):
    """the input is outside what the specification (and the property) pins down"""


class RefParseError(Exception):
    pass


def _fragments(bs: bytes):
    i, out = 0, []
    while i < len(bs):
        if i + 2 > len(bs) or i + 2 + bs[i + 1] > len(bs):
            raise Unspecified("truncated")
        out.append((bs[i], bs[i + 2:i + 2 + bs[i + 1]]))
        i += 2 + bs[i + 1]
    return out


def _merge(frags):
    """adjacent fragments of one type form one item iff the earlier one is full (255 bytes)"""
    out = []
    prev_full = False
    for t, v in frags:
        if out and out[-1][0] == t and prev_full:
            out[-1] = (t, out[-1][1] + v)
        elif out and out[-1][0] == t:
            raise Unspecified("adjacent items of one type")
        else:
            out.append((t, v))
        prev_full = len(v) == 255
    return out


def _split_list(bs: bytes):
    frags = _fragments(bs)
    items, cur = [], []
    for t, v in frags:
        if t == 0 and len(v) == 0:
            items.append(cur)
            cur = []
        elif t == 0:
            raise Unspecified("type 0 with data inside a list")
        else:
            cur.append((t, v))
    items.append(cur)
    if any(len(c) == 0 for c in items):
        raise Unspecified("empty list element")
    return [b"".join(bytes([t, len(v)]) + v for t, v in c) for c in items]


def _value(node, payload: bytes, short_ints=False):
    k = node["k"]
    if k == "int":
        # accessories may send a shortened integer (e.g. the 16-bit form of an Apple-defined 128-bit type);
        # accepted only when the caller asks for it (captured fixtures), otherwise exact width
        if len(payload) != node["w"] and not (short_ints and 0 < len(payload) < node["w"]):
            raise Unspecified("int width")
        return int.from_bytes(payload, "big" if node["be"] else "little")
    if k == "enum":
        if len(payload) != 1 or payload[0] not in node["members"]:
            raise Unspecified("enum")
        return payload[0]
    if k == "str":
        try:
            return payload.decode("utf-8")
        except UnicodeDecodeError:
            raise Unspecified("utf-8")
    if k == "bytes":
        return bytes(payload)
    if k == "struct":
        return ref_decode(node["fields"], payload, short_ints)
    if k == "seq":
        return [ref_decode(node["fields"], e, short_ints) for e in _split_list(payload)]
    if k == "pint":
        w = node["w"]
        if len(payload) % w:
            raise Unspecified("partial id")
        return [int.from_bytes(payload[i:i + w], "big" if node["be"] else "little") for i in range(0, len(payload), w)]
    raise RefParseError("field type cannot be decoded")


def ref_decode(fields, bs: bytes, short_ints=False):
    """Returns the positional value list; raises RefParseError when the specification demands a
    parse error (unknown item type), Unspecified when it does not say."""
    items = _merge(_fragments(bytes(bs)))
    tags = [t for t, _ in fields]
    if len(set(tags)) != len(tags):
        raise Unspecified("schema with duplicate types")
    seen = set()
    out = [None] * len(fields)
    for t, payload in items:
        if t not in tags:
            raise RefParseError("unknown item type")
        if t in seen:
            raise Unspecified("repeated item")
        seen.add(t)
        i = tags.index(t)
        if len(payload) == 0:
            if short_ints:                       # captured fixtures: an explicitly empty descriptor / id list
                out[i] = {"bytes": b"", "str": "", "pint": [], "seq": []}.get(fields[i][1]["k"])
                continue
            raise Unspecified("empty item")
        out[i] = _value(fields[i][1], payload, short_ints)
    return out
