"""C20 child process: the real save/load code of aiohomekit under ANOTHER HOST ENVIRONMENT.

Run as   <python> c20_hostenv.py <repo>   with one JSON job per line on stdin and the environment of the host to
be exercised (e.g. LC_ALL=C PYTHONUTF8=0 PYTHONCOERCECLOCALE=0: preferred encoding ASCII).  The job is
  {"mode": "write" | "read", "dir": <sandbox directory>, "sim": null | "<codec>",
   "pairs": {file name: {alias: pairing data}},
   "caches": {file name: [[id, config_num, accessories, key hex | null, state_num | null], ...]}}      (write)
  {"mode": "read", "sim": ..., "sets": [{"tag", "dir", "pairs": [file names], "caches": [file names]}]}  (read)
"sim": a host whose locale encoding is a legacy 8-bit code page cannot be produced with the locales
installed here, so it is simulated at the one place where CPython consults the locale: open() in text
mode WITHOUT an explicit encoding (None / "locale") gets the simulated codec; locale.getpreferredencoding
and locale.getencoding answer the same.  Explicit encodings are passed through untouched.
The answer is one line of ASCII JSON on stdout; nothing of the code under test is copied here.
"""
from __future__ import annotations

import asyncio
import json
import os
import sys


def install_sim(enc: str):
    import builtins
    import io
    import locale
    real = io.open

    def sim_open(file, mode="r", buffering=-1, encoding=None, errors=None, newline=None, closefd=True, opener=None):
        if "b" not in mode and encoding in (None, "locale"):
            encoding = enc
        return real(file, mode, buffering, encoding, errors, newline, closefd, opener)
    builtins.open = sim_open
    io.open = sim_open
    locale.getpreferredencoding = lambda do_setlocale=True: enc
    if hasattr(locale, "getencoding"):
        locale.getencoding = lambda: enc


def make_controller(cache=None):
    from unittest.mock import MagicMock

    from aiohomekit.controller import Controller
    from aiohomekit.controller.abstract import TransportType
    from aiohomekit.controller.ble.controller import BleController
    from aiohomekit.controller.coap.controller import CoAPController
    from aiohomekit.controller.ip.controller import IpController
    c = Controller(async_zeroconf_instance=MagicMock(), char_cache=cache)
    cc = c._char_cache
    c.transports[TransportType.IP] = IpController(char_cache=cc, zeroconf_instance=MagicMock())
    c.transports[TransportType.COAP] = CoAPController(char_cache=cc, zeroconf_instance=MagicMock())
    c.transports[TransportType.BLE] = BleController(char_cache=cc)
    return c


def exc_name(e):
    c = getattr(e, "__cause__", None)
    return type(e).__name__ + (("<-" + type(c).__name__) if c is not None else "")


async def main(job):
    import pathlib

    from aiohomekit.characteristic_cache import CharacteristicCacheFile
    out = {"pairs": {}, "caches": {}}
    if job["mode"] == "write":
        d = job["dir"]
        for fn, pairings in job["pairs"].items():
            try:
                c = make_controller()
                for alias, pd in pairings.items():
                    c.load_pairing(alias, json.loads(json.dumps(pd)))
                c.save_data(os.path.join(d, fn))
                out["pairs"][fn] = ["ok"]
            except Exception as e:  # noqa
                out["pairs"][fn] = ["exc", exc_name(e)]
        for fn, entries in job["caches"].items():
            try:
                cache = CharacteristicCacheFile(pathlib.Path(os.path.join(d, fn)))
                for hkid, cfg, accs, key, st in entries:
                    cache.async_create_or_update_map(hkid, cfg, accs, key, st)
                out["caches"][fn] = ["ok"]
            except Exception as e:  # noqa
                out["caches"][fn] = ["exc", exc_name(e)]
    else:
        from aiohomekit.exceptions import ConfigLoadingError
        out = {"sets": {}}
        for st in job["sets"]:                     # one reader process = one restart per file, fresh objects each
            d, o = st["dir"], {"pairs": {}, "caches": {}}
            out["sets"][st["tag"]] = o
            for fn in st["pairs"]:
                c = make_controller()
                try:
                    c.load_data(os.path.join(d, fn))
                    o["pairs"][fn] = ["ok", {a: dict(p.pairing_data) for a, p in c.aliases.items()}]
                except ConfigLoadingError as e:
                    o["pairs"][fn] = ["broken", exc_name(e)]
                except Exception as e:  # noqa
                    o["pairs"][fn] = ["exc", exc_name(e)]
            for fn in st["caches"]:
                try:
                    cache = CharacteristicCacheFile(pathlib.Path(os.path.join(d, fn)))
                    o["caches"][fn] = ["ok", cache.storage_data]
                except Exception as e:  # noqa
                    o["caches"][fn] = ["exc", exc_name(e)]
    return out


if __name__ == "__main__":
    sys.path.insert(0, sys.argv[1])
    import locale
    import logging
    logging.disable(logging.CRITICAL)
    first = True
    # one job per input line, one answer line each: the parent sends the write job to every host, waits for all of
    # them, then sends the read job (fresh Controller / cache objects per file; the interpreter, and with it the
    # host's locale, stays the same)
    while True:
        line = sys.stdin.buffer.readline()
        if not line.strip():
            break
        job = json.loads(line.decode("utf-8"))
        if first and job.get("sim"):
            install_sim(job["sim"])
        first = False
        res = asyncio.run(main(job))
        res["host"] = {"preferred": locale.getpreferredencoding(False), "utf8_mode": sys.flags.utf8_mode,
                       "sim": job.get("sim")}
        sys.stdout.write("C20HOSTENV " + json.dumps(res, ensure_ascii=True) + "\n")
        sys.stdout.flush()
