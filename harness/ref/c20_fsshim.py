"""File-system shim for C20: intercepts the primitive file operations a save procedure issues
(open-for-writing, raw writes, fsync, close, rename/replace, unlink, tempfile creation) for paths
inside one sandbox directory, records them as an operation list, and can cut the run short
("crash") before the n-th primitive.  After the crash every further primitive is a no-op (the
process is dead).  Files are real files in the sandbox directory (a temp dir outside /repo and
/verif); python's own buffering (TextIOWrapper/BufferedWriter) stays in place above the raw
layer, so data only counts as written when CPython hands it to the OS.

View "a": everything handed to the OS before the crash is on disk.
View "l": data written after the last fsync of a file is lost in the crash (meta-data operations
          such as create/truncate/rename/unlink are kept in program order).
"""
from __future__ import annotations

import builtins
import contextlib
import io
import os
import shutil
import tempfile


class Crash(BaseException):
    """Simulated crash; BaseException so that `except Exception` clauses do not swallow it."""


class ShimRaw(io.RawIOBase):
    def __init__(self, sim, hid, fd, path, base_len):
        super().__init__()
        self.sim, self.hid, self.fd, self.name = sim, hid, fd, path
        self.size = base_len      # bytes in the file
        self.synced = base_len    # bytes known durable
        self.logically_closed = False
        self.mode = "wb"

    def writable(self):
        return True

    def readable(self):
        return False

    def seekable(self):
        return False

    def fileno(self):
        return self.fd

    def isatty(self):
        return False

    def write(self, b):
        b = bytes(b)
        if self.sim.dead or self.logically_closed:
            return len(b)
        for piece in self.sim.pieces(b):
            self.sim.prim(("W", self.hid, piece), lambda p=piece: os_write(self.fd, p))
            self.size += len(piece)
        return len(b)

    def do_fsync(self):
        def act():
            self.synced = self.size
        self.sim.prim(("S", self.hid), act)

    def close(self):
        if not self.logically_closed and not self.sim.dead:
            def act():
                self.logically_closed = True
            self.sim.prim(("C", self.hid), act)
        self.logically_closed = True
        # the real descriptor stays open until Sim.cleanup (needed for the lossy view)
        if not self.closed:
            try:
                super().close()
            except Exception:  # noqa
                pass


# real functions, captured before any patching
os_write, os_close, os_open = os.write, os.close, os.open
os_replace, os_rename, os_unlink, os_remove = os.replace, os.rename, os.unlink, os.remove
os_fsync, os_fdatasync, os_ftruncate = os.fsync, os.fdatasync, os.ftruncate
real_open = builtins.open
real_NamedTemporaryFile, real_mkstemp = tempfile.NamedTemporaryFile, tempfile.mkstemp


class TmpWrapper:
    """Minimal stand-in for tempfile's _TemporaryFileWrapper."""

    def __init__(self, sim, fobj, name, delete):
        self.file, self.name, self._sim, self._delete = fobj, name, sim, delete

    def __getattr__(self, a):
        return getattr(self.file, a)

    def __enter__(self):
        return self

    def __exit__(self, *exc):
        self.close()
        return False

    def __iter__(self):
        return iter(self.file)

    def close(self):
        self.file.close()
        if self._delete:
            self._delete = False
            self._sim.unlink(self.name)


class Sim:
    def __init__(self, root, crash_at=None, view="a", max_pieces=8):
        self.root = os.path.realpath(root)
        self.crash_at, self.view, self.max_pieces = crash_at, view, max_pieces
        self.ops = []          # recorded primitives (tuples)
        self.dead = False
        self.crashed = False
        self.names = {}        # relative path -> int
        self.raws = []         # every ShimRaw opened
        self.fds = {}          # real fd -> ShimRaw
        self.unsupported = []

    # -- bookkeeping
    def inside(self, path):
        try:
            p = os.path.realpath(os.fspath(path))
        except TypeError:
            return None
        if isinstance(p, bytes):
            p = os.fsdecode(p)
        if p == self.root or not p.startswith(self.root + os.sep):
            return None
        return p

    def inside_nofollow(self, path):
        """Like inside(), but the last component is NOT resolved (rename / unlink act on a symlink itself)."""
        try:
            p = os.fspath(path)
        except TypeError:
            return None
        if isinstance(p, bytes):
            p = os.fsdecode(p)
        p = os.path.join(os.path.realpath(os.path.dirname(os.path.abspath(p))), os.path.basename(p))
        if p == self.root or not p.startswith(self.root + os.sep):
            return None
        return p

    def name(self, p):
        rel = os.path.relpath(p, self.root)
        if rel not in self.names:
            self.names[rel] = len(self.names)
        return self.names[rel]

    def pieces(self, b):
        """Deterministic split of one raw write into the pieces handed to the OS one by one."""
        n = len(b)
        if n <= 1:
            return [b] if n else []
        if self.max_pieces == 1:        # the raw write as CPython issues it
            return [b]
        if self.max_pieces == 0:        # every byte boundary
            cuts = set(range(1, n))
        else:
            step = max(1, n // self.max_pieces)
            cuts = set(range(step, n, step)) | {1, 2, n - 1, n - 2}
        cuts = sorted(c for c in cuts if 0 < c < n)
        out, prev = [], 0
        for c in cuts + [n]:
            out.append(b[prev:c])
            prev = c
        return out

    def prim(self, tok, act):
        if self.dead:
            return None
        if self.crash_at is not None and len(self.ops) == self.crash_at:
            self.die()
            raise Crash()
        self.ops.append(tok)
        return act()

    def die(self):
        self.dead = True
        self.crashed = True
        if self.view == "l":
            for r in self.raws:
                try:
                    os_ftruncate(r.fd, r.synced)
                except OSError:
                    pass

    def cleanup(self):
        for r in self.raws:
            try:
                os_close(r.fd)
            except OSError:
                pass
        self.raws, self.fds = [], {}

    # -- primitives
    def open_write(self, p, kind, excl=False):
        """kind 'T' (create/truncate) or 'A' (append). Returns a ShimRaw."""
        hid = len(self.raws)
        nm = self.name(p)
        box = {}

        def act():
            if kind == "T":
                flags = os.O_WRONLY | os.O_CREAT | os.O_TRUNC | (os.O_EXCL if excl else 0)
                base = 0
            else:
                flags = os.O_WRONLY | os.O_CREAT | os.O_APPEND
                base = os.path.getsize(p) if os.path.exists(p) else 0
            fd = os_open(p, flags, 0o666)
            box["raw"] = ShimRaw(self, hid, fd, p, base)
        if excl and os.path.exists(p):
            raise FileExistsError(p)
        self.prim((kind, hid, nm), act)
        raw = box["raw"]
        self.raws.append(raw)
        self.fds[raw.fd] = raw
        return raw

    def rename(self, a, b):
        pa, pb = self.inside_nofollow(a), self.inside_nofollow(b)
        if pa is None and pb is None:
            return os_replace(a, b)
        if self.dead:
            return None
        if pa is None or pb is None:
            self.unsupported.append(("rename-across-sandbox", str(a), str(b)))
            return os_replace(a, b)
        if not os.path.lexists(pa):
            raise FileNotFoundError(pa)
        self.prim(("R", self.name(pa), self.name(pb)), lambda: os_replace(pa, pb))

    def unlink(self, a):
        pa = self.inside_nofollow(a)
        if pa is None:
            return os_unlink(a)
        if self.dead:
            return None
        if not os.path.lexists(pa):
            raise FileNotFoundError(pa)
        self.prim(("U", self.name(pa)), lambda: os_unlink(pa))

    # -- python-level entry points
    def shim_open(self, file, mode="r", buffering=-1, encoding=None, errors=None, newline=None,
                  closefd=True, opener=None):
        if isinstance(file, int):
            raw = self.fds.get(file)
            if raw is None:
                return real_open(file, mode, buffering, encoding, errors, newline, closefd, opener)
        else:
            p = self.inside(file)
            writing = any(c in mode for c in "wxa+")
            if p is None or not writing:
                return real_open(file, mode, buffering, encoding, errors, newline, closefd, opener)
            if self.dead:
                sink = io.BytesIO()
                return sink if "b" in mode else io.TextIOWrapper(sink, encoding=encoding or "utf-8")
            if "+" in mode and "w" not in mode:
                self.unsupported.append(("open-mode", mode))
                raise NotImplementedError("fs shim: mode " + mode)
            raw = self.open_write(p, "A" if "a" in mode else "T", excl="x" in mode)
        binary = "b" in mode
        if binary and buffering == 0:
            return raw
        bufsize = buffering if buffering and buffering > 1 else io.DEFAULT_BUFFER_SIZE
        buf = io.BufferedWriter(raw, bufsize)
        if binary:
            return buf
        return io.TextIOWrapper(buf, encoding=encoding or "utf-8", errors=errors, newline=newline,
                                line_buffering=(buffering == 1))

    def shim_mkstemp(self, suffix=None, prefix=None, dir=None, text=False):
        d = self.inside(os.path.join(dir, "x")) if dir is not None else None
        if d is None:
            return real_mkstemp(suffix, prefix, dir, text)
        if self.dead:
            return (-1, os.path.join(dir, "dead"))
        p = self._tmpname(dir, prefix, suffix)
        raw = self.open_write(p, "T", excl=True)
        return raw.fd, p

    def _tmpname(self, dir, prefix, suffix):
        # deterministic candidate names so that the dry run and the crash runs agree
        k = 0
        while True:
            p = os.path.join(os.path.realpath(dir), f"{prefix if prefix is not None else 'tmp'}shim{k:04d}{suffix or ''}")
            if not os.path.exists(p):
                return p
            k += 1

    def shim_NamedTemporaryFile(self, mode="w+b", buffering=-1, encoding=None, newline=None, suffix=None,
                                prefix=None, dir=None, delete=True, *, errors=None, delete_on_close=True):
        d = self.inside(os.path.join(dir, "x")) if dir is not None else None
        if d is None:
            return real_NamedTemporaryFile(mode, buffering, encoding, newline, suffix, prefix, dir, delete,
                                           errors=errors, delete_on_close=delete_on_close)
        p = self._tmpname(dir, prefix, suffix)
        if self.dead:
            sink = io.BytesIO()
            return TmpWrapper(self, sink if "b" in mode else io.TextIOWrapper(sink, encoding="utf-8"), p, False)
        m = mode.replace("+", "").replace("w", "x")
        f = self.shim_open(p, m, buffering, encoding, errors, newline)
        return TmpWrapper(self, f, p, delete)

    # -- fd-level entry points
    def shim_fsync(self, fd):
        if hasattr(fd, "fileno"):
            fd = fd.fileno()
        raw = self.fds.get(fd)
        if raw is None:
            return os_fsync(fd)
        if not self.dead:
            raw.do_fsync()

    def shim_write(self, fd, data):
        raw = self.fds.get(fd)
        if raw is None:
            return os_write(fd, data)
        return raw.write(data)

    def shim_close(self, fd):
        raw = self.fds.get(fd)
        if raw is None:
            if fd == -1:
                return None
            return os_close(fd)
        raw.close()

    @contextlib.contextmanager
    def installed(self):
        saved = dict(bopen=builtins.open, ioopen=io.open, replace=os.replace, rename=os.rename,
                     unlink=os.unlink, remove=os.remove, fsync=os.fsync, fdatasync=os.fdatasync,
                     write=os.write, close=os.close, ntf=tempfile.NamedTemporaryFile, mkstemp=tempfile.mkstemp)
        saved["sendfile"] = getattr(shutil, "_USE_CP_SENDFILE", None)
        if saved["sendfile"] is not None:
            shutil._USE_CP_SENDFILE = False        # copyfile must go through read()/write(), not sendfile on raw fds
        builtins.open = io.open = self.shim_open
        os.replace = os.rename = lambda a, b, **kw: self.rename(a, b)
        os.unlink = os.remove = lambda a, **kw: self.unlink(a)
        os.fsync = os.fdatasync = self.shim_fsync
        os.write, os.close = self.shim_write, self.shim_close
        tempfile.NamedTemporaryFile, tempfile.mkstemp = self.shim_NamedTemporaryFile, self.shim_mkstemp
        try:
            yield self
        finally:
            builtins.open, io.open = saved["bopen"], saved["ioopen"]
            os.replace, os.rename, os.unlink, os.remove = saved["replace"], saved["rename"], saved["unlink"], saved["remove"]
            os.fsync, os.fdatasync, os.write, os.close = saved["fsync"], saved["fdatasync"], saved["write"], saved["close"]
            tempfile.NamedTemporaryFile, tempfile.mkstemp = saved["ntf"], saved["mkstemp"]
            if saved["sendfile"] is not None:
                shutil._USE_CP_SENDFILE = saved["sendfile"]


def run_with_crash(root, action, crash_at=None, view="a", max_pieces=8, names=None):
    """Run action() under the shim. Returns (sim, completed, exception or None)."""
    sim = Sim(root, crash_at, view, max_pieces)
    if names:
        sim.names = dict(names)
    exc = None
    completed = False
    try:
        with sim.installed():
            action()
        completed = not sim.crashed
        if completed and crash_at is not None:
            sim.die()        # the machine goes down right after the last operation
    except Crash:
        pass
    except Exception as e:  # noqa - the save procedure's own failure
        exc = e
    finally:
        sim.cleanup()
    return sim, completed, exc
