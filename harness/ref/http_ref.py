"""Strict whole-stream reference parser for HAP HTTP/EVENT streams (oracle for C07).

Independent of aiohomekit: parses a complete byte stream in one go (never incrementally)
against a strict grammar and returns the messages a conforming receiver must deliver:
  status-line = ("HTTP"|"EVENT") "/" DIGIT "." DIGIT SP 3DIGIT SP *VCHAR-or-SP CRLF
  header      = OWS name OWS ":" OWS value OWS CRLF      name = ALPHA *(ALPHA / "-")
  framing     = Content-Length: 1*DIGIT | Transfer-Encoding: chunked | none (no body)
  chunked     = *( 1*HEXDIG CRLF <size bytes> CRLF ) 1*"0" CRLF CRLF
Header names are reported in Title-Case (each hyphen-separated word capitalised), values
without surrounding blanks - the form the property says the code keeps.
"""
import re

_STATUS = re.compile(rb"^(HTTP|EVENT)/(\d\.\d) (\d{3}) ([\x20-\x7e]*)$")
_HEADER = re.compile(rb"^[ \t]*([A-Za-z][A-Za-z-]*)[ \t]*:[ \t]*([\x21-\x7e](?:[\x20-\x7e]*[\x21-\x7e])?)?[ \t]*$")
_HEX = re.compile(rb"^[0-9A-Fa-f]+$")


def title_name(name: str) -> str:
    return "-".join(w[:1].upper() + w[1:].lower() for w in name.split("-"))


def ref_parse(stream: bytes):
    """-> (messages, status); status: 'complete' | 'incomplete' | 'excluded:<why>' | 'malformed:<why>'.
    messages = those fully contained in the stream before the status condition arose."""
    s = bytes(stream)
    pos = 0
    out = []

    def line(at):
        j = s.find(b"\r\n", at)
        return (None, at) if j < 0 else (s[at:j], j + 2)

    while pos < len(s):
        ln, p = line(pos)
        if ln is None:
            return out, "incomplete"
        m = _STATUS.match(ln)
        if not m:
            return out, "malformed:status-line"
        kind = "H" if m.group(1) == b"HTTP" else "E"
        version = (m.group(1) + b"/" + m.group(2)).decode()
        code = int(m.group(3))
        reason = m.group(4).decode()
        headers = []
        chunked = False
        clen = None
        while True:
            ln, p = line(p)
            if ln is None:
                return out, "incomplete"
            if ln == b"":
                break
            h = _HEADER.match(ln)
            if not h:
                return out, "malformed:header"
            name = title_name(h.group(1).decode())
            value = (h.group(2) or b"").decode()
            if name == "Transfer-Encoding":
                if value != "chunked":
                    return out, "malformed:transfer-encoding"
                chunked = True
            elif name == "Content-Length":
                if not re.fullmatch(r"[0-9]{1,18}", value):      # strict: no absurd lengths (CPython refuses > 4300 digits)
                    return out, "malformed:content-length"
                clen = int(value)
            headers.append((name, value))
        body = b""
        if chunked and clen is not None and clen > 0:
            return out, "excluded:chunked-and-content-length"
        if chunked:
            while True:
                ln, p2 = line(p)
                if ln is None:
                    return out, "incomplete"
                if not _HEX.match(ln):
                    return out, "malformed:chunk-size"
                n = int(ln, 16)
                if len(s) < p2 + n + 2:
                    return out, "incomplete"
                if s[p2 + n:p2 + n + 2] != b"\r\n":
                    return out, "malformed:chunk-end"
                p = p2 + n + 2
                if n == 0:
                    break
                body += s[p2:p2 + n]
        elif clen:
            if len(s) < p + clen:
                return out, "incomplete"
            body = s[p:p + clen]
            p += clen
        out.append((kind, code, version, reason, headers, body))
        pos = p
    return out, "complete"
