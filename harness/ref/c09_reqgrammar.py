"""C09 oracle: a strict, independent grammar for the canonical iOS-form HAP request.

Written from the property statement (README "Contributing" + HAP spec examples), not from
aiohomekit and not from the Coq model:

    request  = METHOD SP target SP "HTTP/1.1" CRLF
               "Host: " host CRLF
               [ "Content-Length: " 1*DIGIT CRLF
                 "Content-Type: " ("application/hap+json" / "application/pairing+tlv8") CRLF ]
               CRLF body
    METHOD   = "GET" / "PUT" / "POST"          ; GET <=> no header block, no body
    host     = IPv4 / "[" IPv6 [ "%" zone ] "]"   ; never a port
    JSON     = compact: no whitespace outside string literals, orjson/ECMA-404 escapes

`strict_parse` returns (request-dict, None) or (None, reason-slug).  The reason names the first
rule that failed; it is used in violation keys, so keep the slugs stable.
"""
from __future__ import annotations

import json
import re

CT = {b"application/hap+json": "json", b"application/pairing+tlv8": "tlv"}
_REQLINE = re.compile(rb"(GET|PUT|POST) ([^ \r\n]+) HTTP/1\.1\Z")
_CL = re.compile(rb"Content-Length: (0|[1-9][0-9]*)\Z")
_CTL = re.compile(rb"Content-Type: ([^\r\n]*)\Z")
_HOST4 = re.compile(rb"[^\[\]: \r\n]+\Z")
_HOST6 = re.compile(rb"\[([^\[\] \r\n]*:[^\[\] \r\n]*)\]\Z")


def _lines(bs: bytes):
    """Split the header section on CRLF strictly: returns (lines, body) or (None, reason)."""
    end = bs.find(b"\r\n\r\n")
    if end < 0:
        return None, "line-end"
    head, body = bs[:end], bs[end + 4:]
    lines = head.split(b"\r\n")
    for ln in lines:
        if b"\r" in ln or b"\n" in ln:
            return None, "line-end"
    return lines, body


def strict_parse(bs: bytes):
    lines, body = _lines(bs)
    if lines is None:
        # distinguish "\n" line ends from an outright truncated head
        return None, body
    m = _REQLINE.match(lines[0])
    if not m:
        return None, "request-line"
    method, target = m.group(1).decode(), m.group(2)
    if len(lines) < 2 or not lines[1].startswith(b"Host: "):
        if len(lines) >= 2 and lines[1].lower().startswith(b"host:"):
            return None, "host-header-casing"
        return None, "host-header-missing"
    hv = lines[1][len(b"Host: "):]
    m6 = _HOST6.match(hv)
    if m6:
        host = m6.group(1)
    elif _HOST4.match(hv):
        host = hv
    else:
        return None, "host-value"
    rest = lines[2:]
    if not rest:
        if body:
            return None, "body-without-length"
        if method != "GET":
            return None, "missing-body-headers"
        return dict(method=method, target=target, host=host, kind="none", body=b""), None
    if method == "GET":
        return None, "headers-on-get"
    if len(rest) < 2:
        return None, "header-missing"
    if len(rest) > 2:
        return None, "extra-header"
    mcl = _CL.match(rest[0])
    if not mcl:
        if rest[0].lower().startswith(b"content-type"):
            return None, "header-order"
        if rest[0].lower().startswith(b"content-length"):
            return None, "content-length-form"
        return None, "extra-header"
    mct = _CTL.match(rest[1])
    if not mct:
        if rest[1].lower().startswith(b"content-type"):
            return None, "content-type-form"
        return None, "extra-header"
    if mct.group(1) not in CT:
        return None, "content-type-value"
    if int(mcl.group(1)) != len(body):
        return None, "content-length-value"
    return dict(method=method, target=target, host=host, kind=CT[mct.group(1)], body=body), None


# ------------------------------------------------------------------ JSON
def json_ws_outside_strings(bs: bytes) -> bool:
    """True iff a space/tab/CR/LF occurs outside a string literal (or a string is left open)."""
    in_s = esc = False
    for c in bs:
        if in_s:
            if esc:
                esc = False
            elif c == 0x5C:
                esc = True
            elif c == 0x22:
                in_s = False
        else:
            if c in (0x20, 0x09, 0x0D, 0x0A):
                return True
            if c == 0x22:
                in_s = True
    return in_s


class Obj(list):
    """JSON object as an ordered list of (key, value) pairs."""


def loads_ordered(bs: bytes):
    return json.loads(bs.decode("utf-8"), object_pairs_hook=Obj)


def to_plain(v):
    if isinstance(v, Obj):
        return {k: to_plain(x) for k, x in v}
    if isinstance(v, dict):
        return {k: to_plain(x) for k, x in v.items()}
    if isinstance(v, (list, tuple)):
        return [to_plain(x) for x in v]
    return v


def has_float(v) -> bool:
    if isinstance(v, float):
        return True
    if isinstance(v, Obj):
        return any(has_float(x) for _, x in v)
    if isinstance(v, dict):
        return any(has_float(x) for x in v.values())
    if isinstance(v, (list, tuple)):
        return any(has_float(x) for x in v)
    return False


def _esc(s: str) -> str:
    out = ['"']
    for ch in s:
        o = ord(ch)
        if ch == '"':
            out.append('\\"')
        elif ch == "\\":
            out.append("\\\\")
        elif o < 0x20:
            out.append({8: "\\b", 9: "\\t", 10: "\\n", 12: "\\f", 13: "\\r"}.get(o, "\\u%04x" % o))
        else:
            out.append(ch)
    out.append('"')
    return "".join(out)


def ref_compact(v) -> bytes:
    """Reference compact serialiser (ECMA-404 minimal escapes, lower-case \\u00xx), keys in given order."""
    def go(x):
        if x is None:
            return "null"
        if x is True:
            return "true"
        if x is False:
            return "false"
        if isinstance(x, int):
            return str(int(x))
        if isinstance(x, str):
            return _esc(x)
        if isinstance(x, Obj):
            return "{" + ",".join(_esc(k) + ":" + go(y) for k, y in x) + "}"
        if isinstance(x, dict):
            return "{" + ",".join(_esc(k) + ":" + go(y) for k, y in x.items()) + "}"
        if isinstance(x, (list, tuple)):
            return "[" + ",".join(go(y) for y in x) + "]"
        raise TypeError(type(x).__name__)
    return go(v).encode("utf-8")


def strict_json(body: bytes):
    """(ordered value, None) or (None, reason)."""
    try:
        v = loads_ordered(body)
    except Exception:  # noqa
        return None, "json-invalid"
    if json_ws_outside_strings(body):
        return None, "json-whitespace"
    if has_float(v):
        return v, None      # floats: only the whitespace rule is checked
    if ref_compact(v) != body:
        return None, "json-noncanonical"
    return v, None


# ------------------------------------------------------------------ read URL
_URL = re.compile(rb"/characteristics\?id=((?:-?(?:0|[1-9][0-9]*)\.-?(?:0|[1-9][0-9]*))(?:,-?(?:0|[1-9][0-9]*)\.-?(?:0|[1-9][0-9]*))*)?\Z")


def strict_read_url(target: bytes):
    m = _URL.match(target)
    if not m:
        return None
    if m.group(1) is None:
        return []
    out = []
    for part in m.group(1).split(b","):
        a, i = part.split(b".")
        if a in (b"-0",) or i in (b"-0",):
            return None
        out.append((int(a), int(i)))
    return out
