"""Independent reference for C14: exact rational arithmetic on the decimal reading of the inputs.

Nothing here uses decimal contexts or rounding modes of the `decimal` module: values are read
with Decimal(x) (exact) and immediately turned into fractions.Fraction.
"""
from __future__ import annotations

from decimal import Decimal
from fractions import Fraction

TRUE_WORDS = {"y", "yes", "t", "true", "on", "1"}
FALSE_WORDS = {"n", "no", "f", "false", "off", "0"}

# one rounding to 6 significant digits moves a number by at most 5e-6 of itself
EPS = Fraction(5, 10 ** 6)


def reading(x):
    """Decimal reading of a caller value: Fraction, or None when Decimal() rejects it or it is not finite."""
    try:
        d = Decimal(x)
    except Exception:  # noqa
        return None
    if not d.is_finite():
        return None
    return Fraction(d)


FLOAT_LIMIT = Fraction(2 ** 1024 - 2 ** 970)     # float(x) is finite iff |x| < 2^1024 - 2^970 (round half even at the top)
LARGEST_EXPONENT = 308                            # |x| >= 1e309: beyond every HomeKit number format


def dec_reading(x):
    """Decimal reading of a caller value (exact), or None when Decimal() rejects it or it is not finite.
    Unlike reading() this never expands a huge exponent."""
    try:
        d = Decimal(x)
    except Exception:  # noqa
        return None
    return d if d.is_finite() else None


def clamp_dec(d, mn, mx):
    """exact comparisons only (Decimal comparison does not round and does not depend on the context)"""
    if mn is not None and Decimal(mn) > d:
        d = Decimal(mn)
    if mx is not None and Decimal(mx) < d:
        d = Decimal(mx)
    return d


def extreme_metadata(*meta):
    """a bound or step whose exponent no JSON number / double can carry: decimal's own exponent range may be hit"""
    for m in meta:
        if m is None:
            continue
        d = Decimal(m)
        if d and not (-400 <= d.adjusted() <= 400 and d.as_tuple().exponent >= -1200):
            return True
    return False


def stand_in(c):
    """a value the property cannot tell from c, but small enough to expand: a non-zero c below 1e-5000 is replaced by
    +-1e-5000 (every tie point of a grid built from non-extreme metadata is further from zero than that)"""
    if c and c.adjusted() < -5000:
        return Decimal((c.as_tuple().sign, (1,), -5000))
    return c


def ref_bool(s: str):
    """0/1 or None (= must be rejected)."""
    w = s.lower()
    if w in TRUE_WORDS:
        return 1
    if w in FALSE_WORDS:
        return 0
    return None


def rhu(q: Fraction) -> int:
    """nearest integer, ties away from zero"""
    n = abs(q)
    r = (2 * n.numerator + n.denominator) // (2 * n.denominator)
    return r if q >= 0 else -r


def clamp(v, mn, mx):
    if mn is not None:
        v = max(mn, v)
    if mx is not None:
        v = min(mx, v)
    return v


def sigdigits(q: Fraction):
    """number of significant decimal digits of q, or None if q is not a terminating decimal"""
    if q == 0:
        return 0
    n, d = abs(q.numerator), q.denominator
    k = 0
    while d % 2 == 0:
        d //= 2
        k += 1
    j = 0
    while d % 5 == 0:
        d //= 5
        j += 1
    if d != 1:
        return None
    e = max(k, j)
    n = abs(q.numerator) * 10 ** e // q.denominator   # integer: q * 10^e
    while n % 10 == 0:
        n //= 10
    return len(str(n))


def is_int(q):
    return q is not None and q.denominator == 1


def round6(q: Fraction) -> Fraction:
    """q correctly rounded to six significant decimal digits, ties away from zero - in exact integer arithmetic
    (no decimal context): the unique m*10^e with 10^5 <= m < 10^6 (or 10^6 after a carry) nearest to q."""
    if q == 0:
        return q
    n, d = abs(q.numerator), q.denominator
    e = (n.bit_length() - d.bit_length()) * 30103 // 100000 - 6     # first guess of the exponent of the sixth digit, then adjust
    def scaled(e):                               # noqa: E306 - |q| / 10^e as a Fraction
        return Fraction(n, d * 10 ** e) if e >= 0 else Fraction(n * 10 ** (-e), d)
    while scaled(e) >= 10 ** 6:
        e += 1
    while scaled(e) < 10 ** 5:
        e -= 1
    m = rhu(scaled(e))
    r = m * Fraction(10) ** e
    return r if q > 0 else -r


def chain6(off: Fraction, st: Fraction, c: Fraction) -> Fraction:
    """The deterministic reading of 'six significant digits, ties upward' for the fractional path: every one of the four
    operations off + nearest((c - off) / st) * st is followed by ONE correct rounding to six digits (round6).  Used only
    where the tolerance band alone cannot decide (is a FormatError next to the largest double justified?); valid for
    non-extreme metadata (no intermediate leaves decimal's normal exponent range)."""
    d = round6(c - off)
    q = round6(d / st)
    m = round6(rhu(q) * st)
    return round6(off + m)


def spec(fmt, mn, mx, st, v):
    """What the property demands for a numeric format, from Fractions (mn/mx/st may be None).

    Returns a dict:
      kind = 'exact'   : the result must equal `value` (a Fraction)
      kind = 'approx'  : the result must lie within `tol` of one of `candidates`
      kind = 'grid'    : the result must lie within `tol` of off + k*step for some integer klo <= k <= khi
    plus 'lo'/'hi' when the range must contain the result (strictly or within tol)."""
    integer_fmt = fmt != "float"
    c = clamp(v, mn, mx)
    off = mn if mn is not None else Fraction(0)
    out = {}
    if not st:                                  # no grid
        if not integer_fmt or is_int(c):
            out.update(kind="exact", value=c)
        else:
            out.update(kind="approx", candidates=[c], tol=Fraction(1, 2))
        return out
    q = (c - off) / st
    r = rhu(q)
    exact = off + r * st
    if integer_fmt and is_int(v) and is_int(off) and is_int(st) and (mn is None or is_int(mn)) and is_int(c):
        out.update(kind="exact", value=exact)
    else:
        small = all((sd := sigdigits(x)) is not None and sd <= 6 for x in (c - off, q, r * st, exact))
        if small and (not integer_fmt or is_int(exact)):
            out.update(kind="exact", value=exact)
        else:
            # six-digit arithmetic: the quotient carries two roundings, the product and the sum one each
            dq = abs(q) * (2 * EPS + EPS * EPS)
            klo, khi = min(rhu(q - dq), r), max(rhu(q + dq), r)
            tol = max((abs(k * st) * EPS * (1 + EPS) + (abs(off + k * st) + abs(k * st) * EPS) * EPS)
                      for k in (klo, r, khi)) * Fraction(1000001, 1000000)
            if integer_fmt:
                tol += Fraction(1, 2)
            out.update(kind="grid", off=off, step=st, klo=klo, khi=khi, tol=tol)
    if mn is not None and mx is not None and mn <= mx and ((mx - mn) / st).denominator == 1:
        out.update(lo=mn, hi=mx)
        # six-digit bounds are barriers for round-to-nearest: then membership is strict even on the rounded path
        # (an integer format whose bounds are not integers has no integer on its grid at all: there the hand-over to an int may
        # leave the range by up to 1/2 - the non-strict check - which is what int_fractional_in_range assumes: integer bounds)
        out["strict"] = st > 0 and (not integer_fmt or (is_int(mn) and is_int(mx))) and all((sd := sigdigits(x)) is not None and sd <= 6 for x in (mn, mx, mx - mn, (mx - mn) / st))
    return out
