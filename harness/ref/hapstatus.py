"""Independent reference tables for C13 (HAP R2 spec, table 6-11 'HAP Status Codes', and
table 7-37 'HAP PDU status codes').  Not derived from aiohomekit."""

# HAP status code -> conventional name
HAP_STATUS = {
    0: "SUCCESS",
    -70401: "INSUFFICIENT_PRIVILEGES",
    -70402: "UNABLE_TO_COMMUNICATE",
    -70403: "RESOURCE_BUSY",
    -70404: "CANT_WRITE_READ_ONLY",
    -70405: "CANT_READ_WRITE_ONLY",
    -70406: "NOTIFICATION_NOT_SUPPORTED",
    -70407: "OUT_OF_RESOURCES",
    -70408: "TIMED_OUT",
    -70409: "RESOURCE_NOT_EXIST",
    -70410: "INVALID_VALUE",
    -70411: "INSUFFICIENT_AUTH",
    -70412: "NOT_ALLOWED_IN_CURRENT_STATE",
}
NAME_TO_CODE = {v: k for k, v in HAP_STATUS.items()}
NAME_TO_CODE["UNKNOWN"] = -1       # the library's member for undefined codes

PDU_STATUS = {0: "SUCCESS", 1: "UNSUPPORTED_PDU", 2: "MAX_PROCEDURES", 3: "INSUFFICIENT_AUTHORIZATION",
              4: "INVALID_INSTANCE_ID", 5: "INSUFFICIENT_AUTHENTICATION", 6: "INVALID_REQUEST"}
# aiohomekit's CoAP layer adds two local error states
COAP_EXTRA = {256: "TID_MISMATCH", 257: "BAD_CONTROL"}


def normalise(status: int):
    """Sign-insensitive lookup: the defined code a status denotes, or None when undefined."""
    n = -abs(status)
    return n if n in HAP_STATUS else None


def read_descr_token(status: int) -> str:
    """Description token a read must attach to a non-zero status: c<code> or u<status as sent>."""
    n = normalise(status)
    return f"c{n}" if n is not None else f"u{status}"


def write_descr_token(status: int) -> str:
    n = normalise(status)
    return f"c{n}" if n is not None else "c-1"
