"""Independent lexical-level JSON reader for C20: bytes -> tree that keeps number and string tokens
verbatim (escapes not decoded).  Tree: None | True | False | ("N", bytes) | ("S", bytes) | ("A", [..]) |
("O", [(key_bytes, tree), ..]).  Strict RFC 8259 structure, white space allowed where JSON allows it.
Written from the grammar, not from the Coq model."""
import re

WS = b" \n\r\t"
NUM_RE = re.compile(rb"-?(0|[1-9][0-9]*)(\.[0-9]+)?([eE][+-]?[0-9]+)?")
NUMC = b"0123456789-+.eE"


class LexError(Exception):
    pass


def _ws(b, i):
    while i < len(b) and b[i] in WS:
        i += 1
    return i


def _string(b, i):
    # b[i] == '"'
    j = i + 1
    while True:
        if j >= len(b):
            raise LexError("unterminated string")
        c = b[j]
        if c == 0x22:
            return b[i + 1:j], j + 1
        if c == 0x5C:
            if j + 1 >= len(b) or b[j + 1] not in b'"\\/bfnrtu':
                raise LexError("bad escape")
            j += 2
            continue
        if c < 0x20:
            raise LexError("control character")
        j += 1


def _value(b, i, depth=0):
    i = _ws(b, i)
    if i >= len(b):
        raise LexError("eof")
    c = b[i]
    if c == 0x22:
        t, i = _string(b, i)
        return ("S", t), i
    if c == 0x5B:
        i = _ws(b, i + 1)
        out = []
        if i < len(b) and b[i] == 0x5D:
            return ("A", out), i + 1
        while True:
            v, i = _value(b, i, depth + 1)
            out.append(v)
            i = _ws(b, i)
            if i < len(b) and b[i] == 0x2C:
                i += 1
                continue
            if i < len(b) and b[i] == 0x5D:
                return ("A", out), i + 1
            raise LexError("array")
    if c == 0x7B:
        i = _ws(b, i + 1)
        out = []
        if i < len(b) and b[i] == 0x7D:
            return ("O", out), i + 1
        while True:
            i = _ws(b, i)
            if i >= len(b) or b[i] != 0x22:
                raise LexError("key")
            k, i = _string(b, i)
            i = _ws(b, i)
            if i >= len(b) or b[i] != 0x3A:
                raise LexError("colon")
            v, i = _value(b, i + 1, depth + 1)
            out.append((k, v))
            i = _ws(b, i)
            if i < len(b) and b[i] == 0x2C:
                i += 1
                continue
            if i < len(b) and b[i] == 0x7D:
                return ("O", out), i + 1
            raise LexError("object")
    for lit, val in ((b"null", None), (b"true", True), (b"false", False)):
        if b[i:i + len(lit)] == lit:
            return val, i + len(lit)
    if c in NUMC:
        j = i
        while j < len(b) and b[j] in NUMC:
            j += 1
        tok = b[i:j]
        if not NUM_RE.fullmatch(tok):
            raise LexError("number")
        return ("N", tok), j
    raise LexError("value")


def lex(b: bytes):
    v, i = _value(b, 0)
    if _ws(b, i) != len(b):
        raise LexError("trailing data")
    return v
