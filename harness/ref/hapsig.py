"""Independent reference for the characteristic-signature secondary codec (what `to_dict()` of a decoded
HAP-BLE / HAP-CoAP characteristic signature must report), written from the specifications:

  * HAP-BLE "Characteristic Properties Descriptor" bit assignment (HAP R2 table 7-50):
        0x0001 read  0x0002 write  0x0004 additional authorization data  0x0008 timed write
        0x0010 secure read  0x0020 secure write  0x0040 hidden  0x0080 notify (connected)
        0x0100 notify (disconnected)  0x0200 broadcast notify
    HAP permission names: pr = secure read, pw = secure write, ev = notify connected, aa, tw, hd.
  * Bluetooth "Characteristic Presentation Format" descriptor (7 bytes: format, exponent, unit (LE16), namespace,
    description (LE16)); format codes 0x01 boolean, 0x04 uint8, 0x06 uint16, 0x08 uint32, 0x0A uint64, 0x10 sint32,
    0x14 float32, 0x19 utf8s, 0x1B struct (opaque data); units 0x2700 unitless, 0x272F celsius, 0x2763 degree (arc),
    0x27AD percentage, 0x2731 lux, 0x2703 second.
  * valid range descriptor = minimum then maximum in the characteristic's own format, little endian; step value
    descriptor = one value in that format.

Shares no code with aiohomekit or the Coq model.  Returns a dict of expected aspects; an aspect the specifications do
not pin down (zero step, values of unknown formats, malformed descriptors) is reported as WILD.
"""
from __future__ import annotations

WILD = "*"

PERM_BITS = [("pr", 0x0010), ("pw", 0x0020), ("ev", 0x0080), ("aa", 0x0004), ("tw", 0x0008), ("hd", 0x0040)]
BLE_FORMATS = {0x01: "bool", 0x04: "uint8", 0x06: "uint16", 0x08: "uint32", 0x0A: "uint64", 0x10: "int", 0x14: "float",
               0x19: "string", 0x1B: "data"}
COAP_FORMATS = {0x01: "bool", 0x04: "int", 0x06: "int", 0x08: "int", 0x0A: "int", 0x10: "int", 0x14: "float",
                0x19: "string", 0x1B: "data"}
UNITS = {0x272F: "celsius", 0x2763: "arcdegrees", 0x27AD: "percentage", 0x2731: "lux", 0x2703: "seconds"}
UINT_SIZE = {0x04: 1, 0x06: 2, 0x08: 4, 0x0A: 8}


def _num(fmt, b):
    """one value of an integer format -> 'i<decimal>' ; float -> 'f<hex of the 4 bytes>' ; None if the size is wrong"""
    if fmt in UINT_SIZE:
        if len(b) != UINT_SIZE[fmt]:
            return None
        n = 0
        for i, x in enumerate(b):
            n += x << (8 * i)
        return "i%d" % n
    if fmt == 0x10:
        if len(b) != 4:
            return None
        n = b[0] | (b[1] << 8) | (b[2] << 16) | (b[3] << 24)
        return "i%d" % (n - (1 << 32) if n & 0x80000000 else n)
    if fmt == 0x14:
        if len(b) != 4:
            return None
        return "f" + (bytes(b).hex() or "-")
    return None


def expected(variant, props, pf, valid_range, step, raw):
    """-> dict(perms, bcast, disc, format, unit, value, minstep, minmax) of canonical strings (see harness/c16.py) or WILD"""
    out = {}
    out["perms"] = ",".join(name for name, bit in PERM_BITS if props & bit)
    out["bcast"] = ("1" if props & 0x0200 else "0") if variant == "ble" else "0"
    out["disc"] = ("1" if props & 0x0100 else "0") if variant == "ble" else "0"
    if pf is not None and len(pf) != 7:
        return None                                   # malformed descriptor: the specifications say nothing
    fmt = pf[0] if pf is not None else None
    unit = (pf[2] | (pf[3] << 8)) if pf is not None else None
    out["format"] = (BLE_FORMATS if variant == "ble" else COAP_FORMATS).get(fmt, "_")
    out["unit"] = UNITS.get(unit, "_")
    # step
    if not step:
        out["minstep"] = "_"
    else:
        v = _num(fmt, step)
        out["minstep"] = WILD if (v is None or v in ("i0", "f00000000", "f00000080")) else v
    # range
    if not valid_range:
        out["minmax"] = "_"
    elif fmt in UINT_SIZE or fmt in (0x10, 0x14):
        k = len(valid_range) // 2
        lo, hi = _num(fmt, valid_range[:k]), _num(fmt, valid_range[k:])
        out["minmax"] = WILD if (lo is None or hi is None or len(valid_range) % 2) else lo + "/" + hi
    else:
        out["minmax"] = WILD
    # current value
    if raw is None:
        out["value"] = "_"
    elif fmt in UINT_SIZE or fmt in (0x10, 0x14):
        v = _num(fmt, raw)
        out["value"] = WILD if v is None else v
    elif fmt == 0x01 and len(raw) == 1:
        out["value"] = "b1" if raw[0] else "b0"
    elif fmt == 0x19 and raw:
        try:
            bytes(raw).decode("utf-8")
            out["value"] = "t" + bytes(raw).hex()
        except UnicodeDecodeError:
            out["value"] = WILD
    else:
        out["value"] = WILD
    return out
