"""Independent reference TLV8 codec (HAP R2 chapter 14.1).  Shares no code with aiohomekit."""
from __future__ import annotations


def ref_encode(items):
    out = bytearray()
    for k, v in items:
        v = bytes(v)
        if not 0 <= k <= 255:
            raise ValueError("type")
        if len(v) == 0:
            out += bytes([k, 0])
            continue
        for i in range(0, len(v), 255):
            c = v[i:i + 255]
            out += bytes([k, len(c)]) + c
    return bytes(out)


def ref_parse_frags(bs, expected=None):
    """Strict fragment parser. Returns list of (type, bytes) or None when truncated.
    With an expected filter, parsing stops (successfully) at the first unexpected type."""
    bs = bytes(bs)
    i, fr = 0, []
    while i < len(bs):
        k = bs[i]
        if expected and k not in expected:
            break
        if i + 1 >= len(bs):
            return None
        n = bs[i + 1]
        if i + 2 + n > len(bs):
            return None
        fr.append((k, bs[i + 2:i + 2 + n]))
        i += 2 + n
    return fr


def ref_merge(fr):
    out = []
    for k, v in fr:
        if out and out[-1][0] == k:
            out[-1] = (k, out[-1][1] + v)
        else:
            out.append((k, v))
    return out


def ref_decode(bs, expected=None):
    fr = ref_parse_frags(bs, expected)
    return None if fr is None else ref_merge(fr)


def wf(items):
    for i, (k, v) in enumerate(items):
        if not 0 <= k <= 255:
            return False
        if k == 255 and len(v):
            return False
        if i and items[i - 1][0] == k:
            return False
    return True
