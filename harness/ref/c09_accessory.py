"""C09: in-memory transport + a minimal reference accessory (pair-verify, secure framing, canned replies).

Independent of aiohomekit's helpers: own TLV8 codec, HKDF-SHA512 via hmac, X25519/Ed25519/
ChaCha20-Poly1305 from `cryptography` called directly.  The accessory reads requests LENIENTLY
(LF or CRLF line ends, any header casing/order) so that a non-canonical client still gets its
answer and the harness can record what it sent; every recorded request keeps the indices of
the transport calls that carried its bytes.
"""
from __future__ import annotations

import asyncio
import hashlib
import hmac
import json
import re
import struct

from cryptography.hazmat.primitives import serialization
from cryptography.hazmat.primitives.asymmetric import ed25519, x25519
from cryptography.hazmat.primitives.ciphers.aead import ChaCha20Poly1305

RAW = dict(encoding=serialization.Encoding.Raw, format=serialization.PublicFormat.Raw)
IDENTIFY_TYPE = "00000014-0000-1000-8000-0026BB765291"


# ------------------------------------------------------------------ small codecs
def tlv_enc(items) -> bytes:
    out = bytearray()
    for t, v in items:
        v = bytes(v)
        if not v:
            out += bytes([t, 0])
        for i in range(0, len(v), 255):
            ch = v[i:i + 255]
            out += bytes([t, len(ch)]) + ch
    return bytes(out)


def tlv_dec(bs: bytes):
    out, i = [], 0
    while i + 2 <= len(bs):
        t, n = bs[i], bs[i + 1]
        v = bs[i + 2:i + 2 + n]
        if out and out[-1][0] == t and out[-1][2]:
            out[-1] = (t, out[-1][1] + v, n == 255)
        else:
            out.append((t, v, n == 255))
        i += 2 + n
    return [(t, v) for t, v, _ in out]


def hkdf(ikm: bytes, salt: bytes, info: bytes, length: int = 32) -> bytes:
    prk = hmac.new(salt, ikm, hashlib.sha512).digest()
    okm, t, c = b"", b"", 1
    while len(okm) < length:
        t = hmac.new(prk, t + info + bytes([c]), hashlib.sha512).digest()
        okm += t
        c += 1
    return okm[:length]


def http_response(code: int, reason: str, ctype: str | None, body: bytes) -> bytes:
    head = [f"HTTP/1.1 {code} {reason}"]
    if ctype:
        head.append(f"Content-Type: {ctype}")
    head.append(f"Content-Length: {len(body)}")
    return ("\r\n".join(head) + "\r\n\r\n").encode() + body


_HEAD_END = re.compile(rb"\r?\n\r?\n")


def lenient_split(buf: bytes):
    """If `buf` starts with a complete request return (raw, rest, info) else None.  Lenient on purpose."""
    m = _HEAD_END.search(buf)
    if not m:
        return None
    head = buf[:m.start()]
    lines = re.split(rb"\r?\n", head)
    clen = 0
    headers = []
    for ln in lines[1:]:
        if b":" in ln:
            k, v = ln.split(b":", 1)
            headers.append((k.strip().lower(), v.strip()))
            if k.strip().lower() == b"content-length":
                try:
                    clen = int(v.strip())
                except ValueError:
                    clen = 0
    total = m.end() + clen
    if len(buf) < total:
        return None
    parts = lines[0].split()
    info = dict(method=(parts[0].upper().decode("latin1") if parts else ""),
                target=(parts[1] if len(parts) > 1 else b""),
                headers=headers, body=buf[m.end():total])
    return buf[:total], buf[total:], info


# ------------------------------------------------------------------ the accessory
class Captured:
    __slots__ = ("raw", "calls", "secure", "info", "host", "conn")

    def __init__(self, raw, calls, secure, info, host=None, conn=0):
        self.raw, self.calls, self.secure, self.info = raw, calls, secure, info
        self.host, self.conn = host, conn      # peer address / ordinal of the connection it was written to


class Accessory:
    def __init__(self, pairing_id: str, ltsk: ed25519.Ed25519PrivateKey, accessories_json: bytes,
                 host: str | None = None, conn: int = 0, sink: list | None = None):
        """One instance per TCP connection; `sink` (shared by the connections of a session) receives the requests."""
        self.pairing_id = pairing_id
        self.ltsk = ltsk
        self.accessories_json = accessories_json
        self.host, self.conn = host, conn
        self.reset()
        if sink is not None:
            self.captured = sink

    def reset(self):
        self.secure = False
        self.c2a_key = self.a2c_key = None
        self.c2a_ctr = self.a2c_ctr = 0
        self.cipher_buf = bytearray()     # undecoded secure frames
        self.plain_buf = bytearray()      # request bytes not yet forming a complete request
        self.buf_calls = []               # transport-call indices that contributed to plain_buf
        self.captured: list[Captured] = []
        self.errors: list[str] = []
        self._shared = None
        self._pending_secure = None

    # -- inbound --------------------------------------------------------------
    def on_call(self, idx: int, data: bytes):
        """Called once per transport.write/writelines call; returns the list of wire responses."""
        out = []
        if data and idx not in self.buf_calls:
            self.buf_calls.append(idx)
        if self.secure:
            self.cipher_buf += data
            plain = bytearray()
            while len(self.cipher_buf) >= 2:
                n = struct.unpack("<H", self.cipher_buf[:2])[0]
                if len(self.cipher_buf) < 2 + n + 16:
                    break
                aad = bytes(self.cipher_buf[:2])
                ct = bytes(self.cipher_buf[2:2 + n + 16])
                del self.cipher_buf[:2 + n + 16]
                try:
                    plain += ChaCha20Poly1305(self.c2a_key).decrypt(
                        struct.pack("<LQ", 0, self.c2a_ctr), ct, aad)
                except Exception:  # noqa
                    self.errors.append("secure-frame-undecodable")
                    return out
                self.c2a_ctr += 1
            data = bytes(plain)
        self.plain_buf += data
        while True:
            r = lenient_split(bytes(self.plain_buf))
            if r is None:
                break
            raw, rest, info = r
            was_secure = self.secure
            self.captured.append(Captured(raw, list(self.buf_calls), was_secure, info, self.host, self.conn))
            self.plain_buf = bytearray(rest)
            self.buf_calls = [idx] if (rest or self.cipher_buf) else []
            resp = self.respond(info)
            out.append(self.seal(resp) if was_secure else resp)
            if self._pending_secure:
                self.c2a_key, self.a2c_key = self._pending_secure
                self._pending_secure = None
                self.secure = True
        return out

    def seal(self, resp: bytes) -> bytes:
        out = bytearray()
        for i in range(0, len(resp), 1024):
            ch = resp[i:i + 1024]
            aad = struct.pack("<H", len(ch))
            out += aad + ChaCha20Poly1305(self.a2c_key).encrypt(struct.pack("<LQ", 0, self.a2c_ctr), ch, aad)
            self.a2c_ctr += 1
        return bytes(out)

    # -- canned behaviour -----------------------------------------------------
    def respond(self, info) -> bytes:
        method, target, body = info["method"], info["target"], info["body"]
        path = target.split(b"?")[0]
        if path == b"/pair-verify" and method == "POST":
            return self.pair_verify(body)
        if path == b"/accessories" and method == "GET":
            return http_response(200, "OK", "application/hap+json", self.accessories_json)
        if path == b"/characteristics" and method == "GET":
            return http_response(200, "OK", "application/hap+json", b'{"characteristics":[]}')
        if path == b"/pairings" and method == "POST" and self.secure:
            return http_response(200, "OK", "application/pairing+tlv8",
                                 tlv_enc([(6, b"\x02"), (1, b"some-controller"), (3, bytes(32)), (11, b"\x01")]))
        if path == b"/resource" and method == "POST" and self.secure:
            return http_response(200, "OK", "image/jpeg", b"\xff\xd8\xff\xd9")
        return http_response(204, "No Content", None, b"")

    def pair_verify(self, body: bytes) -> bytes:
        d = dict(tlv_dec(body))
        state = d.get(6, b"")
        if state == b"\x01":
            ios_pub = d.get(3, b"")
            eph = x25519.X25519PrivateKey.generate()
            eph_pub = eph.public_key().public_bytes(**RAW)
            self._shared = eph.exchange(x25519.X25519PublicKey.from_public_bytes(ios_pub))
            sk = hkdf(self._shared, b"Pair-Verify-Encrypt-Salt", b"Pair-Verify-Encrypt-Info")
            sig = self.ltsk.sign(eph_pub + self.pairing_id.encode() + ios_pub)
            sub = tlv_enc([(1, self.pairing_id.encode()), (10, sig)])
            enc = ChaCha20Poly1305(sk).encrypt(b"\x00\x00\x00\x00PV-Msg02", sub, b"")
            return http_response(200, "OK", "application/pairing+tlv8",
                                 tlv_enc([(6, b"\x02"), (3, eph_pub), (5, enc)]))
        if state == b"\x03" and self._shared is not None:
            c2a = hkdf(self._shared, b"Control-Salt", b"Control-Write-Encryption-Key")
            a2c = hkdf(self._shared, b"Control-Salt", b"Control-Read-Encryption-Key")
            self._pending_secure = (c2a, a2c)
            return http_response(200, "OK", "application/pairing+tlv8", tlv_enc([(6, b"\x04")]))
        return http_response(200, "OK", "application/pairing+tlv8", tlv_enc([(6, state or b"\x02"), (7, b"\x02")]))


# ------------------------------------------------------------------ the transport
class MemTransport(asyncio.Transport):
    """Records every write()/writelines() call; hands the bytes to the accessory; answers via call_soon."""

    def __init__(self, loop, accessory: Accessory, protocol):
        super().__init__()
        self._loop = loop
        self.accessory = accessory
        self._protocol = protocol
        self.calls = []        # (kind, [chunks])
        self._closing = False

    def _record(self, kind, chunks):
        idx = len(self.calls)
        self.calls.append((kind, chunks))
        if self._closing:
            return
        for resp in self.accessory.on_call(idx, b"".join(chunks)):
            self._loop.call_soon(self._deliver, resp)

    def _deliver(self, data):
        if not self._closing:
            self._protocol.data_received(data)

    def write(self, data):
        self._record("write", [bytes(data)])

    def writelines(self, list_of_data):
        self._record("writelines", [bytes(x) for x in list_of_data])

    def is_closing(self):
        return self._closing

    def close(self):
        if not self._closing:
            self._closing = True
            self._loop.call_soon(self._protocol.connection_lost, None)

    def abort(self):
        self.close()

    def peer_close(self):
        """The accessory closes the TCP connection: EOF, then connection_lost (as the selector transport does)."""
        if not self._closing:
            self._closing = True

            def _lost():
                try:
                    self._protocol.eof_received()
                finally:
                    self._protocol.connection_lost(None)
            self._loop.call_soon(_lost)

    def can_write_eof(self):
        return True

    def write_eof(self):
        pass

    def set_protocol(self, protocol):
        self._protocol = protocol

    def get_protocol(self):
        return self._protocol

    def get_extra_info(self, name, default=None):
        return default


class FakeSock:
    def __init__(self, sockaddr):
        self._peer = sockaddr

    def getpeername(self):
        return self._peer

    def setsockopt(self, *a):
        pass

    def close(self):
        pass


def accessories_doc(aids, iids):
    """An /accessories document in which every (aid, iid) of the universe is a writable/readable characteristic."""
    accs = []
    for aid in aids:
        chars = [dict(iid=2, type=IDENTIFY_TYPE, perms=["pw"], format="bool", description="Identify")]
        for iid in iids:
            if iid in (1, 2):
                continue
            chars.append(dict(iid=iid, type="00000025-0000-1000-8000-0026BB765291", perms=["pr", "pw", "ev"],
                              format="string", value="x", description="c"))
        accs.append(dict(aid=aid, services=[dict(iid=1, type="0000003E-0000-1000-8000-0026BB765291",
                                                 characteristics=chars)]))
    return json.dumps({"accessories": accs}).encode()
