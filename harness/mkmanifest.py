"""Assemble MANIFEST.json from manifest.d/*.json fragments (one per claimed property)."""
import glob, json, os
V = os.path.dirname(os.path.dirname(os.path.abspath(__file__)))
props = [json.loads(l)["id"] for l in open(os.path.join(V, "properties.jsonl"))]
checks, claimed = [], set()
ready = set(open(os.path.join(V, "manifest.d", "READY")).read().split())
for f in sorted(glob.glob(os.path.join(V, "manifest.d", "C*.json"))):
    d = json.load(open(f))
    pid = d["property_id"]
    if pid not in ready:
        continue
    claimed.add(pid)
    d.setdefault("quick_cmd", f"./check {pid} --tier quick")
    d.setdefault("thorough_cmd", f"./check {pid} --tier thorough")
    d.setdefault("evidence_file", f"/verif/evidence/{pid}.json")
    d.setdefault("replay_cmd_template", f"./check {pid} --replay {{path}}")
    d.setdefault("engine", "coq-model+correspondence")
    checks.append(d)
na_path = os.path.join(V, "manifest.d", "not_applicable.json")
na_reasons = json.load(open(na_path)) if os.path.exists(na_path) else {}
na = [dict(property_id=p, reason=na_reasons.get(p, "not yet built in this framework: no Coq model/theorems committed for it yet (work in progress, see DESIGN.md section 5)"))
      for p in props if p not in claimed]
m = dict(
    version=1,
    setup_cmd="cd /verif && ./check --setup",
    hooks=dict(guard="AIOHOMEKIT_VERIF", enable="no source hooks: the harness monkey-patches module attributes from outside",
               baseline_off_cmd="cd /repo && /venv/bin/python -m pytest -ra -q -p no:cacheprovider --timeout=900 --continue-on-collection-errors",
               source_commits=[], add_only=True),
    engines=[dict(name="coq-model+correspondence", path="/verif/check", serves_properties=sorted(claimed),
                  kind_free_text="Coq 8.16.1 theorems over hand-written Gallina models (coq/theories), tied to /repo by a differential correspondence check (extracted OCaml model vs the Python implementation) with independent reference oracles")],
    checks=checks,
    notes="See DESIGN.md. fix: commits in /repo are listed in known_findings.json (kind=fixed).",
    not_applicable=na,
)
json.dump(m, open(os.path.join(V, "MANIFEST.json"), "w"), indent=1)
print("claimed", sorted(claimed), "not_applicable", [x["property_id"] for x in na])
